"""C13 - the analysis depends on program structure, not on layout.

Decided by: Coq theorems C13_* (Props/C13.v): for every flow graph, two position assignments that
order the bindings of each flow (and the read against them) identically give the same own lists,
the same bisect index and the same set of alternatives at the read  +  (I) Model/Layout.v +
Model/FlowGraph.v reproduce the real Flow._names order and the real names_at answers of BOTH
layouts of every pair  +  the premise (order_equivb / read_equivb) evaluated in Coq on every pair  +
direct evaluator: lint codes+messages in corresponding order and names / definitions at corresponding
reads (matched by AST traversal index, bindings matched by creation order) must agree between a
source and its ast.unparse form and randomised re-layouts (layout-only printer, output checked to
parse to an identical AST).
"""
import ast
import json
import os

import common
from common import stdlib_files, coq_list
from props import flowdump as fd

LEVEL = 'proof'
KNOWN_ID = 'C13-KW-STAR-WALRUS'
ASSUMPTIONS = [
    'premise of C13_layout_independent (two layouts of one AST are order_equiv under supp\'s choice of locations) is a claim about CPython position assignment: evaluated per pair in Coq (order_equivb/read_equivb), not proved',
    'the layout-only printer keeps the AST: checked per output with ast.dump (no positions); outputs that do not are discarded and counted',
    'bisect_right is modelled as a linear scan; it equals CPython\'s binary search on sorted lists (own_sortedb is evaluated on every dumped graph)',
]

PRELUDE_BODY = '''
Definition own_ids (g : graph) : list (list bid) := map (fun fl => map b_id (own fl)) (flows g).
Definition ids_eqb (a b : list (list bid)) : bool := list_eqb (list_eqb Pos.eqb) a b.
Definition c13_case := (list sflow * list nat * list (bid * (pos * pos)) * list (bid * (pos * pos))
                        * list (list bid) * list (list bid)
                        * list (nat * pos * pos * name * option (list alt) * option (list alt)))%type.
(* the model reproduces, for both layouts, the order of Flow._names and the answers at the reads *)
Definition c13_model (c : c13_case) : bool :=
  let '(sfs, lps, k1, k2, own1, own2, reads) := c in
  let km1 := kmap_of_list k1 in let km2 := kmap_of_list k2 in
  let g1 := place_graph km1 sfs lps in let g2 := place_graph km2 sfs lps in
  ids_eqb (own_ids g1) own1 && ids_eqb (own_ids g2) own2 &&
  zip_ok true (answers false g1 km1 (default_fuel g1) init_state (map (fun r => let '(f, l1, l2, n, a1, a2) := r in (f, l1, n)) reads))
              (map (fun r => let '(f, l1, l2, n, a1, a2) := r in a1) reads) &&
  zip_ok true (answers false g2 km2 (default_fuel g2) init_state (map (fun r => let '(f, l1, l2, n, a1, a2) := r in (f, l2, n)) reads))
              (map (fun r => let '(f, l1, l2, n, a1, a2) := r in a2) reads).
(* the premise of C13_layout_independent *)
Definition c13_premise (c : c13_case) : bool :=
  let '(sfs, lps, k1, k2, own1, own2, reads) := c in
  let km1 := kmap_of_list k1 in let km2 := kmap_of_list k2 in
  order_equivb km1 km2 sfs &&
  forallb (fun r => let '(f, l1, l2, n, a1, a2) := r in read_equivb km1 km2 sfs f l1 l2) reads.
'''


class Layout(object):
    """One analysed rendering of a program."""

    def __init__(self, text, filename):
        from supp.util import np
        self.text = text
        self.src, self.scope, self.created = fd.analyse_recorded(text, filename)
        self.g = fd.dump_graph(self.scope)
        self.cid = fd.creation_ids(self.g, self.created)
        self.inv = {v: k for k, v in self.g.names.items()}
        self.sites = fd.read_sites(self.src)
        # where every binding is reported to be declared, as a layout-independent identity
        ident = node_identity(self.src.tree)
        self.decl_ids = []
        for _f, nm in self.created:
            d = getattr(nm, 'declared_at', None)
            self.decl_ids.append((str(getattr(nm, 'name', '?')), ident(tuple(d)) if d and tuple(d) != (0, 0) else None))
        self.answers = []
        for n in self.sites:
            real = fd.real_answer(self.g, n)
            self.answers.append((self.g.flow_index[id(n.flow)], np(n), n.id, real))

    def canon(self, real):
        if real is None:
            return None
        return sorted(str(fd.canon_alt(self.g, self.cid, a, self.inv)) for a in real)

    def visible(self, k):
        """names_at of read k as {name: canonical alternatives}"""
        from supp.util import np
        from supp.name import MultiName
        n = self.sites[k]
        res = {}
        for key, v in n.flow.names_at(np(n)).items():
            alts = v.alt_names if type(v) is MultiName else [v]
            res[str(key)] = sorted(str(fd.canon_alt(self.g, self.cid, self.g.alt_of(a), self.inv)) for a in alts)
        return res


def node_identity(tree):
    """function (line, col) -> index (in ast.walk order) of the smallest AST node whose span contains
    the position: the same number for the same token of every layout of one AST (positions and spans
    are CPython's, in UTF-8 bytes, like supp's)"""
    nodes = [n for n in ast.walk(tree) if getattr(n, 'end_lineno', None) is not None]
    spans = [((n.lineno, n.col_offset), (n.end_lineno, n.end_col_offset), i) for i, n in enumerate(nodes)]

    def ident(loc):
        best = None
        for a, b, i in spans:
            if a <= loc < b:
                size = (b[0] - a[0], b[1] - a[1] if b[0] == a[0] else 10 ** 6)
                if best is None or (size, -i) < best[0]:
                    best = ((size, -i), i, type(nodes[i]).__name__, loc == a)
        return ('?',) + tuple(loc) if best is None else best[1:]
    return ident


def locations_of(text, reads, picks):
    """location() the way an editor asks for an unsaved buffer (filename=None) at sampled reads;
    definitions as layout-independent token identities"""
    from supp.assistant import location
    try:
        ident = node_identity(ast.parse(text))
    except Exception:
        return None
    lines = text.split('\n')
    out = []
    for k in picks:
        n = reads[k]
        if not lines[n.lineno - 1].isascii():
            out.append('skip')
            continue
        try:
            r = location(fd.project(), text, (n.lineno, n.col_offset + len(n.id)), None)
        except Exception as e:
            out.append('EXC:' + type(e).__name__)
            continue
        flat = []
        for x in r:
            for d in (x if isinstance(x, list) else [x]):
                loc = tuple(d['loc'])
                flat.append(ident(loc) if d.get('file') in (None, '<string>') else ('file', os.path.basename(str(d.get('file'))), loc))
        out.append(flat)
    return out


def assists_of(text, reads, picks):
    """completion at the end of sampled reads (the request an editor sends while typing)"""
    from supp.assistant import assist
    lines = text.split('\n')
    out = []
    for k in picks:
        n = reads[k]
        if not lines[n.lineno - 1].isascii():
            out.append('skip')
            continue
        try:
            p, names = assist(fd.project(), text, (n.lineno, n.col_offset + len(n.id)), None)
            out.append([p, sorted(names)])
        except Exception as e:
            out.append('EXC:' + type(e).__name__)
    return out


def lint_of(text, filename):
    from supp.linter import lint
    try:
        return [(r[0], r[1]) for r in lint(fd.project(), text, filename)]
    except Exception as e:         # crashes are C08's business; here only "same in both layouts"
        return 'EXC:' + type(e).__name__


def compare(ctx, A, B, nfull):
    """direct evaluator on one pair: list of differences (empty = property holds on this pair)"""
    diffs = []
    if len(A.sites) != len(B.sites) or len(A.g.flows) != len(B.g.flows) or len(A.created) != len(B.created):
        return [('structure', (len(A.sites), len(A.g.flows), len(A.created)), (len(B.sites), len(B.g.flows), len(B.created)))]
    if A.decl_ids != B.decl_ids:
        k = next(i for i in range(len(A.decl_ids)) if A.decl_ids[i] != B.decl_ids[i])
        nmA = A.created[k][1]
        nmB = B.created[k][1]
        diffs.append(('declared_at', A.decl_ids[k][0], tuple(getattr(nmA, 'declared_at', ())), tuple(getattr(nmB, 'declared_at', ())),
                      str(A.decl_ids[k][1]), str(B.decl_ids[k][1])))
    for k, (a, b) in enumerate(zip(A.answers, B.answers)):
        if a[0] != b[0] or a[2] != b[2] or A.canon(a[3]) != B.canon(b[3]):
            diffs.append(('read', k, a[2], a[1], b[1], A.canon(a[3]), B.canon(b[3])))
            if len(diffs) > 5:
                break
    idx = list(range(len(A.sites)))
    ctx.rng.shuffle(idx)
    for k in idx[:nfull]:
        va, vb = A.visible(k), B.visible(k)
        if va != vb:
            bad = sorted(set(va) ^ set(vb)) or [n for n in va if va[n] != vb.get(n)]
            diffs.append(('visible', k, A.answers[k][1], B.answers[k][1], bad[:5]))
            break
    return diffs


def unified_case(A, B, max_reads=None):
    """Gallina term of the pair with B expressed in A's binding ids / name ids (matched by creation order)."""
    gA, gB = A.g, B.g
    # B bid -> A bid
    byc = {c: b for b, c in A.cid.items()}
    bmap = {}
    for b in range(len(gB.binds)):
        if b in B.cid:
            if B.cid[b] not in byc:
                raise fd.DumpError('binding created in one layout only')
            bmap[b] = byc[B.cid[b]]
    bn = {(bd['kind'], A.inv[bd['name']]): b for b, bd in enumerate(gA.binds) if b not in A.cid}
    for b, bd in enumerate(gB.binds):
        if b not in bmap:
            k = (bd['kind'], B.inv[bd['name']])
            if k not in bn:
                raise fd.DumpError('unmatched binding %r' % (k,))
            bmap[b] = bn[k]
    sfs, lps = fd.sgraph_term(gA, A.created)
    if gA.loops != gB.loops or [f['parents'] for f in gA.flows] != [f['parents'] for f in gB.flows]:
        raise fd.DumpError('graph skeleton differs')
    usedA = sorted({b for f in gA.flows for b in f['own']})
    k1 = fd.keys_term(gA, usedA)
    inv_b = {}
    for b, a in bmap.items():
        inv_b[a] = b
    nb = gA.nbuiltin
    if any(bmap.get(b) != b for b in range(nb)):
        raise fd.DumpError('builtins are not numbered alike in the two layouts')
    k2 = '(builtins_keys ++ %s)' % coq_list([
        '(%s, (%s, %s))' % (fd.coq_bid(a), fd.coq_loc(gB.binds[inv_b[a]]['loc']), fd.coq_loc(gB.binds[inv_b[a]]['decl']))
        for a in usedA if a in inv_b and a >= nb])

    def ids(g_, i, own, m):
        if i == g_.nreal and own == list(range(nb)):
            return 'builtins_ids'
        return coq_list([fd.coq_bid(m(b)) for b in own])
    own1 = coq_list([ids(gA, i, f['own'], lambda b: b) for i, f in enumerate(gA.flows)])
    own2 = coq_list([ids(gB, i, f['own'], lambda b: bmap[b]) for i, f in enumerate(gB.flows)])
    reads = []
    pairs = list(zip(A.answers, B.answers))
    if max_reads and len(pairs) > max_reads:
        step = len(pairs) // max_reads + 1
        pairs = pairs[::step]
    for a, b in pairs:
        ansB = None if b[3] is None else [x if x == 'U' else bmap[x] for x in b[3]]
        reads.append('(%d, %s, %s, %s, %s, %s)' % (a[0], fd.coq_loc(a[1]), fd.coq_loc(b[1]), fd.coq_pos(gA.nid(a[2])),
                                                   fd.alts_term(a[3]), fd.alts_term(ansB)))
    return '(%s, %s, %s, %s, %s, %s, %s)' % (sfs, lps, k1, k2, own1, own2, coq_list(reads))


def run(ctx):
    proof_ok = ctx.coq_props()
    cov = ctx.coverage
    cov['rule'] = ('a case = (program, re-layout) pair: corpus + hand-written + generated programs + real files, each against '
                   'its ast.unparse form and N randomised re-layouts (layout-only printer; AST identity checked); compared: lint '
                   '(code, message) sequence, definitions at every read, full visible-name table at sampled reads, and in Coq the '
                   'model answers / own order of both layouts and the order_equiv premise. non-trivial = the two texts differ')
    programs = []
    extra_layouts = {}
    cdir = os.path.join(common.VERIF, 'corpus', 'C13')
    if os.path.isdir(cdir):
        for f in sorted(os.listdir(cdir)):
            if f.endswith('.json') and not f.startswith('known_'):
                cj = json.load(open(os.path.join(cdir, f)))
                programs.append(('corpus/' + f, cj['source']))
                extra_layouts['corpus/' + f] = cj.get('layouts', [])
    # open finding: re-run its concrete input; KNOWN-FINDING only if that input still fails
    kf = os.path.join(cdir, 'known_%s.json' % KNOWN_ID)
    if os.path.exists(kf):
        ktext = json.load(open(kf))['source']
        kname = os.path.join(ctx.scratch, 'known.py')
        try:
            KA, KB = Layout(ktext, kname), Layout(fd.unparse_form(ast.parse(ktext)), kname)
            if compare(ctx, KA, KB, 2):
                ctx.known_finding(KNOWN_ID, 'keyword argument with a walrus written before a starred argument: the read in the '
                                  'starred argument resolves differently in the ast.unparse layout (input: corpus/C13/known_%s.json)' % KNOWN_ID)
        except fd.DumpError as e:
            ctx.notes.append('known finding not re-run, dumper failed closed: %s' % e)
    kf74 = os.path.join(cdir, 'known_F74.json')
    if os.path.exists(kf74):
        k74 = json.load(open(kf74))
        t74 = ast.parse(k74['source'])
        r74 = [n for n in ast.walk(t74) if isinstance(n, ast.Name) and isinstance(n.ctx, ast.Load)]
        u74 = fd.unparse_form(t74)
        rb74 = [n for n in ast.walk(ast.parse(u74)) if isinstance(n, ast.Name) and isinstance(n.ctx, ast.Load)]
        if assists_of(k74['source'], r74, range(len(r74))) != assists_of(u74, rb74, range(len(rb74))):
            ctx.known_finding('F74', 'completion at the end of the last name of an assignment value offers the target; with a keyword '
                              'written before a starred argument the layout and its ast.unparse form differ (input: corpus/C13/known_F74.json)')
    for i, p in enumerate(fd.HAND_PROGRAMS):
        programs.append(('hand%d.py' % i, p))
    for i in range(ctx.pick(55, 600)):
        p, kinds = fd.gen_program(ctx.rng)
        for k, v in kinds.items():
            ctx.histogram('constructs', k, v)
        programs.append(('gen%d.py' % i, p))
    for fn in stdlib_files(limit=ctx.pick(12, 120), rng=ctx.rng):
        try:
            text = open(fn, encoding='utf8').read()
        except (UnicodeDecodeError, OSError):
            continue
        if len(text) > ctx.pick(40000, 150000):
            continue
        programs.append((fn, text))

    nlay = ctx.pick(2, 3)
    terms, tmeta = [], []
    npairs = ndirect = nprinter_fail = ndump_fail = 0
    for fn, text in programs:
        real_file = os.path.isabs(fn)
        try:
            tree = ast.parse(text)
        except (SyntaxError, ValueError, RecursionError):
            continue
        if any(isinstance(n, ast.ImportFrom) and any(a.name == '*' for a in n.names) for n in ast.walk(tree)):
            cov['skipped_star_import'] = cov.get('skipped_star_import', 0) + 1      # names come from other modules (C09's domain)
            continue
        if fd.kw_star_walrus(tree):           # outside the stated sub-domain (open finding, re-run above)
            cov['skipped_kw_star_walrus'] = cov.get('skipped_kw_star_walrus', 0) + 1
            continue
        fname = fn if real_file else os.path.join(ctx.scratch, os.path.basename(fn))
        try:
            A = Layout(text, fname)
        except fd.DumpError as e:
            ctx.histogram('dumper_failed_closed', str(e)[:60])
            A = None
        except RecursionError:
            continue
        lintA = lint_of(text, fname)
        variants = [('unparse', fd.unparse_form(tree))]
        for j in range(nlay):
            variants.append(('relayout%d' % j, fd.relayout(tree, ctx.rng)))
        for j, lt in enumerate(extra_layouts.get(fn, [])):
            try:
                same = fd.ast_shape(ast.parse(lt)) == fd.ast_shape(tree)
            except SyntaxError:
                same = False
            variants.append(('corpus-layout%d' % j, lt if same else None))
        reads0 = [n for n in ast.walk(tree) if isinstance(n, ast.Name) and isinstance(n.ctx, ast.Load)]
        picks = sorted(ctx.rng.sample(range(len(reads0)), min(len(reads0), ctx.pick(3, 8) if real_file else ctx.pick(5, 14))))
        locA = locations_of(text, reads0, picks) if len(text) < 60000 else None
        apicks = picks[:ctx.pick(3, 8)]
        asA = assists_of(text, reads0, apicks) if len(text) < 60000 and not fd.kw_before_star(tree) else None
        for kind, vt in variants:
            if vt is None:
                nprinter_fail += 1
                continue
            npairs += 1
            ctx.count((text, vt), nontrivial=(vt != text))
            ctx.histogram('variant', kind)
            lintB = lint_of(vt, fname)
            diffs = []
            if locA is not None:
                readsB = [n for n in ast.walk(ast.parse(vt)) if isinstance(n, ast.Name) and isinstance(n.ctx, ast.Load)]
                locB = locations_of(vt, readsB, picks)
                bad_k = [i for i in range(len(picks)) if locB is not None and locA[i] != locB[i]
                         and 'skip' not in (locA[i], locB[i])]      # a read on a non-ASCII line is not asked
                if bad_k:
                    k = bad_k[0]
                    diffs.append(('location', reads0[picks[k]].id, (reads0[picks[k]].lineno, reads0[picks[k]].col_offset),
                                  (readsB[picks[k]].lineno, readsB[picks[k]].col_offset), str(locA[k])[:120], str(locB[k])[:120]))
            if asA is not None:
                readsB2 = [n for n in ast.walk(ast.parse(vt)) if isinstance(n, ast.Name) and isinstance(n.ctx, ast.Load)]
                asB = assists_of(vt, readsB2, apicks)
                bad_a = [i for i in range(len(apicks)) if asA[i] != asB[i] and 'skip' not in (asA[i], asB[i])]
                if bad_a:
                    i = bad_a[0]
                    da = [x for x in (asA[i][1] if isinstance(asA[i], list) else [asA[i]]) if x not in (asB[i][1] if isinstance(asB[i], list) else [asB[i]])]
                    db = [x for x in (asB[i][1] if isinstance(asB[i], list) else [asB[i]]) if x not in (asA[i][1] if isinstance(asA[i], list) else [asA[i]])]
                    diffs.append(('assist', reads0[apicks[i]].id, (reads0[apicks[i]].lineno, reads0[apicks[i]].col_offset),
                                  (readsB2[apicks[i]].lineno, readsB2[apicks[i]].col_offset), da[:6], db[:6]))
            if lintA != lintB:
                diffs.append(('lint', [x for x in (lintA if isinstance(lintA, list) else [lintA]) if x not in (lintB if isinstance(lintB, list) else [lintB])][:5],
                              [x for x in (lintB if isinstance(lintB, list) else [lintB]) if x not in (lintA if isinstance(lintA, list) else [lintA])][:5]))
            if A is not None:
                try:
                    B = Layout(vt, fname)
                    diffs += compare(ctx, A, B, ctx.pick(3, 6))
                    if not diffs and len(A.g.flows) < ctx.pick(700, 3000):
                        t = unified_case(A, B, ctx.pick(120, 2000))
                        if len(t) < 900000:
                            terms.append(t)
                            tmeta.append((fn, None if real_file else text, vt, kind))
                except fd.DumpError as e:
                    ndump_fail += 1
                    ctx.notes.append('dumper failed closed on a pair: %s' % e)
            if diffs:
                ndirect += 1
                if ndirect <= 10:
                    ctx.violation('layout changes the analysis (%s of %s): %s' % (kind, os.path.basename(fn), diffs[:2]),
                                  {'kind': 'direct', 'file': fn if real_file else None, 'source': text, 'layout': vt,
                                   'differences': diffs[:6]})
    cov['pairs'] = npairs
    cov['printer_outputs_discarded'] = nprinter_fail
    cov['dumper_failures'] = ndump_fail
    cov['direct_differences'] = ndirect
    ctx.log('%d pairs compared directly, %d differences; %d pairs to Coq' % (npairs, ndirect, len(terms)))

    jobs, offs = [], []
    gp = fd.graph_prelude()
    for off, chunk in fd.shards(terms, max(ctx.pick(150000, 400000), sum(map(len, terms)) // 16 + 1)):
        pre = gp + PRELUDE_BODY + 'Definition cases__ : list c13_case := %s.\n' % coq_list(chunk)
        jobs.append((['Model.Layout', 'Model.FlowGraph', 'Model.Memo'], pre,
                     ['(bad_idx c13_model cases__, bad_idx c13_premise cases__)']))
        offs.append(off)
    ctx.log('coq: %d jobs, %d bytes, largest case %d' % (len(jobs), sum(map(len, terms)), max(map(len, terms)) if terms else 0))
    bad_model, bad_prem = [], []
    for off, res in zip(offs, ctx.coq_eval_many(jobs, timeout=800)):
        bad_model += [off + i for i in res[0][0]]
        bad_prem += [off + i for i in res[0][1]]
    cov['correspondence_cases'] = len(terms)
    cov['correspondence_disagreements'] = len(bad_model)
    cov['premise_failed_pairs'] = len(bad_prem)
    for i in bad_model[:5]:
        fn, text, vt, kind = tmeta[i]
        ctx.violation('correspondence Model.Layout/FlowGraph vs supp (own order / names_at) no longer checks on %s (%s); '
                      'the direct comparison of the two layouts found no difference' % (os.path.basename(fn), kind),
                      {'kind': 'correspondence', 'theorem': 'C13_layout_independent / C13_own_order', 'file': fn if text is None else None,
                       'source': text, 'layout': vt}, found_input=False)
    # premise false on a pair whose outputs agree: not a violation (the theorem is an implication); recorded.
    for i in bad_prem[:3]:
        ctx.sample({'premise_failed_but_outputs_equal': os.path.basename(tmeta[i][0]), 'variant': tmeta[i][3]})
    if not proof_ok:
        ctx.violation('proof obligations of Props/C13.v not discharged: %s' % (ctx.notes,),
                      {'kind': 'proof', 'theorem': 'Props/C13.v', 'notes': ctx.notes,
                       'build_error': cov.get('build_error')}, found_input=False)
    for m in tmeta[:2]:
        ctx.sample({'file': os.path.basename(m[0]), 'variant': m[3], 'layout_head': m[2][:200]})


def replay(ctx, obj):
    r = obj['replay']
    text = r.get('source') or (open(r['file']).read() if r.get('file') else None)
    vt = r.get('layout')
    if text is None or vt is None:
        print(obj.get('what'))
        return 1
    fname = os.path.join(ctx.scratch, 'replay.py')
    la, lb = lint_of(text, fname), lint_of(vt, fname)
    print('lint equal:', la == lb)
    A, B = Layout(text, fname), Layout(vt, fname)
    d = compare(ctx, A, B, 50)
    print('differences:', d[:5])
    return 1 if (d or la != lb) else 0
