"""C05 - names resolve in the scope CPython's compiler assigns them to.

Decided by: Coq theorems C05_* (Props/C05.v) on Model/Scopes.v (py_owner = symtable.c analyze_name /
analyze_block, supp_owner = scope.py entry rule + ClassScope.names + add_global) for every scope tree,
+ (R) py_owner vs symtable.symtable() on every (block, identifier) of real and generated modules,
+ (I) supp_owner vs the owning scope of every alternative of Flow.names_at() at every Name load,
+ direct evaluator supp vs symtable with no model in between (search engine and replay).
"""
import ast
import json
import os
import symtable
import sys

from common import VERIF, coq_list, coq_N, coq_nat, stdlib_files

LEVEL = 'proof'
ASSUMPTIONS = [
    'CPython 3.12 symtable.symtable() reports the compiler\'s own symbol table (oracle); list/set/dict comprehension '
    'blocks are inlined by this CPython (PEP 709) and their symbols reported inside the enclosing block, generator '
    'expressions are blocks of their own; the scope tree gives a block its bindings other than comprehension '
    'iteration variables (local to the comprehension for CPython and, since fix F53, not locals of the scope for supp)',
    'the harness tree builder (ast -> scope tree: which constructs bind a name, in which block an expression is '
    'evaluated) follows symtable.c; it is validated on every run by (R): identifier sets and owners of every block '
    'must equal symtable\'s',
    'global reads: CPython decides module-vs-builtin at run time; "module" and "builtin" owners of supp are both '
    'accepted where the compiler says global',
    'reads of a name that is a comprehension iteration variable of a block on their chain (unless that block is a '
    'function which also binds the name otherwise and does not declare it), reads inside a generator expression in a '
    'class body of names the class binds or declares, and the implicit __class__ cell are outside the compared domain '
    '(counted in the evidence): inside the comprehension, and behind it where supp still offers the variable (open '
    'finding K6-C05), the scope tree cannot express what either party does',
    'the theorems use one bound-name set per block for both parties: that supp records as bound exactly the names '
    'symtable.c marks DEF_BOUND is checked by (I) on every source, not proved; it is false for binding forms supp does '
    'not know (open finding K4-C05: match capture patterns; bare annotations, augmented-assignment-only and del-only '
    'names), which the generator does not emit and which did not decide any read of the 1767 stdlib/repo files',
]

# ------------------------------------------------------------------------------------------
# scope tree built from the ast with symtable.c's binding rules (comprehensions merged into the
# enclosing block, as CPython 3.12 inlines them and as supp keeps their flows in the enclosing scope)
# ------------------------------------------------------------------------------------------

K_MODULE, K_FUNC, K_LAMBDA, K_CLASS = 'module', 'function', 'lambda', 'class'


class Unsupported(Exception):
    pass


class SNode(object):
    __slots__ = ('kind', 'name', 'lineno', 'node', 'parent', 'children', 'bound', 'comp_bound', 'plain_bound',
                 'globals', 'nonlocals', 'uses', 'loads', 'sid', 'path', 'st', 'st_parent', 'st_children', 'idents',
                 'names', 'comp_sites')

    def __init__(self, kind, name, lineno, node, parent):
        self.kind = kind
        self.name = name
        self.lineno = lineno
        self.node = node
        self.parent = parent
        self.children = []
        self.bound = set()        # every name bound in this block (symtable.c DEF_BOUND), comprehension targets included
        self.comp_bound = set()   # names bound as comprehension targets
        self.plain_bound = set()  # names bound otherwise
        self.globals = set()
        self.nonlocals = set()
        self.uses = set()         # names read (USE) in this block
        self.loads = []           # (ast.Name Load node, CPython block: this SNode or a GenBlock inside it)
        self.sid = None
        self.path = None
        self.st = None            # symtable block
        self.st_parent = None     # CPython's parent block (a GenBlock when created inside a generator expression)
        self.st_children = []     # CPython's child blocks (SNode / GenBlock)
        self.idents = set()       # identifiers CPython records in this block (mangled, as symtable keys them)
        self.names = set()        # the same, as written in the source
        self.comp_sites = set()   # (line, col) of the comprehension iteration variables written in this scope

    def ancestors(self):
        p = self.parent
        while p is not None:
            yield p
            p = p.parent


class GenBlock(object):
    """A generator expression: a function block for CPython (not inlined by PEP 709, so symtable
    reports it), merged into the enclosing scope for the model and for supp."""
    kind = 'genexpr'
    name = 'genexpr'

    def __init__(self, node, st_parent, merged):
        self.node = node
        self.lineno = node.lineno
        self.st_parent = st_parent
        self.st_children = []
        self.merged = merged      # the SNode it is merged into
        self.st = None
        self.idents = set()
        self.names = set()
        self.targets = set()


def mangle(private, name):
    """compile.c _Py_Mangle: the key under which symtable records a __private name."""
    if private is None or not name.startswith('__') or name.endswith('__') or '.' in name:
        return name
    p = private.lstrip('_')
    if not p:
        return name
    return '_' + p + name


def private_of(b):
    """name of the innermost class around (or equal to) block b"""
    while b is not None:
        if b.kind == K_CLASS:
            return b.name
        b = b.st_parent
    return None


def merged_of(b):
    return b.merged if isinstance(b, GenBlock) else b


class TreeBuilder(ast.NodeVisitor):
    """Transliteration of the visiting rules of symtable.c (3.12) that matter for ownership."""

    def __init__(self):
        self.cur = None     # merged scope
        self.blk = None     # CPython block (SNode or GenBlock)

    def build(self, tree):
        root = SNode(K_MODULE, 'top', 0, tree, None)
        self.root = self.cur = self.blk = root
        for s in tree.body:
            self.visit(s)
        number(root)
        return root

    # -- helpers
    def bind(self, name, comp=False):
        self.cur.bound.add(name)
        (self.cur.comp_bound if comp else self.cur.plain_bound).add(name)
        self.ident(name)

    def ident(self, name, blk=None):
        blk = blk or self.blk
        blk.idents.add(mangle(private_of(blk), name))
        blk.names.add(name)

    def visit_list(self, nodes):
        for n in nodes:
            if n is not None:
                self.visit(n)

    def child(self, kind, name, node, fill):
        sc = SNode(kind, name, node.lineno, node, self.cur)
        self.cur.children.append(sc)
        sc.st_parent = self.blk
        self.blk.st_children.append(sc)
        prev = self.cur, self.blk
        self.cur = self.blk = sc
        try:
            fill(sc)
        finally:
            self.cur, self.blk = prev
        return sc

    def args_outer(self, a, annotations=True):
        self.visit_list(a.defaults)
        self.visit_list(a.kw_defaults)
        if annotations:
            for x in a.posonlyargs + a.args + a.kwonlyargs:
                if x.annotation is not None:
                    self.visit(x.annotation)
            for x in (a.vararg, a.kwarg):
                if x is not None and x.annotation is not None:
                    self.visit(x.annotation)

    def args_inner(self, a):
        for x in a.posonlyargs + a.args + a.kwonlyargs:
            self.bind(x.arg)
        for x in (a.vararg, a.kwarg):
            if x is not None:
                self.bind(x.arg)

    # -- scopes
    def visit_FunctionDef(self, node):
        if getattr(node, 'type_params', None):
            raise Unsupported('type_params')
        self.bind(node.name)
        self.args_outer(node.args)
        if node.returns is not None:
            self.visit(node.returns)
        self.visit_list(node.decorator_list)

        def fill(sc):
            self.args_inner(node.args)
            self.visit_list(node.body)
        self.child(K_FUNC, node.name, node, fill)

    visit_AsyncFunctionDef = visit_FunctionDef

    def visit_Lambda(self, node):
        self.args_outer(node.args, annotations=False)

        def fill(sc):
            self.args_inner(node.args)
            self.visit(node.body)
        self.child(K_LAMBDA, 'lambda', node, fill)

    def visit_ClassDef(self, node):
        if getattr(node, 'type_params', None):
            raise Unsupported('type_params')
        self.bind(node.name)
        self.visit_list(node.bases)
        for kw in node.keywords:
            self.visit(kw.value)
        self.visit_list(node.decorator_list)

        def fill(sc):
            self.visit_list(node.body)
        self.child(K_CLASS, node.name, node, fill)

    def visit_TypeAlias(self, node):
        raise Unsupported('type alias')

    # -- comprehensions: merged into the current block
    def comp(self, node, elts):
        # list/set/dict comprehensions are inlined by CPython 3.12 (no block of their own in symtable);
        # a generator expression is a function block whose first iterable is evaluated outside
        gen = isinstance(node, ast.GeneratorExp)
        prev = self.blk
        try:
            for i, g in enumerate(node.generators):
                self.visit(g.iter)
                if i == 0 and gen:
                    self.blk = GenBlock(node, prev, self.cur)
                    prev.st_children.append(self.blk)
                self.comp_target(g.target)
                self.visit_list(g.ifs)
            self.visit_list(elts)
        finally:
            self.blk = prev

    def comp_target(self, t):
        for n in ast.walk(t):
            if isinstance(n, ast.Name) and isinstance(n.ctx, ast.Store):
                self.bind(n.id, comp=True)
                self.cur.comp_sites.add((n.lineno, n.col_offset))
                if isinstance(self.blk, GenBlock):
                    self.blk.targets.add(n.id)
        # attribute/subscript targets contain loads
        for n in ast.walk(t):
            if isinstance(n, ast.Name) and isinstance(n.ctx, ast.Load):
                self.visit(n)

    def visit_ListComp(self, node):
        self.comp(node, [node.elt])

    visit_SetComp = visit_ListComp
    visit_GeneratorExp = visit_ListComp

    def visit_DictComp(self, node):
        self.comp(node, [node.value, node.key])

    # -- bindings
    def visit_Name(self, node):
        if isinstance(node.ctx, ast.Load):
            self.cur.uses.add(node.id)
            self.cur.loads.append((node, self.blk))
            self.ident(node.id)
        else:
            self.bind(node.id)

    def visit_NamedExpr(self, node):
        # symtable.c: the target of := inside a comprehension binds in the enclosing non-comprehension
        # block; with merged comprehensions that is the current block
        self.visit(node.value)
        blk = self.blk
        self.blk = self.cur     # not the generator expression: the enclosing real block
        self.bind(node.target.id)
        self.blk = blk
        self.ident(node.target.id)

    def visit_AnnAssign(self, node):
        t = node.target
        if isinstance(t, ast.Name):
            if node.simple or node.value is not None:
                self.bind(t.id)
        else:
            self.visit(t)
        self.visit(node.annotation)
        if node.value is not None:
            self.visit(node.value)

    def visit_Import(self, node):
        for a in node.names:
            if a.name == '*':
                continue
            self.bind(a.asname or a.name.partition('.')[0])

    visit_ImportFrom = visit_Import

    def visit_Global(self, node):
        self.cur.globals.update(node.names)
        for n in node.names:
            self.ident(n)
            # symtable.c symtable_add_def_helper: a global declaration also enters the module's symbols
            self.root.idents.add(mangle(private_of(self.blk), n))

    def visit_Nonlocal(self, node):
        self.cur.nonlocals.update(node.names)
        for n in node.names:
            self.ident(n)

    def visit_ExceptHandler(self, node):
        if node.type is not None:
            self.visit(node.type)
        if node.name:
            self.bind(node.name)
        self.visit_list(node.body)

    def visit_MatchAs(self, node):
        if node.pattern is not None:
            self.visit(node.pattern)
        if node.name:
            self.bind(node.name)

    def visit_MatchStar(self, node):
        if node.name:
            self.bind(node.name)

    def visit_MatchMapping(self, node):
        self.visit_list(node.keys)
        self.visit_list(node.patterns)
        if node.rest:
            self.bind(node.rest)


def number(root):
    """Preorder ids and child-index paths."""
    n = [0]

    def rec(sc, path):
        sc.sid = n[0]
        n[0] += 1
        sc.path = path
        for i, c in enumerate(sc.children):
            rec(c, path + (i,))
    rec(root, ())


def all_scopes(root):
    out = []
    st = [root]
    while st:
        s = st.pop()
        out.append(s)
        st.extend(reversed(s.children))
    return out


def build_tree(src, filename='<c05>'):
    tree = ast.parse(src, filename)
    root = TreeBuilder().build(tree)
    return tree, root


def has_future_annotations(tree):
    for s in tree.body:
        if isinstance(s, ast.ImportFrom) and s.module == '__future__' and any(a.name == 'annotations' for a in s.names):
            return True
    return False


def comp_tainted(sc, x):
    """x is a comprehension iteration variable of sc or of one of its ancestors and CPython / supp
    cannot be compared through the scope tree there: the tree gives a block only its bindings other than
    comprehension variables (a comprehension variable is local to the comprehension, for CPython and -
    since fix F53 - for supp, which keeps it in the comprehension's flow and out of the scope's locals),
    but inside the comprehension, and behind it where supp's comp-join flow still offers the variable as
    a possible alternative, supp reports a binding whose Name.scope is the enclosing scope. Such reads
    are outside the compared domain (counted). Not tainted: the
    block is a function that also binds x otherwise and does not declare it (then x is its local for
    everybody)."""
    s = sc
    while s is not None:
        if x in s.comp_bound and (x not in s.plain_bound or s.kind == K_CLASS or x in s.globals or x in s.nonlocals):
            return True
        s = s.parent
    return False


def comp_scopes(sc, x):
    """the scopes on the chain of sc in which x is a comprehension iteration variable"""
    res = []
    s = sc
    while s is not None:
        if x in s.comp_bound:
            res.append(s)
        s = s.parent
    return res


# ------------------------------------------------------------------------------------------
# oracle: CPython's symtable
# ------------------------------------------------------------------------------------------

GLOB = 'G'   # owner "global" (module dict or builtins, decided at run time)
IMPLICIT = {'__class__', '__classdict__', '.0', '__conditional_annotations__'}


class Mismatch(Exception):
    pass


def attach_symtable(root, src, filename='<c05>', stats=None):
    """Match every block of the tree (generator expressions included) with its symtable block, fail
    closed: same children (kind, name, line) and the same identifier set in every block."""
    top = symtable.symtable(src, filename, 'exec')
    future_ann = has_future_annotations(root.node)

    def rec(b, tab):
        b.st = tab
        kids = list(tab.get_children())
        mine = list(b.st_children)
        if len(kids) != len(mine):
            raise Mismatch('children of %s@%d: symtable %r vs ast %r' % (
                b.name, b.lineno, [(k.get_name(), k.get_lineno()) for k in kids], [(c.name, c.lineno) for c in mine]))
        ids = set(tab.get_identifiers()) - IMPLICIT
        # a block also lists the free variables its children pass through it
        ids -= {n for n in ids - b.idents if tab.lookup(n).is_free()}
        if ids != b.idents - IMPLICIT:
            # annotations are not evaluated under `from __future__ import annotations`: their names are
            # in a block of their own that symtable does not report
            if not (future_ann and ids <= b.idents):
                raise Mismatch('identifiers of %s@%d: only symtable %r, only ast %r' % (
                    b.name, b.lineno, sorted(ids - b.idents), sorted(b.idents - ids)))
        groups = {}
        for k in kids:
            groups.setdefault((str(k.get_type()), k.get_name(), k.get_lineno()), []).append(k)
        for c in mine:
            key = ('class' if c.kind == K_CLASS else 'function', c.name, c.lineno)
            lst = groups.get(key)
            if not lst:
                raise Mismatch('no symtable block for %r under %s@%d' % (key, b.name, b.lineno))
            k = lst[0]
            if len(lst) > 1:
                # several blocks with one (kind, name, line): two lambdas / generator expressions on a line
                best = [k2 for k2 in lst if set(k2.get_identifiers()) - IMPLICIT == c.idents - IMPLICIT]
                if best:
                    k = best[0]
            lst.remove(k)
            rec(c, k)
    rec(root, top)
    return top


def st_owner(blk, x):
    """Owner of identifier x of CPython block blk according to symtable: GLOB or the owning block
    (SNode or GenBlock). None when the block has no such symbol."""
    x = mangle(private_of(blk), x)
    try:
        sym = blk.st.lookup(x)
    except KeyError:
        return None
    if blk.kind == K_MODULE:
        return GLOB
    # is_local()/is_free() first: Symbol.is_global() of the symtable module is wrong in any block that is
    # *named* "top" (it takes it for the module block)
    if sym.is_local():
        return blk
    if sym.is_free():
        a = blk.st_parent
        while a is not None:
            if a.kind in (K_FUNC, K_LAMBDA, 'genexpr'):
                try:
                    s2 = a.st.lookup(x)
                except KeyError:
                    s2 = None
                if s2 is not None:
                    if s2.is_local():
                        return a
                    if not s2.is_free():
                        raise Mismatch('free %s of %s@%d resolves through a global declaration' % (x, blk.name, blk.lineno))
            if a.kind == K_MODULE and x in a.comp_bound:
                return GLOB     # the cell of a comprehension inlined at module level
            a = a.st_parent
        raise Mismatch('free variable %s of %s@%d has no owner' % (x, blk.name, blk.lineno))
    if sym.is_global():
        return GLOB
    raise Mismatch('symbol %s of %s@%d has no scope flag' % (x, blk.name, blk.lineno))


def st_owner_merged(blk, x):
    """symtable's owner under the property's convention: a generator expression's own targets are
    bindings of the scope the expression is written in."""
    o = st_owner(blk, x)
    if isinstance(o, GenBlock):
        o = o.merged
    if isinstance(o, SNode) and o.kind == K_MODULE:
        return GLOB
    return o


# ------------------------------------------------------------------------------------------
# implementation: supp
# ------------------------------------------------------------------------------------------

BUILTIN = 'B'
MODULE = 'M'


class SuppRun(object):
    """extract() of the real code on one source + mapping of supp scopes to tree nodes."""

    def __init__(self, src, tree_root, filename='c05.py'):
        from supp.util import Source
        from supp.scope import SourceScope
        from supp.nast import extract
        self.source = Source(src, filename)
        self.tree = self.source.tree
        self.top = SourceScope(self.source)
        extract(self.tree, self.top.flow)
        gn = getattr(self.top, '_global_names', None)
        if gn is None:
            raise RuntimeError('SourceScope._global_names is gone: cannot tell global-routed bindings (fail closed)')
        self.global_ids = {id(v) for v in gn.values()}
        self.root = None

    def bind_tree(self, root):
        """root: SNode tree built from self.tree (same ast objects)."""
        self.root = root
        self.by_node = {}
        self.by_classkey = {}
        self.comp_sites = {}
        for sc in all_scopes(root):
            for site in sc.comp_sites:
                self.comp_sites[site] = sc
        for sc in all_scopes(root):
            if sc.kind == K_MODULE:
                continue
            self.by_node[id(sc.node)] = sc
            if sc.kind == K_CLASS:
                b0 = sc.node.body[0]
                self.by_classkey[(sc.node.name, (b0.lineno, b0.col_offset))] = sc

    def scope_of(self, s):
        from supp.scope import SourceScope, FuncScope, ClassScope
        if s is self.top or isinstance(s, SourceScope):
            return self.root
        if isinstance(s, FuncScope):
            r = self.by_node.get(id(getattr(s, 'node', None)))
        elif isinstance(s, ClassScope):
            r = self.by_classkey.get((s.name, tuple(s.location)))
        else:
            r = None
        if r is None:
            raise RuntimeError('cannot map supp scope %r to an ast scope (fail closed)' % (s,))
        return r

    def owners_at(self, node):
        """Owners (SNode / MODULE / BUILTIN) of the alternatives supp reports for the load `node`;
        second result: the block supp evaluates the load in."""
        from supp.name import MultiName, UndefinedName, RuntimeName
        flow = node.flow
        v = flow.names_at((node.lineno, node.col_offset)).get(node.id)
        if v is None:
            alts = []
        elif isinstance(v, MultiName):
            alts = list(v.alt_names)
        else:
            alts = [v]
        res = set()
        for a in alts:
            if type(a) is UndefinedName or isinstance(a, UndefinedName):
                continue
            site = getattr(a, 'declared_at', None)
            site = tuple(site) if isinstance(site, (tuple, list)) else None
            if isinstance(a, RuntimeName):
                res.add(BUILTIN)
            elif site in self.comp_sites and getattr(a, 'name', None) == node.id and not hasattr(a, 'module'):
                # a comprehension iteration variable belongs to the scope its comprehension is written in,
                # whichever table supp keeps it in (its `global` / `nonlocal` declarations do not apply to it)
                sc = self.comp_sites[site]
                res.add(MODULE if sc is self.root else sc)
            elif id(a) in self.global_ids:
                res.add(MODULE)
            else:
                sc = self.scope_of(a.scope)
                res.add(MODULE if sc is self.root else sc)
        return res, self.scope_of(flow.scope)


def owner_str(o):
    if o is None:
        return None
    if isinstance(o, str):
        return o
    return '%s:%s@%d' % (o.kind, o.name, o.lineno)


# ------------------------------------------------------------------------------------------
# direct evaluator: supp vs symtable on one source, no model in between
# ------------------------------------------------------------------------------------------

def excluded(sc, blk, x, for_reference=False):
    """Why the pair (block, name) is outside the compared domain (None = compared).
    sc: merged scope, blk: CPython's block (sc itself or a generator expression merged into it)."""
    if x in IMPLICIT:
        return 'implicit'
    if sc.kind == K_CLASS:
        if isinstance(blk, GenBlock):
            # a generator expression in a class body is a function scope of its own: the class's bindings
            # and declarations do not apply inside it
            if x in sc.bound or x in sc.globals or x in sc.nonlocals:
                return 'class_body'
        elif x in sc.bound and not for_reference:
            # the property: reads made directly in a class body only for names the class does not bind
            return 'class_body'
    if comp_tainted(sc, x):
        return 'comp_tainted'
    return None


class Analysed(object):
    """One source analysed by the three parties: tree (ast), symtable (oracle), supp (implementation)."""

    def __init__(self, src, filename='c05.py'):
        self.src = src
        self.filename = filename
        self.run = SuppRun(src, None, filename)
        self.root = TreeBuilder().build(self.run.tree)
        self.run.bind_tree(self.root)
        attach_symtable(self.root, src, filename)
        self.scopes = all_scopes(self.root)
        self.convention_bad = []

    def reads(self, stats):
        """yield (sc, blk, node, expected owner by symtable, owners by supp) for every compared load"""
        def st(k, n=1):
            stats[k] = stats.get(k, 0) + n
        for sc in self.scopes:
            for node, blk in sc.loads:
                x = node.id
                if not hasattr(node, 'flow'):
                    st('reads_not_visited_by_supp')
                    continue
                why = excluded(sc, blk, x)
                if why:
                    st('reads_excluded_' + why)
                    continue
                exp = st_owner_merged(blk, x)
                if exp is None:
                    st('reads_without_symbol')   # annotations under `from __future__ import annotations`
                    continue
                got, where = self.run.owners_at(node)
                if where is not sc:
                    st('reads_evaluated_by_supp_in_another_scope')
                st('reads')
                if got:
                    st('reads_resolved')
                yield sc, blk, node, exp, got


def owner_ok(got, exp):
    return all((o in (MODULE, BUILTIN)) if exp == GLOB else (o is exp) for o in got)


def direct_eval(src, filename='c05.py', stats=None, analysed=None):
    """supp vs symtable on one source, no model in between.
    Returns the list of failures [(name, (line, col), supp owners, expected owner, where)]."""
    stats = stats if stats is not None else {}
    an = analysed or Analysed(src, filename)
    bad = []
    for sc, blk, node, exp, got in an.reads(stats):
        if not owner_ok(got, exp):
            bad.append((node.id, (node.lineno, node.col_offset), sorted(owner_str(o) for o in got), owner_str(exp),
                        'read in %s' % owner_str(sc)))
    return bad + an.convention_bad


# ------------------------------------------------------------------------------------------
# generator: deep nestings of def / class / lambda with shadowing, global and nonlocal
# ------------------------------------------------------------------------------------------

POOL = ['a', 'b', 'c', 'x', 'y', 'len', 'print']
MODS = ['os', 'sys', 're', 'json', 'math']


class Gen(object):
    """Random module. Every scope is planned first (what it binds, which names it declares global /
    nonlocal) so that declarations stay legal: nonlocal only for names present in the `bound` set
    CPython passes down (tracked the way analyze_block does), never for parameters, never together
    with global; declarations are the first statements of the body. Binding forms are those supp
    knows (assignment, annotated assignment with value, walrus, def, class, import, for, with, except
    handler, parameters, comprehension targets). The result is validated by symtable before use."""

    def __init__(self, rng, max_depth=5):
        self.rng = rng
        self.max_depth = max_depth
        self.lines = []
        self.budget = 60
        self.comp_depth = 0     # comprehension nesting of the expression being generated
        self.declared = [set()]  # names declared global / nonlocal by the scope being generated (stack)

    def special_name(self):
        """a comprehension variable / walrus target: often a name the current scope declares global or
        nonlocal (the declarations do not apply to comprehension variables, they do to walrus targets)"""
        d = self.declared[-1]
        if d and self.rng.random() < 0.5:
            return self.rng.choice(sorted(d))
        return self.name()

    def name(self):
        return self.rng.choice(POOL)

    def expr(self, depth, bound, in_class, allow_scope=True):
        r = self.rng.random()
        if r < 0.45 or self.budget <= 0:
            return self.name()
        if r < 0.6:
            return '%s(%s)' % (self.name(), self.name())
        if r < 0.7:
            return '%s + %s' % (self.name(), self.name())
        if r < 0.8 and allow_scope and depth < self.max_depth:
            # lambda: a function scope inside an expression
            self.budget -= 1
            ptext, ps = self.params()
            cd, self.comp_depth = self.comp_depth, 0
            self.declared.append(set())
            body = self.expr(depth + 1, bound | set(ps), False)
            if self.rng.random() < 0.35:
                # the lambda binds a name itself (walrus, also inside a comprehension) and reads it before
                # and after: a local of the lambda, never satisfied from outside
                w = self.rng.choice([n_ for n_ in POOL if n_ not in ps] or POOL)
                if w not in ps:
                    bind = self.rng.choice(['(%s := %s)' % (w, self.name()),
                                            '[(%s := %s) for %s in %s]' % (w, self.name(), self.name(), self.name())])
                    items = [w, bind, w, body]
                    if self.rng.random() < 0.5:
                        items = [bind, w, body]
                    body = '(%s)' % ', '.join(items)
            self.declared.pop()
            self.comp_depth = cd
            return '(lambda %s: %s)' % (ptext, body)
        if r < 0.9 and allow_scope:
            # comprehension (merged into the enclosing scope by supp and by CPython 3.12)
            t = self.target(self.special_name())
            it = self.name()
            self.comp_depth += 1
            elt = self.expr(depth, bound, in_class, allow_scope=(depth < self.max_depth and not in_class))
            self.comp_depth -= 1
            cond = (' if %s' % self.name()) if self.rng.random() < 0.3 else ''
            form = self.rng.choice(['[%s for %s in %s%s]', '{%s for %s in %s%s}', 'list(%s for %s in %s%s)',
                                    '{%s: 0 for %s in %s%s}'])
            return form % (elt, t, it, cond)
        if r < 0.95 and not in_class:
            return '(%s := %s)' % (self.special_name(), self.name())
        return '%s.attr' % self.name()

    def target(self, x, allow_star=True):
        """a binding target for x: the plain name, or a tuple / list / starred target that mixes it with
        subscript and attribute targets (which bind nothing) and other plain names, before and after"""
        rng = self.rng
        if rng.random() < 0.6:
            return x
        parts = [x]
        for _ in range(rng.randint(1, 2)):
            r = rng.random()
            if r < 0.4:
                p_ = '%s[0]' % self.name()
            elif r < 0.7:
                p_ = '%s.attr' % self.name()
            elif r < 0.85:
                p_ = self.special_name()
            else:
                p_ = '(%s, %s[%s])' % (self.name(), self.name(), self.name())
            parts.insert(rng.randint(0, len(parts)), p_)
        if allow_star and rng.random() < 0.15:
            i = rng.randrange(len(parts))
            if not parts[i].startswith('('):
                parts[i] = '*' + parts[i]
        form = rng.choice(['%s', '(%s)', '[%s]'])
        return form % ', '.join(parts)

    def params(self):
        """A parameter list with every kind of parameter, for defs and lambdas alike: positional (with and
        without defaults), positional-only (`/`), *args or a bare `*`, keyword-only with and without defaults,
        **kwargs. Names come from the pool (distinct within the list). Returns (text, names)."""
        rng = self.rng
        names = rng.sample(POOL, rng.randint(0, min(5, len(POOL))))
        rng.shuffle(names)
        npos = rng.randint(0, min(2, len(names)))
        pos, rest = names[:npos], names[npos:]
        parts = []
        seen_default = False
        for p_ in pos:
            if seen_default or rng.random() < 0.3:
                parts.append('%s=%s' % (p_, self.name()))
                seen_default = True
            else:
                parts.append(p_)
        if parts and rng.random() < 0.25:
            parts.insert(rng.randint(1, len(parts)), '/')
        used = list(pos)
        if rest and rng.random() < 0.5:
            star = rest.pop()
            if rng.random() < 0.5:
                parts.append('*' + star)
                used.append(star)
                nkw = rng.randint(0, min(2, len(rest)))
            else:
                rest.append(star)
                nkw = rng.randint(1, min(2, len(rest)))
                parts.append('*')
            for _ in range(nkw):
                k = rest.pop()
                used.append(k)
                parts.append('%s=%s' % (k, self.name()) if rng.random() < 0.5 else k)
        if rest and rng.random() < 0.25:
            k = rest.pop()
            used.append(k)
            parts.append('**' + k)
        return ', '.join(parts), used

    def emit(self, ind, text):
        self.lines.append('    ' * ind + text)

    def plan(self, kind, bound, params):
        """globals / nonlocals declared by a new scope. `bound`: names CPython's bound set holds."""
        g, n = set(), set()
        if self.rng.random() < 0.35:
            for x in self.rng.sample(POOL, self.rng.randint(1, 2)):
                if x not in params:
                    g.add(x)
        if self.rng.random() < 0.45 and bound:
            cands = sorted(bound - g - set(params))
            if cands:
                for x in self.rng.sample(cands, min(len(cands), self.rng.randint(1, 2))):
                    n.add(x)
        return g, n

    def body(self, ind, depth, kind, bound, params, declare=True):
        """Statements of one scope. Returns nothing; `bound` is what enclosing functions bind."""
        rng = self.rng
        in_class = kind == 'class'
        g, n = self.plan(kind, bound, params) if declare and kind != 'module' else (set(), set())
        if kind == 'module' and rng.random() < 0.1:
            g = {self.name()}
        # what this scope will bind is decided by the statements below; to pass a sound `bound` set to
        # nested scopes the scope first draws the names it is going to bind
        will_bind = set(rng.sample(POOL, rng.randint(0, 4)))
        mine = (will_bind | set(params)) - g - n
        if kind in ('function',):
            inner_bound = (bound - g) | mine
        elif kind == 'class':
            inner_bound = set(bound)
        else:
            inner_bound = set()
        if g:
            self.emit(ind, 'global ' + ', '.join(sorted(g)))
        if n:
            self.emit(ind, 'nonlocal ' + ', '.join(sorted(n)))
        self.declared.append(set(g) | set(n))
        try:
            self.body_statements(ind, depth, kind, inner_bound, will_bind, g, n, in_class)
        finally:
            self.declared.pop()

    def body_statements(self, ind, depth, kind, inner_bound, will_bind, g, n, in_class):
        rng = self.rng
        bindable = sorted(will_bind | g | n) or [self.name()]
        nst = rng.randint(1, 5)
        for _ in range(nst):
            if self.budget <= 0:
                break
            self.budget -= 1
            self.stmt(ind, depth, kind, inner_bound, bindable, in_class)
        if kind == 'function' and rng.random() < 0.5:
            self.emit(ind, 'return ' + self.expr(depth, inner_bound, False))
        # every planned binding must really happen, else nonlocal declarations below may be illegal
        for x in sorted(will_bind - g - n):
            self.emit(ind, '%s = 0' % x)
        if not self.lines or not self.lines[-1].strip():
            self.emit(ind, 'pass')

    def stmt(self, ind, depth, kind, bound, bindable, in_class):
        rng = self.rng
        r = rng.random()
        x = rng.choice(bindable)
        e = lambda: self.expr(depth, bound, in_class)
        if r < 0.2:
            self.emit(ind, '%s = %s' % (self.target(x), e()))
        elif r < 0.3:
            self.emit(ind, '%s(%s)' % (self.name(), e()))
        elif r < 0.5 and depth < self.max_depth:
            # def
            ptext, ps = self.params()
            if rng.random() < 0.2:
                self.emit(ind, '@' + self.name())
            self.emit(ind, '%sdef %s(%s):' % ('async ' if rng.random() < 0.1 else '', x, ptext))
            self.body(ind + 1, depth + 1, 'function', bound, ps)
        elif r < 0.62 and depth < self.max_depth:
            base = '(%s)' % self.name() if rng.random() < 0.3 else ''
            self.emit(ind, 'class %s%s:' % (x, base))
            self.body(ind + 1, depth + 1, 'class', bound, [])
        elif r < 0.68:
            m = rng.choice(MODS)
            self.emit(ind, rng.choice(['import %s as %s' % (m, x), 'from %s import path as %s' % (m, x)]))
        elif r < 0.76:
            self.emit(ind, 'for %s in %s:' % (self.target(x), e()))
            self.stmt(ind + 1, depth, kind, bound, bindable, in_class)
        elif r < 0.82:
            self.emit(ind, 'if %s:' % e())
            self.stmt(ind + 1, depth, kind, bound, bindable, in_class)
            if rng.random() < 0.5:
                self.emit(ind, 'else:')
                self.stmt(ind + 1, depth, kind, bound, bindable, in_class)
        elif r < 0.87:
            t = self.target(x, allow_star=False)
            if rng.random() < 0.3:
                self.emit(ind, 'with %s as %s, %s as %s:' % (e(), t, e(), self.target(rng.choice(bindable), allow_star=False)))
            else:
                self.emit(ind, 'with %s as %s:' % (e(), t))
            self.stmt(ind + 1, depth, kind, bound, bindable, in_class)
        elif r < 0.92:
            self.emit(ind, 'try:')
            self.stmt(ind + 1, depth, kind, bound, bindable, in_class)
            self.emit(ind, 'except %s as %s:' % (self.name(), x))
            self.stmt(ind + 1, depth, kind, bound, bindable, in_class)
        elif r < 0.96:
            self.emit(ind, 'while %s:' % e())
            self.stmt(ind + 1, depth, kind, bound, bindable, in_class)
        else:
            self.emit(ind, '%s: int = %s' % (x, e())) if x not in () else None

    def module(self):
        self.lines = []
        self.budget = self.rng.randint(15, 70)
        self.body(0, 0, 'module', set(), [])
        return '\n'.join(self.lines) + '\n'


def gen_modules(ctx, n, stats):
    out = []
    tries = 0
    while len(out) < n and tries < n * 6:
        tries += 1
        src = Gen(ctx.rng, max_depth=ctx.rng.randint(2, 5)).module()
        try:
            symtable.symtable(src, 'g.py', 'exec')
        except SyntaxError as e:
            stats['generated_rejected_by_cpython'] = stats.get('generated_rejected_by_cpython', 0) + 1
            continue
        out.append(src)
    return out


# ------------------------------------------------------------------------------------------
# Gallina printing and the correspondences (R) and (I)
# ------------------------------------------------------------------------------------------

PRELUDE = '''
Definition names_upto (n : nat) : list N := map N.of_nat (seq 1 n).
Definition F := Frame.
Definition Nd := Node.
Definition case_t := (tree * list N * nat * list (list nat * N * owner) * list (list nat * N * list owner))%type.
(* (R): the reference model's owner = the owner derived from symtable *)
Definition chk_R (t : tree) (q : list nat * N * owner) : bool :=
  let '(p, x, o) := q in
  match py_owner_at t p x with Some o' => owner_eqb o o' | None => false end.
(* (I): the read is in the domain of C05_owner_agrees, every owner observed on the real code is one the
   implementation model predicts, and (C05_owner_exists) supp reports some binding exactly when the model
   predicts one - except for names local to the reading scope, where it depends on the flow position *)
Definition isnil {A} (l : list A) : bool := match l with [] => true | _ => false end.
Definition flow_sensitive (fs : list frame) (x : N) : bool :=
  match rev fs with a :: _ => is_local cfg_fixed a x | [] => false end.
(* result: (agrees, existence class: 0 both non-empty, 1 both empty, 2 flow-sensitive (not compared), 3 mismatch) *)
Definition eval_I (e : env) (t : tree) (q : list nat * N * list owner) : bool * nat :=
  let '(p, x, obs) := q in
  match chain t p with
  | Some fs =>
      let pred := supp_owners cfg_fixed e fs x in
      let cls := if flow_sensitive fs x then 2
                 else if Bool.eqb (isnil obs) (isnil pred) then (if isnil obs then 1 else 0) else 3 in
      (shape_ok fs && nonlocal_ok fs x && in_domain fs x &&
       forallb (fun o => existsb (owner_eqb o) pred) obs && negb (Nat.eqb cls 3), cls)
  | None => (false, 3)
  end.
Definition chk_I (e : env) (t : tree) (q : list nat * N * list owner) : bool := fst (eval_I e t q).
Definition env_fast (bi : list N) (t : tree) (n : nat) : env :=
  let gl := filter (tree_grouted t) (names_upto n) in Env (fun x => mem x bi) (fun x => mem x gl).
Definition eval_case (c : case_t) : bool * list nat :=
  let '(t, bi, n, rq, iq) := c in
  let e := env_fast bi t n in
  let ri := map (eval_I e t) iq in
  (forallb (chk_R t) rq && forallb fst ri, map snd ri).
Definition bad_queries (c : case_t) : list nat * list nat :=
  let '(t, bi, n, rq, iq) := c in
  let e := env_fast bi t n in (bad_idx (chk_R t) rq, bad_idx (chk_I e t) iq).
Definition count_class (k : nat) (l : list nat) : N := N.of_nat (List.length (filter (Nat.eqb k) l)).
Definition summary (cs : list case_t) : list nat * (N * N * N * N) :=
  let res := map eval_case cs in
  let cl := flat_map snd res in
  (bad_idx fst res, (count_class 0 cl, count_class 1 cl, count_class 2 cl, count_class 3 cl)).
'''

KIND_TERM = {K_MODULE: 'KModule', K_FUNC: 'KFunction', K_LAMBDA: 'KLambda', K_CLASS: 'KClass'}


def nlist(ns):
    return '[' + ';'.join(str(n) for n in ns) + ']%N'


def tree_term(sc, intern):
    def ids(names):
        return nlist(sorted(intern(n) for n in names))
    kids = '[' + ';'.join(tree_term(c, intern) for c in sc.children) + ']'
    # fbound: the bindings of the block other than comprehension iteration variables
    return '(Nd (F %s %s %s %s) %s)' % (KIND_TERM[sc.kind], ids(sc.plain_bound), ids(sc.globals), ids(sc.nonlocals), kids)


def path_term(path):
    return '[' + ';'.join(str(i) for i in path) + ']%nat'


def owner_term(o, reader=None):
    if reader is not None and isinstance(o, SNode) and tuple(reader.path[:len(o.path)]) != tuple(o.path):
        return '(OScope 4999)'      # a scope that does not enclose the reading scope: never predicted
    if o == GLOB:
        return 'OGlobal'
    if o == MODULE:
        return 'OModule'
    if o == BUILTIN:
        return 'OBuiltin'
    return '(OScope %d)' % len(o.path)


class FileCase(object):
    """Queries of one source for (R) and (I), and the Gallina case."""

    def __init__(self, an, label, stats, builtin_names):
        self.an = an
        self.label = label
        self.names = {}
        self.rq = []      # (merged scope, name, expected owner)
        self.iq = []      # (scope, name, frozenset of observed owners)
        self.direct_bad = []

        def st(k, n=1):
            stats[k] = stats.get(k, 0) + n
        # (R): every identifier of every CPython block
        seen = set()
        blocks = []
        stack = [an.root]
        while stack:
            b = stack.pop()
            blocks.append(b)
            stack.extend(b.st_children)
        for b in blocks:
            sc = merged_of(b)
            for x in sorted(b.names):
                why = excluded(sc, b, x, for_reference=True)
                if why:
                    st('ref_excluded_' + why)
                    continue
                exp = st_owner_merged(b, x)
                if exp is None:
                    st('ref_without_symbol')
                    continue
                key = (sc.sid, x, exp if isinstance(exp, str) else exp.sid)
                if key in seen:
                    continue
                seen.add(key)
                self.rq.append((sc, x, exp))
        # (I) and the direct evaluation
        seen = set()
        for sc, blk, node, exp, got in an.reads(stats):
            if not owner_ok(got, exp):
                self.direct_bad.append((node.id, (node.lineno, node.col_offset), sorted(owner_str(o) for o in got),
                                        owner_str(exp), 'read in %s' % owner_str(sc)))
            key = (sc.sid, node.id, frozenset(o if isinstance(o, str) else o.sid for o in got))
            if key in seen:
                continue
            seen.add(key)
            self.iq.append((sc, node.id, got))
        self.direct_bad.extend(an.convention_bad)
        self.builtins = sorted(n for n in self.all_names() if n in builtin_names)

    def all_names(self):
        s = set()
        for sc in self.an.scopes:
            s |= sc.bound | sc.uses | sc.globals | sc.nonlocals
        return s

    def term(self):
        names = sorted(self.all_names())
        table = {n: i + 1 for i, n in enumerate(names)}
        intern = table.__getitem__
        rq = ';'.join('(%s,%d%%N,%s)' % (path_term(sc.path), intern(x), owner_term(o)) for sc, x, o in self.rq)
        iq = ';'.join('(%s,%d%%N,[%s])' % (path_term(sc.path), intern(x), ';'.join(sorted(owner_term(o, sc) for o in got)))
                      for sc, x, got in self.iq)
        return '(%s, %s, %d%%nat, [%s], [%s])' % (tree_term(self.an.root, intern), nlist(intern(b) for b in self.builtins),
                                                  len(names), rq, iq)


def builtin_name_set():
    from supp import scope as sc
    return set(sc.builtin_scope.names)


def coq_check(ctx, cases):
    """Evaluate check_case on every FileCase inside Coq. Returns {index: (bad R queries, bad I queries)}."""
    terms = [c.term() for c in cases]
    jobs, groups = [], []
    cur, size = [], 0
    for i, t in enumerate(terms):
        if cur and (size + len(t) > 400000 or len(cur) >= 60):
            groups.append(cur)
            cur, size = [], 0
        cur.append(i)
        size += len(t)
    if cur:
        groups.append(cur)
    for g in groups:
        pre = PRELUDE + '\nDefinition cases__ : list case_t := [\n%s].\n' % ';\n'.join(terms[i] for i in g)
        jobs.append((['Model.Scopes'], pre, ['summary cases__']))
    res = ctx.coq_eval_many(jobs, timeout=900)
    failing = []
    ex = [0, 0, 0, 0]
    for g, r in zip(groups, res):
        r = r[0]
        failing.extend(g[i] for i in r[0])
        flat = []

        def walk(v):
            if isinstance(v, (tuple, list)):
                for w in v:
                    walk(w)
            else:
                flat.append(int(v))
        walk(r[1])
        if len(flat) != 4:
            raise RuntimeError('exist_counts: unexpected value %r' % (r[1],))
        for k, v in enumerate(flat):
            ex[k] += v
    ctx.coverage['existence'] = {
        'rule': 'per distinct (scope, name, observation) read: supp reports some binding exactly when supp_owners '
                '(Coq) is non-empty (C05_owner_exists); names local to the reading scope are flow-sensitive and not compared',
        'both_nonempty': ex[0], 'both_empty': ex[1], 'flow_sensitive_not_compared': ex[2], 'mismatch': ex[3]}
    out = {}
    if failing:
        jobs = [(['Model.Scopes'], PRELUDE, ['bad_queries %s' % terms[i]]) for i in failing[:40]]
        for i, r in zip(failing[:40], ctx.coq_eval_many(jobs, timeout=900)):
            out[i] = (list(r[0][0]), list(r[0][1]))
        for i in failing[40:]:
            out[i] = ([], [])
    return out


def load_corpus():
    d = os.path.join(VERIF, 'corpus', 'C05')
    res = []
    if os.path.isdir(d):
        for f in sorted(os.listdir(d)):
            if f.endswith('.json') and not f.startswith('known_'):
                obj = json.load(open(os.path.join(d, f)))
                res.append((f, obj['source']))
    return res


FINDING_ID = 'K4-C05'


def registered(ctx, fid):
    return any(f.get('id') == fid for f in ctx.open_findings())


def check_known(ctx):
    """Open finding K4-C05 (match captures are not bindings for supp): re-run exactly the recorded input;
    KNOWN-FINDING is printed only if that input still fails in the recorded way."""
    p = os.path.join(VERIF, 'corpus', 'C05', 'known_%s.json' % FINDING_ID)
    if not os.path.exists(p):
        return
    obj = json.load(open(p))
    try:
        bad = direct_eval(obj['source'], 'known.py')
    except Exception as e:      # the finding is about ownership; anything else is a different failure
        ctx.violation('known finding input %s: %s: %s' % (FINDING_ID, type(e).__name__, e),
                      {'kind': 'direct', 'source': obj['source']}, found_input=True)
        return
    want = (obj['read'][0], tuple(obj['read'][1]))
    mine = [b for b in bad if (b[0], tuple(b[1])) == want]
    other = [b for b in bad if (b[0], tuple(b[1])) != want]
    ctx.coverage['known_finding_K4_still_fails'] = bool(mine)
    if mine and not registered(ctx, FINDING_ID):
        ctx.violation('%s (not an open entry of known_findings.json): %r' % (FINDING_ID, mine[0]),
                      {'kind': 'direct', 'source': obj['source'], 'failures': mine})
    elif mine:
        ctx.known_finding(FINDING_ID, 'a name bound only by a match capture pattern is not a function local for supp: '
                          'read %r at %r resolves to %r, CPython assigns it to %r' % (mine[0][0], mine[0][1], mine[0][2], mine[0][3]))
    if other:
        ctx.violation('known finding input: other reads fail too: %r' % (other[:3],),
                      {'kind': 'direct', 'source': obj['source'], 'failures': other[:10]})
    check_known_k5(ctx)


def check_known_k5(ctx):
    """Open finding K5-C05 (existence part): the binding of a walrus under two comprehension levels is
    lost. Re-run exactly the recorded input: KNOWN-FINDING only if supp still reports no binding for the
    recorded read while CPython resolves it to a scope that binds the name."""
    p = os.path.join(VERIF, 'corpus', 'C05', 'known_K5-C05.json')
    if not os.path.exists(p):
        return
    obj = json.load(open(p))
    try:
        an = Analysed(obj['source'], 'known.py')
        hit = None
        for sc, blk, node, exp, got in an.reads({}):
            if (node.id, (node.lineno, node.col_offset)) == (obj['read'][0], tuple(obj['read'][1])):
                hit = (sc, got, exp)
    except Exception as e:
        ctx.violation('known finding input K5-C05: %s: %s' % (type(e).__name__, e),
                      {'kind': 'direct', 'source': obj['source']}, found_input=True)
        return
    still = hit is not None and not hit[1] and obj['read'][0] in hit[0].bound
    ctx.coverage['known_finding_K5_still_fails'] = bool(still)
    if still and not registered(ctx, 'K5-C05'):
        ctx.violation('K5-C05 (fixed as F49) fails again: the binding of a walrus under two comprehension levels reaches no flow',
                      {'kind': 'direct', 'source': obj['source']})
    elif still:
        ctx.known_finding('K5-C05', 'the binding of a walrus under two comprehension levels reaches no flow: read %r at %r '
                          'has no binding although its scope binds the name' % (obj['read'][0], tuple(obj['read'][1])))
    check_known_k6(ctx)


def check_known_k6(ctx):
    """Open finding K6-C05: behind a comprehension its variable is still offered as an alternative owned by
    the enclosing function. Re-run exactly the recorded input (the read is outside the compared domain, so it
    is evaluated here by hand: supp's owners vs symtable's owner)."""
    p = os.path.join(VERIF, 'corpus', 'C05', 'known_K6-C05.json')
    if not os.path.exists(p):
        return
    obj = json.load(open(p))
    try:
        an = Analysed(obj['source'], 'known.py')
        hit = None
        for sc in an.scopes:
            for node, blk in sc.loads:
                if (node.id, (node.lineno, node.col_offset)) == (obj['read'][0], tuple(obj['read'][1])):
                    hit = (sc, an.run.owners_at(node)[0], st_owner_merged(blk, node.id))
    except Exception as e:
        ctx.violation('known finding input K6-C05: %s: %s' % (type(e).__name__, e),
                      {'kind': 'direct', 'source': obj['source']}, found_input=True)
        return
    still = hit is not None and hit[2] == GLOB and any(o is hit[0] for o in hit[1])
    ctx.coverage['known_finding_K6_still_fails'] = bool(still)
    if still and not registered(ctx, 'K6-C05'):
        ctx.extension_failure('K6-C05 (not an open entry of known_findings.json): comprehension variable offered behind '
                              'its comprehension', {'kind': 'direct', 'source': obj['source']})
    elif still:
        ctx.known_finding('K6-C05', 'behind a comprehension its variable is still offered as an alternative owned by the '
                          'enclosing function: read %r at %r resolves to %r, CPython: global' % (
                              obj['read'][0], tuple(obj['read'][1]), sorted(owner_str(o) for o in hit[1])))



def run(ctx):
    cov = ctx.coverage
    proof_ok = ctx.coq_props()
    cov['rule'] = (
        'sources: corpus/C05, stdlib + repo modules that parse (common.stdlib_files), generated modules (nesting of '
        'def/class/lambda/comprehensions up to depth 5, names from a pool of 7 incl. two builtins, random legal global / '
        'nonlocal declarations, validated by symtable). For each source: (R) py_owner (Coq) = owner derived from '
        'symtable flags for every (block, identifier); (I) every owner of every alternative of Flow.names_at at every '
        'ast.Name load is among supp_owners (Coq, repaired rule) and the read is in the domain of C05_owner_agrees; '
        'direct: supp owner vs symtable owner with no model. An evaluation = one distinct (source, scope, name, '
        'observation) query; non-trivial = the scope is not the module and, for (I), supp reported at least one '
        'binding')
    stats = cov.setdefault('stats', {})
    builtins = builtin_name_set()
    check_known(ctx)

    sources = []
    for f, src in load_corpus():
        sources.append(('corpus:' + f, src, None))
    gen = gen_modules(ctx, ctx.pick(220, 3000), stats)
    for i, src in enumerate(gen):
        sources.append(('gen:%d' % i, src, None))
    files = stdlib_files(limit=ctx.pick(140, None), rng=ctx.rng, include_tests=ctx.thorough())
    for fn in files:
        try:
            src = open(fn, encoding='utf8').read()
            ast.parse(src)
        except (SyntaxError, UnicodeDecodeError, ValueError, RecursionError):
            continue
        sources.append((fn, src, fn))

    cases = []
    skipped = {}
    import warnings
    warnings.simplefilter('ignore')
    for label, src, fn in sources:
        kind = label.split(':')[0] if fn is None else 'file'
        try:
            an = Analysed(src, fn or 'c05.py')
            fc = FileCase(an, label, stats, builtins)
        except Unsupported as e:
            skipped.setdefault('unsupported syntax (type parameters / type aliases)', []).append(label)
            continue
        except Mismatch as e:
            skipped.setdefault('symtable blocks not matched', []).append('%s: %s' % (label, e))
            continue
        except SyntaxError as e:
            skipped.setdefault('rejected by symtable', []).append(label)
            continue
        except RecursionError:
            skipped.setdefault('recursion limit', []).append(label)
            continue
        except (AttributeError, TypeError, KeyError, IndexError) as e:
            # supp itself fails on the file (C08's subject, e.g. `for self.x in y`): nothing to compare
            skipped.setdefault('supp raised %s' % type(e).__name__, []).append(label)
            continue
        fc.src_kind = kind
        fc.src = src if fn is None else None
        fc.fn = fn
        cases.append(fc)
        ctx.histogram('source_kind', kind)
        for sc in an.scopes:
            ctx.histogram('scope_kind', sc.kind)
            ctx.histogram('scope_depth', len(sc.path))
        h = hash(src)
        for sc, x, exp in fc.rq:
            ctx.count(('R', h, sc.sid, x), nontrivial=sc.kind != K_MODULE)
            cls = 'global' if exp == GLOB else ('local' if exp is sc else 'free')
            if x in sc.globals:
                cls += '+declared_global'
            if x in sc.nonlocals:
                cls += '+declared_nonlocal'
            ctx.histogram('reference_branch', cls)
        for sc, x, got in fc.iq:
            ctx.count(('I', h, sc.sid, x, tuple(sorted(owner_str(o) for o in got))),
                      nontrivial=bool(got) and sc.kind != K_MODULE)
            for o in got:
                ctx.histogram('supp_owner', o if isinstance(o, str) else ('own' if o is sc else 'enclosing_function'))
            if not got:
                ctx.histogram('supp_owner', 'none')
    cov['sources'] = len(cases)
    cov['skipped'] = {k: {'n': len(v), 'first': v[:3]} for k, v in skipped.items()}
    ctx.log('analysed %d sources (%d skipped), %d R queries, %d I queries' % (
        len(cases), sum(len(v) for v in skipped.values()), sum(len(c.rq) for c in cases), sum(len(c.iq) for c in cases)))
    for c in cases[:200]:
        if c.src_kind == 'gen' and c.iq:
            sc, x, got = c.iq[-1]
            ctx.sample({'source': c.src[:400], 'read': x, 'scope_path': list(sc.path),
                        'supp_owners': sorted(owner_str(o) for o in got)}, limit=3)
    nm = len(skipped.get('symtable blocks not matched', []))
    if nm > max(3, len(sources) // 40):
        ctx.violation('the oracle could not be attached to %d of %d sources (ast blocks vs symtable blocks): %s' % (
            nm, len(sources), skipped['symtable blocks not matched'][:3]),
            {'kind': 'oracle', 'what': skipped['symtable blocks not matched'][:10]}, found_input=False)

    nfail = sum(len(v) for k, v in skipped.items() if k.startswith('supp raised') or k == 'recursion limit')
    if nfail > max(5, len(sources) * 3 // 100):
        ctx.violation('supp could not analyse %d of %d sources, the comparison would be empty there: %r' % (
            nfail, len(sources), {k: len(v) for k, v in skipped.items()}),
            {'kind': 'coverage', 'skipped': {k: v[:5] for k, v in skipped.items()}}, found_input=False)

    # ---- direct evaluation (always; it is also what yields concrete failing inputs) -------------------
    nd = 0
    for c in cases:
        if c.direct_bad:
            nd += 1
            if nd <= 10:
                b = c.direct_bad[0]
                ctx.violation('%s: read of %r at %r resolves to bindings owned by %r, CPython assigns it to %r (%s)' % (
                    c.label, b[0], b[1], b[2], b[3], b[4]),
                    {'kind': 'direct', 'file': c.fn, 'source': c.src, 'failures': c.direct_bad[:10]})
    cov['direct_failing_sources'] = nd

    # ---- (R) and (I) inside Coq ----------------------------------------------------------------------
    bad = coq_check(ctx, cases)
    cov['correspondence_sources'] = len(cases)
    cov['correspondence_disagreeing_sources'] = len(bad)
    reported = 0
    for i, (br, bi) in sorted(bad.items()):
        c = cases[i]
        if c.direct_bad:
            continue        # already reported with its concrete failing read
        reported += 1
        if reported > 5:
            break
        rdesc = [(owner_str(c.rq[j][0]), c.rq[j][1], owner_str(c.rq[j][2])) for j in br[:5]]
        idesc = [(owner_str(c.iq[j][0]), c.iq[j][1], sorted(owner_str(o) for o in c.iq[j][2])) for j in bi[:5]]
        which = []
        if br:
            which.append('(R) Model.Scopes.py_owner vs symtable: %r' % rdesc)
        if bi:
            which.append('(I) Model.Scopes.supp_owners vs supp (or read outside the domain of C05_owner_agrees): %r' % idesc)
        ctx.violation('correspondence no longer checks on %s: %s; theorem C05_owner_agrees is about models that are not '
                      'the code / the compiler' % (c.label, '; '.join(which) or 'case failed'),
                      {'kind': 'correspondence', 'theorem': 'C05_owner_agrees', 'file': c.fn, 'source': c.src,
                       'reference_disagreements': rdesc, 'implementation_disagreements': idesc}, found_input=False)
    if not proof_ok:
        ctx.violation('proof obligations of Props/C05.v not discharged: %s' % (ctx.notes,),
                      {'kind': 'proof', 'theorem': 'Props/C05.v', 'notes': ctx.notes,
                       'build_error': cov.get('build_error')}, found_input=False)


def replay(ctx, obj):
    r = obj.get('replay', obj)
    src = r.get('source')
    if src is None and r.get('file'):
        src = open(r['file'], encoding='utf8').read()
    if src is None:
        print(obj.get('what'))
        return 1
    stats = {}
    bad = direct_eval(src, r.get('file') or 'replay.py', stats)
    print('reads compared: %d, failing: %d' % (stats.get('reads', 0), len(bad)))
    for b in bad[:20]:
        print('  %r at %r: supp -> %r, CPython -> %r (%s)' % b)
    return 1 if bad else 0
