"""C16 - exactly one server under every interleaving; close and disconnect end it.

Decided by
  (1) Coq theorems C16_* (Props/C16.v) on Model/Client.v: an invariant over every reachable state,
      any number of threads, any scripts over {prepare, call, close}, any schedule;
  (2) correspondence (I): the REAL supp.remote.Environment is driven line by line by a
      deterministic scheduler (props/c16_sched.py: sys.settrace preemption on supp/remote.py
      frames, Popen / Client / time / Thread / Lock replaced by instrumented stand-ins from this
      process, nothing in the repository is edited) along schedules that cover EVERY transition of
      the model's state graph for the small configurations and seeded random walks beyond; the
      observation after every line (launch count, connection, starter handle, lock owner, where
      each thread is or what it is blocked on, replies, exceptions, who can run) is compared with
      the model inside Coq (digest over the schedule tree) and, field by field, with a Python
      mirror of the model that is used to enumerate the graph;
  (3) direct evaluation of the property on every observed state of those runs (no model) and on
      real server processes: close, client disconnect, launch failure and retry.
"""
import json
import os
import subprocess
import sys
import time
import multiprocessing

import common
from common import coq_list

HERE = os.path.dirname(os.path.abspath(__file__))
if HERE not in sys.path:
    sys.path.insert(0, HERE)
import c16_sched as S  # noqa: E402

LEVEL = 'proof'
ASSUMPTIONS = [
    'threading semantics outside the model: Lock is mutual exclusion, Thread.join returns iff the starter thread has '
    'finished, a started thread eventually runs (the harness replaces both by scheduler-aware stand-ins with exactly '
    'these semantics); attribute reads/writes of one source line are not interleaved with another thread more finely '
    'than the model\'s steps (line granularity, CPython 3.12 line events)',
    'inside Environment._run only Popen(...) and Client(addr) are preemption points; the lines between touch locals '
    '(checked by the correspondence: a shared access added there would show as a disagreement only if it changes the '
    'observation)',
    'OS behaviour is runtime: process exit after the close request / after EOF on the pipe, connection refusal while '
    'no server listens (sampled by the real-subprocess part with 30 s polling budgets)',
    'the fake connection answers every request at once; two threads sharing the connection may read each other\'s '
    'reply on a real pipe (recorded remark, "answered" means "returns a reply")',
]

P, C, K = S.PREPARE, S.CALL, S.CLOSE
OPS = (P, C, K)
FIXED = (True, True)

CORPUS = os.path.join(common.VERIF, 'corpus', 'C16')


def all_scripts(maxlen):
    res = [()]
    cur = [()]
    for _ in range(maxlen):
        cur = [s + (o,) for s in cur for o in OPS]
        res += cur
    return res


def multisets(items, k):
    """all multisets of size k (as sorted tuples of indices -> items)"""
    out = []

    def rec(start, acc):
        if len(acc) == k:
            out.append([items[i] for i in acc])
            return
        for i in range(start, len(items)):
            rec(i, acc + [i])
    rec(0, [])
    return out


ORACLES = {
    'ok': ((), ()),
    'popen_fails_first': ((False,), ()),
    'retry_then_ok': ((), (S.CRETRY, S.CRETRY)),
    'timeout_first': ((), (S.CTIMEOUT,)),
    'retry_timeout_then_ok': ((), (S.CRETRY, S.CTIMEOUT)),
    'second_launch_fails': ((True, False), (S.COK, S.CTIMEOUT)),
}


def targeted_schedules(nsteps=26):
    """F3-shaped races on any line layout: thread 0 runs prepare() to its end, thread 1 runs k lines
    of its call, the starter runs to its end, then everything runs to completion."""
    out = []
    for k in range(nsteps):
        out.append([('C', 0)] * 12 + [('C', 1)] * k + [('S', 0)] * 8 + [('C', 1)] * 40 + [('C', 0)] * 4)
    return out


def make_jobs(ctx):
    jobs = []
    nonempty2 = [s for s in all_scripts(2) if s]
    one_op = [(o,) for o in OPS]
    thorough = ctx.thorough()

    def job(kind, scripts, oracle='ok', **kw):
        j = {'kind': kind, 'cfg': FIXED, 'scripts': [tuple(s) for s in scripts], 'oracle': ORACLES[oracle],
             'oracle_name': oracle}
        j.update(kw)
        jobs.append(j)

    # --- exhaustive: every transition of the model graph ---------------------------------------
    for s in nonempty2:                                   # 1 thread x <= 2 ops, every oracle
        for oname in ORACLES:
            job('exhaustive', [s], oname)
    for s in all_scripts(3):
        if len(s) == 3:
            job('exhaustive', [s])
    two = multisets(nonempty2, 2)                         # 2 threads x <= 2 ops
    for sc in two:
        job('exhaustive', sc)
    for sc in multisets(one_op, 3):                       # 3 threads x 1 op
        job('exhaustive', sc)
    # failure oracles on 2-thread configurations: all in thorough, a seeded third in quick
    fo = [o for o in ORACLES if o != 'ok']
    for sc in two:
        for oname in fo:
            if thorough or ctx.rng.random() < 0.3:
                job('exhaustive', sc, oname)
    for sc in multisets(one_op, 3):
        for oname in (fo if thorough else fo[:2]):
            job('exhaustive', sc, oname)
    # --- 3 threads, up to 2 ops each -------------------------------------------------------------
    three = [sc for sc in multisets(nonempty2, 3) if sum(map(len, sc)) > 3]
    small3 = [sc for sc in three if sum(map(len, sc)) == 4]
    big3 = [sc for sc in three if sum(map(len, sc)) > 4]
    if thorough:
        for sc in small3:                                 # 2+1+1 ops: every transition
            job('exhaustive', sc, chunk=3000)
        for sc in big3:                                   # 2+2+1, 2+2+2: seeded sample of the cover
            job('exhaustive', sc, sample=1500, seed=ctx.rng.randrange(1 << 30), chunk=1500)
    else:
        for sc in ctx.rng.sample(small3, 10):
            job('exhaustive', sc, sample=700, seed=ctx.rng.randrange(1 << 30), chunk=700)
        for sc in ctx.rng.sample(big3, 8):
            job('exhaustive', sc, sample=300, seed=ctx.rng.randrange(1 << 30), chunk=300)
    # --- targeted races (the F3 shape at every line of the caller) ---------------------------------
    job('schedules', [(P,), (C,)], schedules=targeted_schedules())
    job('schedules', [(P, C), (C, C)], schedules=targeted_schedules())
    # --- single-preemption search (direct evaluator's search engine, independent of the model's graph) ---------
    for sc in ([(C,), (C,)], [(P,), (C,)], [(P, C), (C,)], [(C, C), (P, C)], [(C,), (C,), (C,)], [(P,), (C,), (C,)],
               [(P, C), (C,), (P,)], [(C, K, C), (P,)]):
        jobs.append({'kind': 'preempt', 'cfg': FIXED, 'scripts': [tuple(x) for x in sc], 'oracle': ORACLES['ok'],
                     'oracle_name': 'ok', 'maxk': 28})
    jobs.append({'kind': 'preempt', 'cfg': FIXED, 'scripts': [(P, C), (C,)], 'oracle': ORACLES['timeout_first'],
                 'oracle_name': 'timeout_first', 'maxk': 28})
    # --- seeded random walks: more threads, longer scripts, random oracles ---------------------------
    nwalkjobs = ctx.pick(40, 400)
    for _ in range(nwalkjobs):
        nt = ctx.rng.choice([2, 3, 3, 4, 4, 5])
        sc = [tuple(ctx.rng.choice(OPS) for _ in range(ctx.rng.randint(1, 4))) for _ in range(nt)]
        if ctx.rng.random() < 0.5:
            oracle = ((), ())
        else:
            oracle = (tuple(ctx.rng.random() < 0.8 for _ in range(ctx.rng.randint(0, 3))),
                      tuple(ctx.rng.choice([S.COK, S.COK, S.CRETRY, S.CTIMEOUT]) for _ in range(ctx.rng.randint(0, 4))))
        jobs.append({'kind': 'walks', 'cfg': FIXED, 'scripts': sc, 'oracle': oracle, 'oracle_name': 'random',
                     'walks': ctx.pick(12, 40), 'seed': ctx.rng.randrange(1 << 30)})
    return jobs


def corpus_jobs():
    jobs = []
    if os.path.isdir(CORPUS):
        for fn in sorted(os.listdir(CORPUS)):
            if fn.endswith('.json'):
                d = json.load(open(os.path.join(CORPUS, fn)))
                tail = []
                nt = len(d['scripts'])
                for _ in range(60):          # then run everything to completion, round robin
                    tail += [('C', i) for i in range(nt)] + [('S', h) for h in range(4)]
                jobs.append({'kind': 'schedules', 'cfg': FIXED, 'scripts': [tuple(s) for s in d['scripts']],
                             'oracle': (tuple(d.get('oracle', {}).get('popen', ())), tuple(d.get('oracle', {}).get('conn', ()))),
                             'oracle_name': 'corpus:' + fn,
                             'schedules': [[tuple(t) for t in d['schedule']] + tail], 'corpus': fn})
    return jobs


_cpu_counter = None


def _init_worker(counter):
    with counter.get_lock():
        k = counter.value
        counter.value += 1
    try:
        cpus = sorted(os.sched_getaffinity(0))
        os.sched_setaffinity(0, {cpus[k % len(cpus)]})    # one core per worker: cheap thread hand-offs
    except (AttributeError, OSError):
        pass


def _run_job(job):
    try:
        return S.run_job(job)
    except BaseException as e:      # noqa
        import traceback
        return {'error': '%s: %s' % (type(e).__name__, e), 'traceback': traceback.format_exc()[-2000:],
                'scripts': job['scripts'], 'oracle': job['oracle'], 'cases': [], 'mismatch': [], 'direct': [],
                'problems': [], 'nodes': 0, 'steps': 0, 'paths': 0, 'kind': job['kind']}


def size_estimate(job):
    n = sum(len(s) for s in job['scripts']) * (len(job['scripts']) ** 2)
    if job['kind'] == 'walks':
        return 5
    if job['kind'] == 'preempt':
        return 60
    if job.get('sample'):
        return 50
    return n


PRELUDE_HEAD = '''From Coq Require Import Uint63.
(* the digest of Model/Client.v (digest_trie) instantiated with a polynomial hash on primitive integers;
   the same function is computed by c16_sched.mix on the observations recorded on the real class *)
Definition n2i (x : N) : int := match x with N0 => 0%uint63 | Npos p => of_pos p end.
Definition mix (acc : int) (l : list N) : int :=
  fold_left (fun a x => (a * 6364136223846793005 + n2i x + 1)%uint63) l (acc * 6364136223846793005 + 77)%uint63.
Definition check_case (x : cfg * oracle * list (list op) * trie * int) : bool :=
  let '(y, d) := x in
  match case_digest int mix 0%uint63 y with Some d' => Uint63.eqb d' d | None => false end.
'''


def coq_compare(ctx, cases):
    """cases: list of (cfg, oracle, scripts, term, digest). Returns indices that disagree."""
    groups = []
    cur = []
    size = 0
    for idx, (cfg, o, scripts, term, dg) in enumerate(cases):
        t = '(%s, %s, %s, %s, %d%%uint63)' % (S.Cfg(*cfg).coq(), S.Oracle(*o).coq(), S.scripts_term(scripts), term, dg)
        cur.append((idx, t))
        size += len(t)
        if size > 700000 or len(cur) >= 120:
            groups.append(cur)
            cur, size = [], 0
    if cur:
        groups.append(cur)
    jobs = []
    for g in groups:
        pre = PRELUDE_HEAD + 'Definition cases__ : list (cfg * oracle * list (list op) * trie * int) := %s.\n' % coq_list([t for _, t in g])
        jobs.append((['Model.Client'], pre, ['bad_idx check_case cases__']))
    bad = []
    for g, res in zip(groups, ctx.coq_eval_many(jobs, timeout=900)):
        bad += [g[i][0] for i in res[0]]
    return sorted(bad), len(groups)


def start_real_part():
    env = dict(os.environ)
    env['PYTHONPATH'] = common.REPO + os.pathsep + os.path.join(common.VERIF, 'harness')
    return subprocess.Popen([common.PY, os.path.join(HERE, 'c16_sched.py'), 'real'], env=env,
                            stdout=subprocess.PIPE, stderr=subprocess.PIPE, text=True)


def collect_real_part(proc, timeout=420):
    try:
        out, err = proc.communicate(timeout=timeout)
    except subprocess.TimeoutExpired:
        proc.kill()
        return None, 'real-subprocess part did not finish in %d s' % timeout
    for line in out.splitlines():
        if line.startswith('C16REAL '):
            return json.loads(line[8:]), None
    return None, 'no result line; stderr: ' + err[-800:]


REAL_WHAT = {
    'a': 'close() must end the session: server process exits, the client then works again with exactly one new server',
    'b': 'the server must exit on its own when the client end of the connection disappears',
    'd': 'after close() the client must be served by a NEW server (own listener address) even while the previous server process is still shutting down or stopped',
    'c': 'a failed launch must raise the documented timeout exception, leave the client usable and a later call must start exactly one server',
}


def variant_note(r):
    """which model variant (if any) predicts the first mismatching schedule of result r"""
    m = next((x for x in r['mismatch'] if x), None)
    if m is None:
        return ''
    sched = [tuple(t) for t in m['schedule']]
    try:
        obs, _ = S.replay_real(r['scripts'], S.Oracle(*r['oracle']), sched)
    except Exception:
        return ''
    for f2, f3 in ((False, False), (True, False), (False, True)):
        if S.replay_mirror(S.Cfg(f2, f3), S.Oracle(*r['oracle']), r['scripts'], sched) == obs:
            return (' [the tree behaves like the model variant fix_f2=%s fix_f3=%s on this schedule: '
                    'theorems C16_F2_refuted / C16_F3_refuted describe it]' % (f2, f3))
    return ''


def run(ctx):
    cov = ctx.coverage
    cov['rule'] = ('case = one schedule replayed line by line on the real Environment (fakes for Popen/Client/time, '
                   'scheduler-aware Lock/Thread). exhaustive jobs: BFS-tree path to every state of the model graph + '
                   'every non-tree transition + every terminal state, for all scripts of 1 thread (<=3 ops, all '
                   'oracles), all multisets of 2 threads x <=2 ops, 3 threads x 1 op (+ failure oracles), '
                   '3 threads x <=2 ops (all transitions for 4 ops in thorough, seeded sample otherwise); walks: seeded '
                   'random schedules to completion with 2-5 threads, 1-4 ops, random oracles, 8% disabled picks. '
                   'non-trivial = at least two different threads execute lines in the schedule')
    real_proc = start_real_part()
    proof_ok = ctx.coq_props()
    ctx.log('proofs checked: %s' % proof_ok)
    real, real_err = collect_real_part(real_proc)
    ctx.log('real-subprocess part: %s' % ({k: v.get('ok') for k, v in real.items()} if real else real_err))

    jobs = corpus_jobs() + make_jobs(ctx)
    order = sorted(range(len(jobs)), key=lambda i: -size_estimate(jobs[i]))
    counter = multiprocessing.Value('i', 0)
    mp = multiprocessing.get_context('fork')
    nproc = max(2, common.NCPU - 1)
    t0 = time.time()
    results = [None] * len(jobs)
    with mp.Pool(nproc, initializer=_init_worker, initargs=(counter,)) as pool:
        for i, r in zip(order, pool.imap(_run_job, [jobs[i] for i in order], chunksize=1)):
            results[i] = r
    ctx.log('replayed %d jobs, %d schedules, %d lines on the real class in %.1fs' % (
        len(jobs), sum(r['paths'] for r in results), sum(r['steps'] for r in results), time.time() - t0))

    # ---- bookkeeping ----------------------------------------------------------------------------
    cases = []
    owner = []
    for ji, (j, r) in enumerate(zip(jobs, results)):
        nthreads = len([s for s in j['scripts'] if s])
        cov['evaluations'] += r['paths']
        if nthreads >= 2:
            cov['distinct_nontrivial'] += r['paths']
        ctx.histogram('job_kind', j['kind'], r['paths'])
        ctx.histogram('threads', nthreads, r['paths'])
        ctx.histogram('oracle', j['oracle_name'] if not j['oracle_name'].startswith('corpus') else 'corpus', r['paths'])
        ctx.histogram('ops_total', sum(len(s) for s in j['scripts']), r['paths'])
        if r.get('states'):
            ctx.histogram('model_states_covered', 'states', r['states'] if not r.get('sampled') else 0)
            ctx.histogram('model_states_covered', 'transitions', r['edges'] if not r.get('sampled') else 0)
        for term, dg, n in r['cases']:
            cases.append((j['cfg'], j['oracle'], j['scripts'], term, dg))
            owner.append(ji)
    pcs = set()
    for j, r in zip(jobs, results):
        if not r.get('sampled'):
            pcs.update(r.get('pcs', ()))
        for code, n in r.get('branches', {}).items():
            ctx.histogram('exception_at_end_of_schedule', S.EXN[int(code) - 1] if 0 < int(code) <= len(S.EXN) else 'other', n)
    allpcs = set(S.pc_loc(S.Cfg(), ('RTestL', None)) and k for k in (
        'PAcq PAcqW PTestH PRet1 PHas PRet2 PMk PStart PRel PRelExc CEntry CTry CGet CExc CRun RAcq RAcqW RRead RTestL '
        'RJoinL RJoinW RHas RCallRun RPopen RConnect RRel RRelExc CSend CRecv CIsOk CRet KTry KGet KExc KPass KSend '
        'KClose KDel SNew S68 S69 SPopen SConnect S71 SDone').split())
    cov['model_lines_reached_in_fully_covered_graphs'] = '%d of %d' % (len(pcs & allpcs), len(allpcs))
    cov['model_lines_not_reached'] = sorted(allpcs - pcs)
    cov['schedule_tree_nodes'] = sum(r['nodes'] for r in results)
    cov['lines_executed_on_real_class'] = sum(r['steps'] for r in results)
    for j, r in list(zip(jobs, results))[:400]:
        if r['paths'] and len(cov['samples']) < 6 and len(j['scripts']) >= 2 and j['kind'] == 'exhaustive':
            ctx.sample({'scripts': [[S.OPNAME[x] for x in s] for s in j['scripts']], 'oracle': j['oracle_name'],
                        'model_states': r.get('states'), 'transitions': r.get('edges'), 'schedules': r['paths']})

    # ---- (I) inside Coq ----------------------------------------------------------------------------
    t1 = time.time()
    bad, nfiles = coq_compare(ctx, cases)
    ctx.log('Coq compared %d schedule trees (%d nodes) in %d files: %d disagree (%.1fs)' % (
        len(cases), cov['schedule_tree_nodes'], nfiles, len(bad), time.time() - t1))
    cov['correspondence_cases'] = len(cases)
    cov['correspondence_disagreements'] = len(bad)

    # ---- verdicts -------------------------------------------------------------------------------------
    reported = set()
    for j, r in zip(jobs, results):
        if r.get('error'):
            ctx.violation('check machinery failed in a replay worker: ' + r['error'],
                          {'kind': 'harness-exception', 'traceback': r.get('traceback'), 'scripts': j['scripts']},
                          found_input=False)
            break
    for j, r in zip(jobs, results):                      # direct property failures: concrete schedules
        for d in r['direct']:
            key = tuple(d['what'])
            if key in reported or len(reported) >= 6:
                continue
            reported.add(key)
            ctx.violation('; '.join(d['what']) + ' - scripts %s, oracle %s, after %d scheduled lines' % (
                [[S.OPNAME[x] for x in s] for s in j['scripts']], j['oracle_name'], len(d['schedule'])),
                {'kind': 'schedule', 'scripts': [list(s) for s in j['scripts']], 'oracle': [list(j['oracle'][0]), list(j['oracle'][1])],
                 'schedule': [list(t) for t in d['schedule']], 'observation': d['observation'], 'what': d['what']})
    mism = [(j, r) for j, r in zip(jobs, results) if r['mismatch']]
    if mism:
        j, r = mism[0]
        m = next(x for x in r['mismatch'] if x)
        ctx.violation('correspondence Model.Client vs supp.remote.Environment no longer checks: %d of %d jobs have a schedule '
                      'whose observations differ from the model (first: scripts %s, after %d lines)%s; the theorems C16_* '
                      'are about a model that is not this code' % (
                          len(mism), len(jobs), [[S.OPNAME[x] for x in s] for s in j['scripts']], len(m['schedule']),
                          variant_note(r)),
                      {'kind': 'schedule', 'theorem': 'correspondence (I) for C16_one_server_per_session / C16_no_startup_exception / C16_deadlock_free',
                       'scripts': [list(s) for s in j['scripts']], 'oracle': [list(j['oracle'][0]), list(j['oracle'][1])],
                       'schedule': [list(t) for t in m['schedule']], 'real': m['real'], 'model': m['model']},
                      found_input=bool(reported))
    badjobs = sorted({owner[i] for i in bad})
    pure = [ji for ji in badjobs if not results[ji]['mismatch']]
    if pure:
        j = jobs[pure[0]]
        ctx.violation('the Coq model (Model/Client.v) and the harness mirror disagree on %d schedule trees although the mirror '
                      'matches the real class: model or mirror was edited inconsistently' % len(pure),
                      {'kind': 'model-mirror', 'scripts': [list(s) for s in j['scripts']], 'oracle': [list(j['oracle'][0]), list(j['oracle'][1])]},
                      found_input=False)
    probs = [p for r in results for p in r['problems']]
    if probs:
        ctx.violation('instrumentation problem while replaying (nondeterministic observation / thread not unwinding): %r' % (probs[0],),
                      {'kind': 'instrumentation', 'first': probs[0]}, found_input=False)

    # ---- real server processes ----------------------------------------------------------------------------
    cov['real_subprocess'] = real if real is not None else real_err
    if real is None:
        ctx.violation('real-subprocess part failed to run: ' + str(real_err), {'kind': 'real', 'error': real_err}, found_input=False)
    else:
        for part in ('a', 'b', 'c', 'd'):
            ctx.count(('real', part), nontrivial=True)
            if not real.get(part, {}).get('ok'):
                ctx.violation('real server process: ' + REAL_WHAT[part] + ' - observed ' + json.dumps(real.get(part))[:300],
                              {'kind': 'real', 'part': part, 'observed': real.get(part)})
    # ---- server side of a session: ends when its connection ends (model srv_run vs real server processes) ---------
    if real is not None:
        e = real.get('e', {})
        scs = e.get('scenarios')
        if scs is None:
            ctx.violation('real server process: the session-end scenarios did not run: ' + json.dumps(e)[:300],
                          {'kind': 'real', 'part': 'e', 'observed': e}, found_input=False)
        else:
            EV = {'close': 'EvClose', 'conn_closed': 'EvEof', 'client_dies': 'EvEof', 'garbage': 'EvGarbage'}
            terms = []
            for sc in scs:
                ctx.count(('real-e', sc['requests'], sc['ending']), nontrivial=True)
                ctx.histogram('session_end_scenario', '%d requests then %s' % (sc['requests'], sc['ending']))
                terms.append('(%s, %s, %d%%nat)' % (coq_list(['EvRequest'] * sc['requests'] + [EV[sc['ending']]]),
                                                   'true' if sc.get('exited') else 'false', sc.get('replies', 0)))
            bad_srv = ctx.run_cases(['Model.Client'], '', 'check_server_case', terms)
            cov['server_model_cases'] = len(terms)
            cov['server_model_disagreements'] = len(bad_srv)
            for k, sc in enumerate(scs):
                failed = sc.get('inconclusive') or not sc.get('exited') or sc.get('replies') != sc['requests'] or k in bad_srv
                if not failed:
                    continue
                what = ('real server process: after %d request(s) the connection ended by %s and the server process %s '
                        '(replies %s%s); the server of a session must end when its connection ends (server.py; model srv_run, '
                        'theorem C16_server_ends_with_connection)' % (
                            sc['requests'], {'close': 'close()', 'conn_closed': 'closing the client end without a close request',
                                             'client_dies': 'the death of the client process',
                                             'garbage': 'undecodable bytes'}[sc['ending']],
                            'was still running after 20 s' if not sc.get('exited') else 'exited',
                            sc.get('replies'), ', inconclusive: ' + str(sc.get('error')) if sc.get('inconclusive') else ''))
                rep = {'kind': 'real', 'part': 'e', 'scenario': sc}
                if sc['ending'] == 'garbage':
                    # undecodable input is not among "close, client disconnect and launch failure" of the quantifier
                    ctx.extension_failure(what, rep)
                else:
                    ctx.violation(what, rep, found_input=not sc.get('inconclusive'))
    if not proof_ok:
        ctx.violation('proof obligations of Props/C16.v not discharged: %s' % (ctx.notes,),
                      {'kind': 'proof', 'theorem': 'Props/C16.v', 'notes': ctx.notes, 'build_error': cov.get('build_error')},
                      found_input=False)


def replay(ctx, obj):
    r = obj['replay']
    kind = r.get('kind')
    if kind == 'schedule':
        scripts = [tuple(s) for s in r['scripts']]
        o = S.Oracle(*[tuple(x) for x in r['oracle']])
        sched = [tuple(t) for t in r['schedule']]
        obs, prob = S.replay_real(scripts, o, sched)
        last = obs[-1]
        fails = S.property_failures(last, scripts, o)
        model = S.replay_mirror(S.Cfg(*FIXED), o, scripts, sched)
        print('scripts', [[S.OPNAME[x] for x in s] for s in scripts])
        print('schedule', sched)
        print('observed', S.decode(last, len(scripts)))
        print('property failures', fails)
        print('model agrees', model == obs)
        return 1 if (fails or model != obs or prob) else 0
    if kind == 'real':
        real, err = collect_real_part(start_real_part())
        print(json.dumps(real, indent=1) if real else err)
        return 0 if real and all(real.get(p, {}).get('ok') for p in 'abcde') else 1
    print(obj.get('what'))
    return 1
