"""Shared by C01/C02/C03: observe supp on a rendered scope body, build Coq cases, run CPython."""
import ast
import os

from props import pygen


def project(ctx):
    from supp.project import Project
    d = os.path.join(ctx.scratch, 'proj')
    if not os.path.isdir(d):
        os.makedirs(d)
        with open(os.path.join(d, 'helpers.py'), 'w') as f:
            f.write('def g(*a): return ()\ncm = it = c = g\nE0 = E1 = E2 = Exception\n')
    return Project([d]), d


def observe_supp(ctx, src, reads, binds):
    """Analyse `src` with the real code. Returns dict:
       seen: {read site: sorted list of alternatives (bind site | None)}  ('E42' if the read has no flow)
       unknown_alt: alternatives that are not generator binding sites (should be empty)
       e02 / e42: sets of read sites reported by lint, unused: set of bind sites reported W01/W02."""
    from supp.util import Source, np
    from supp.nast import extract_scope
    from supp.linter import lint
    from supp.name import MultiName, UndefinedName
    proj, d = project(ctx)
    fn = os.path.join(d, 'gen_case.py')
    source = Source(src, fn)
    scope = extract_scope(source, proj)
    by_pos_read = {(l, c): s for s, (l, c, _n) in reads.items()}
    by_line_name = {(l, n): s for s, (l, c, n) in binds.items()}
    by_pos_bind = {(l, c): s for s, (l, c, n) in binds.items()}
    seen = {}
    unknown = []
    for node in ast.walk(source.tree):
        if isinstance(node, ast.Name) and isinstance(node.ctx, ast.Load):
            site = by_pos_read.get((node.lineno, node.col_offset))
            if site is None:
                continue
            flow = getattr(node, 'flow', None)
            if flow is None:
                seen[site] = 'E42'
                continue
            nm = flow.names_at(np(node)).get(node.id)
            if nm is None:
                seen[site] = [None]
                continue
            alts = nm.alt_names if isinstance(nm, MultiName) else [nm]
            out = set()
            for a in alts:
                if isinstance(a, UndefinedName):
                    out.add(None)
                    continue
                da = getattr(a, 'declared_at', None)
                b = (by_pos_bind.get(tuple(da)) or by_line_name.get((da[0], a.name))) if da else None
                if b is None:
                    unknown.append((site, repr(a)))
                else:
                    out.add(b)
            seen[site] = sorted(out, key=lambda v: (-1 if v is None else v))
    res = lint(proj, src, fn)
    e02, e42, unused = set(), set(), set()
    for r in res:
        code, msg, l, c = r[:4]
        if code in ('E02', 'E42'):
            s = by_pos_read.get((l, c))
            if s is not None:
                (e02 if code == 'E02' else e42).add(s)
        elif code in ('W01', 'W02'):
            nm = msg.split(': ')[1]
            b = by_pos_bind.get((l, c)) or by_line_name.get((l, nm))
            if b is not None:
                unused.add(b)
    return {'seen': seen, 'unknown_alt': unknown, 'e02': e02, 'e42': e42, 'unused': unused, 'lint': [r[:4] for r in res]}


def alt_term(v):
    return 'None' if v is None else '(Some %d)' % v


CHECK_PRELUDE = pygen.COQ_PRELUDE + '''
Definition alt_le (a b : alt) : bool :=
  match a, b with None, _ => true | Some _, None => false | Some x, Some y => N.leb x y end.
Definition mem_alt (a : alt) (l : list alt) : bool := existsb (alt_eqb a) l.
Definition set_eq_alt (l m : list alt) : bool :=
  forallb (fun a => mem_alt a m) l && forallb (fun a => mem_alt a l) m.
Definition memN (a : N) (l : list N) : bool := existsb (N.eqb a) l.
Definition set_eq_N (l m : list N) : bool :=
  forallb (fun a => memN a m) l && forallb (fun a => memN a l) m.

(* (I): supp's observed alternatives per read, E02 sites and unused binding sites vs the model *)
Definition check_impl (k : cmd * list (N * list alt) * list N * list N) : bool :=
  match k with
  | (c, obs, e02s, unused) =>
      forallb (fun ra => set_eq_alt (seen c aenv0 (fst ra)) (snd ra)) obs &&
      set_eq_N (filter (fun r => e02 c aenv0 r) (map fst (reads c))) e02s &&
      set_eq_N (unused_sites c aenv0) unused
  end.

(* (I) with loop exits: Model/ReachX.v (break / continue are flow edges) *)
Definition check_implx (k : cmd * list (N * list alt) * list N * list N) : bool :=
  match k with
  | (c, obs, e02s, unused) =>
      forallb (fun ra => set_eq_alt (seenx c aenv0 (fst ra)) (snd ra)) obs &&
      set_eq_N (filter (fun r => e02x c aenv0 r) (map fst (reads c))) e02s &&
      set_eq_N (unused_sitesx c aenv0) unused
  end.

(* (R): CPython's trace under a decision list vs the interpreter of Model/Sem.v; the observed
   trace ends at the first NameError *)
Fixpoint cut_at_none (t : trace) : trace :=
  match t with
  | [] => []
  | (r, None) :: _ => [(r, None)]
  | e :: rest => e :: cut_at_none rest
  end.
Definition ev_eqb (a b : site * alt) : bool := N.eqb (fst a) (fst b) && alt_eqb (snd a) (snd b).
Fixpoint trace_eqb (a b : trace) : bool :=
  match a, b with
  | [], [] => true
  | x :: a', y :: b' => ev_eqb x y && trace_eqb a' b'
  | _, _ => false
  end.
Definition zeros := repeat 0%nat 64.
(* C03 mode: the oracle goes on after a failed read, exactly as [exec] does *)
Definition check_ref_full (k : cmd * list nat * trace) : bool :=
  match k with
  | (c, ds, obs) =>
      match run 4000 c renv0 (ds ++ zeros) with
      | Done _ tr _ _ => trace_eqb tr obs
      | _ => false
      end
  end.
(* C01: any exits; the oracle goes on after a failed read *)
Definition check_refX (k : cmd * list nat * trace) : bool :=
  match k with
  | (c, ds, obs) =>
      match runX 4000 c renv0 (ds ++ zeros) with
      | DoneX _ tr _ _ => trace_eqb tr obs
      | _ => false
      end
  end.
(* C02 with loop exits: CPython vs the strict interpreter of Model/SemXS.v (the oracle goes on after a
   failed read), the fragment, and the instance of theorem C02X_sound on the execution *)
Definition check_refXs (k : cmd * list nat * trace) : bool :=
  match k with
  | (c, ds, obs) =>
      match runXs 4000 c renv0 (ds ++ zeros) with
      | DoneX _ tr _ _ => trace_eqb tr obs
      | _ => false
      end
  end.
Definition check_soundx_instance (k : cmd * list nat * trace) : bool :=
  match k with
  | (c, ds, _) =>
      negb (okx c) ||
      match runXs 4000 c renv0 (ds ++ zeros) with
      | DoneX _ tr _ _ => forallb (fun e => match snd e with Some _ => mem_alt (snd e) (seenx c aenv0 (fst e)) | None => true end) tr
      | _ => false
      end
  end.
Definition frag_okx (c : cmd) : bool := okx c.
Definition check_visible_instance (k : cmd * list nat * trace) : bool :=
  match k with
  | (c, ds, _) =>
      match runX 4000 c renv0 (ds ++ zeros) with
      | DoneX _ tr _ _ => forallb (fun e => match snd e with Some _ => visiblex c aenv0 (fst e) | None => true end) tr
      | _ => false
      end
  end.
Definition check_ref (k : cmd * list nat * trace) : bool :=
  match k with
  | (c, ds, obs) =>
      match run 4000 c renv0 (ds ++ zeros) with
      | Done _ tr _ _ => trace_eqb (cut_at_none tr) obs
      | _ => false
      end
  end.

(* the theorem's instance on this execution (always true when the theorems hold; evaluated as a
   cross-check that the cases exercise them) *)
Definition check_sound_instance (k : cmd * list nat * trace) : bool :=
  match k with
  | (c, ds, _) =>
      match run 4000 c renv0 (ds ++ zeros) with
      | Done _ tr _ _ => forallb (fun e => mem_alt (snd e) (seen c aenv0 (fst e))) tr
      | _ => false
      end
  end.
'''

IMPORTS = ['Model.PyCore', 'Model.Reach', 'Model.ReachX', 'Model.Sem', 'Model.SemX', 'Model.SemXS', 'Proofs.ReachComplete']


def impl_case_term(tree_body, obs):
    c = pygen.body_coq(tree_body)
    seen_items = []
    for site in sorted(obs['seen']):
        v = obs['seen'][site]
        if v == 'E42':
            v = []            # never equals the model (the model always has >= 1 alternative)
        seen_items.append('(%d, [%s])' % (site, '; '.join(alt_term(a) for a in v)))
    return '(%s, [%s], [%s], [%s])' % (c, '; '.join(seen_items),
                                       '; '.join(str(s) for s in sorted(obs['e02'] | obs['e42'])),
                                       '; '.join(str(s) for s in sorted(obs['unused'])))


def ref_case_term(tree_body, ds, log):
    c = pygen.body_coq(tree_body)
    tr = '; '.join('(%d, %s)' % (r, alt_term(v)) for r, v in log)
    return '(%s, [%s], [%s])' % (c, '; '.join('%d%%nat' % d for d in ds), tr)


class Oracle(object):
    """Runs the instrumented rendering under CPython with loop trips bounded at `max_trips` per
    loop activation; returns (log, effective decisions, arities, error)."""

    def __init__(self, code, scope, max_trips=2, cont=False):
        self.code = compile(code, '<gen>', 'exec')
        self.scope = scope
        self.max_trips = max_trips
        self.cont = cont

    def run(self, decisions):
        ns = {}
        exec(pygen.RUNTIME, ns)
        ns['_cont'][0] = self.cont
        want = list(decisions)
        eff, ar = [], []
        max_trips = self.max_trips

        def pop(arity, forced_zero=False):
            v = want.pop(0) if want else 0
            if forced_zero or v >= arity:
                v = 0 if forced_zero else arity - 1
            eff.append(v)
            ar.append(1 if forced_zero else arity)
            return v
        trips = {}

        def _ob(*a):
            return pop(2) == 0

        def _ow_factory():
            def _ow(*a):
                # keyed by the code position of the caller: one counter per loop statement
                key = ns['sys']._getframe(1).f_lineno
                t = trips.get(key, 0)
                v = pop(2, forced_zero=(t >= max_trips))
                if v == 0:
                    trips[key] = 0
                    return False
                trips[key] = t + 1
                return True
            return _ow

        def _it(tags, *a):
            t = 0
            V = ns['_V']
            while True:
                v = pop(2, forced_zero=(t >= max_trips))
                if v == 0:
                    return
                t += 1
                vs = tuple(V(x) for x in tags)
                yield vs if len(vs) > 1 else vs[0]

        def _raise(nh):
            d = pop(nh + 1)
            if d > 0:
                raise ns['_E'][d - 1]()
        def _oc(*a):
            return [0] if pop(2) == 0 else []
        ns['_ob'] = _ob
        ns['_oc'] = _oc
        ns['_ow'] = _ow_factory()
        ns['_it'] = _it
        ns['_raise'] = _raise
        err = None
        try:
            exec(self.code, ns)
            if self.scope == 'func':
                ns['_go']()
        except ns['_Stop']:
            pass
        except tuple(ns['_E']):
            pass                      # an uncaught generated exception ends the run
        except RecursionError as e:
            err = 'RecursionError'
        except BaseException as e:  # noqa
            err = '%s: %s' % (type(e).__name__, e)
        return ns['_log'], eff, ar, err


def enumerate_decisions(oracle, cap):
    """All effective decision sequences (odometer over the arities reported by the oracle).
    Returns (list of (eff, log, err), exhaustive?)."""
    out = []
    ds = []
    while True:
        log, eff, ar, err = oracle.run(ds)
        out.append((list(eff), list(log), err))
        if len(out) >= cap:
            return out, False
        # next: increment the last position that has room
        i = len(eff) - 1
        while i >= 0 and eff[i] + 1 >= ar[i]:
            i -= 1
        if i < 0:
            return out, True
        ds = eff[:i] + [eff[i] + 1]


CHECK_PRELUDE += '''
Definition check_impl_noscope (k : cmd * list (N * list alt) * list N * list N) : bool :=
  match k with
  | (c, obs, e02s, _) =>
      forallb (fun ra => set_eq_alt (seen c aenv0 (fst ra)) (snd ra)) obs &&
      set_eq_N (filter (fun r => e02 c aenv0 r) (map fst (reads c))) e02s
  end.
Definition frag_ok (c : cmd) : bool := ok c.
Definition frag_c03 (c : cmd) : bool := negb (has_ret c) && full_raise c && Nat.eqb (List.length (nodup N.eq_dec (map fst (reads c)))) (List.length (reads c)).
'''

# hand-written boundary programs, run first (corpus)
def corpus_trees():
    A = lambda d, x, reads=(): ('assign', list(reads), [(d, x)], 'plain')
    R = lambda r, x: ('expr', [(r, x)])
    return [
        # F1: loop-carried definition through a sibling branch
        [A(1, 'w'), ('for', [], [(2, 'x')], [('if', [], [A(3, 'w')], [('pass',)]), R(10, 'w'), A(4, 'w')], [('pass',)])],
        # F15: while test reads the binding made in the body
        [A(1, 'a'), ('while', [(10, 'a')], [A(2, 'a')], [('pass',)]), R(11, 'a')],
        # F11: handler type reads a name bound in the try body
        [('try', [A(1, 'a')], [([(10, 'a')], None, [('pass',)])], [('pass',)], [('pass',)], True, True)],
        # F12: binding under finally/if
        [('try', [('pass',)], [([], None, [('pass',)])], [('pass',)], [('if', [], [A(1, 'x')], [A(2, 'x')])], True, True), R(10, 'x')],
        # F13: with-item order
        [('with', [], [(1, 'b')], [('with', [(10, 'b')], [(2, 'a')], [R(11, 'a')])])],
        # for-else / while-else / nested loops
        [A(1, 'x'), ('for', [(10, 'x')], [(2, 'y')], [A(3, 'x', [(11, 'y')])], [R(12, 'x'), R(13, 'y')]), R(14, 'y')],
        [('while', [], [('while', [], [A(1, 'a')], [R(10, 'a')]), R(11, 'a')], [R(12, 'a')]), R(13, 'a')],
        # try/except/else/finally with handler name
        [('try', [A(1, 'a')], [([], (2, 'e1'), [R(10, 'e1'), A(3, 'a')]), ([], None, [A(4, 'b')])], [A(5, 'b')], [R(11, 'a'), R(12, 'b')], True, True), R(13, 'b')],
        # try / except / else / finally where handler and else rebind the name bound in the body: the body's
        # binding must NOT reach the read after the statement (seeded C03-2)
        [A(1, 'y'), ('try', [A(2, 'x')], [([], None, [A(3, 'x')])], [A(4, 'x')], [R(10, 'y')], True, True), R(11, 'x')],
        [A(1, 'y'), ('try', [A(2, 'x')], [([], (3, 'e1'), [A(4, 'x')]), ([], None, [A(5, 'x')])], [A(6, 'x')], [R(10, 'y')], True, True), R(11, 'x')],
        # six nested single-parent blocks: the binding of the outermost block, not the one before it, reaches the
        # innermost read (seeded C02-r5-1: layers of the merged name table folded in the wrong order)
        [A(1, 'x'), ('if', [], [A(2, 'x'), ('if', [], [('if', [], [('if', [], [('if', [], [('if', [], [R(10, 'x')], [('pass',)], [])],
          [('pass',)], [])], [('pass',)], [])], [('pass',)], [])], [('pass',)], [])], [('pass',)], []), R(11, 'x')],
        [A(1, 'y'), ('try', [A(2, 'y'), ('with', [], [(3, 'w')], [('if', [], [('with', [], [(4, 'z')], [('if', [], [('if', [], [R(10, 'y')], [('pass',)], [])],
          [('pass',)], [])])], [('pass',)], [])])], [([], None, [('pass',)])], [('pass',)], [('pass',)], True, True)],
        # an if test holding a comprehension and, behind it, a walrus: both branches and the code after the if see the
        # walrus binding (seeded C03-r4-2 / C01-r3-1: the branches hung off the flow from before the comprehension)
        [A(1, 'z'), A(2, 'b'), ('if', [], [R(10, 'z')], [R(11, 'z')], [(3, 'z')], [(12, 'b')]), R(13, 'z')],
        [('if', [(10, 'a')], [R(11, 'w')], [('pass',)], [(1, 'w')], [(12, 'a')]), R(13, 'w')],
        # the same name bound twice by one statement: the LAST target wins (a, a = p, q / a = a = v)
        [A(1, 'a'), ('assign', [], [(2, 'a'), (3, 'a')], 'tuple'), R(10, 'a')],
        [('assign', [(10, 'b')], [(1, 'a'), (2, 'a')], 'chain'), R(11, 'a'), ('if', [], [('assign', [], [(3, 'a'), (4, 'a')], 'tuple')], [('pass',)], []), R(12, 'a')],
        # early return in a branch (C02 domain; phantom for C03 = K1)
        [('if', [], [A(1, 'x'), ('return',)], [A(2, 'x')]), R(10, 'x')],
    ]


def corpus_x():
    A = lambda d, x, reads=(): ('assign', list(reads), [(d, x)], 'plain')
    R = lambda r, x: ('expr', [(r, x)])
    IF = lambda body: ('if', [], body, [('pass',)], [])
    return [
        # F62: a binding before a conditional break, overwritten behind it, is read behind the loop
        [A(1, 'x'), ('for', [], [(2, 'y')], [A(3, 'x'), IF([('break',)]), A(4, 'x')], [('pass',)]), R(10, 'x')],
        # ... before a conditional continue, read at the top of the next trip
        [A(1, 'x'), ('while', [], [R(10, 'x'), A(2, 'x'), IF([('continue',)]), A(3, 'x')], [('pass',)], [])],
        # F62b: the exit sits in a with block, bindings follow it in the loop body
        [A(1, 'a'), ('while', [(10, 'a')], [('with', [], [(2, 'a')], [('continue',)]), A(3, 'a')], [('pass',)], [])],
        # break skips the else clause; a break in the else clause belongs to the outer loop
        [A(1, 'x'), ('for', [], [(2, 'y')], [('for', [], [(3, 'z')], [A(4, 'x'), IF([('break',)])], [A(5, 'x'), IF([('break',)]), A(6, 'x')])], [R(10, 'x')]), R(11, 'x')],
        # continue inside try/except (no finally), break inside a handler
        [A(1, 'x'), ('while', [], [('try', [A(2, 'x'), IF([('continue',)]), A(3, 'x')], [([], None, [A(4, 'x'), IF([('break',)]), A(5, 'x')])], [('pass',)], [('pass',)], True, True), R(10, 'x')], [R(11, 'x')], []), R(12, 'x')],
        # nested loops: an inner break / continue belongs to the INNER loop
        [A(1, 'x'), ('for', [], [(2, 'y')], [A(3, 'x'), ('for', [], [(4, 'z')], [A(5, 'x'), IF([('break',)]), A(6, 'x')], [('pass',)]),
                                              R(10, 'x'), A(7, 'x')], [('pass',)]), R(11, 'x')],
        [A(1, 'x'), ('while', [], [A(2, 'x'), ('while', [(10, 'x')], [A(3, 'x'), IF([('continue',)]), A(4, 'x')], [('pass',)], []),
                                   R(11, 'x'), A(5, 'x')], [R(12, 'x')], [])],
        # return in a loop body, loop-carried binding behind it
        [A(1, 'x'), ('for', [(10, 'x')], [(2, 'y')], [IF([('return',)]), A(3, 'x')], [('pass',)]), R(11, 'x')],
    ]


def corpus_trees_ext():
    """boundary programs OUTSIDE the stated domain of C02/C03 (a comprehension element reads the name its
    statement binds, defect F59): evaluated, failures reported as extended-domain failures"""
    A = lambda d, x, reads=(): ('assign', list(reads), [(d, x)], 'plain')
    R = lambda r, x: ('expr', [(r, x)])
    return [
        [A(1, 'x'), ('comp', [], None, [(10, 'x')], [(2, 'x')], 'plain', []), R(11, 'x')],
        [A(1, 'x'), ('comp', [(10, 'x')], [(11, 'x')], [(12, 'x')], [(2, 'x')], 'ann', []), R(13, 'x')],
        [('comp', [], None, [(10, 'y')], [(1, 'y')], 'walrus', []), R(11, 'y')],
        [A(1, 'a'), ('comp', [], None, [(10, 'a')], [(2, 'a')], 'with', [R(11, 'a')]), R(12, 'a')],
    ]


def analyse_program(ctx, body, scope, layout_seed='auto'):
    """Render (optionally in a varied layout, identified by its seed), analyse with supp.
    Returns (source, reads, binds, observation); the layout seed used is in obs['layout_seed']."""
    import random as _random
    if layout_seed == 'auto':
        layout_seed = ctx.rng.randrange(1 << 30) if ctx.rng.random() < 0.5 else None
    lay = _random.Random(layout_seed) if layout_seed is not None else None
    src, reads, binds = pygen.render_plain(body, scope, lay)
    obs = observe_supp(ctx, src, reads, binds)
    obs['layout_seed'] = layout_seed
    return src, reads, binds, obs


def direct_c02(obs, log):
    """C02 on one execution: every successful read's definition is listed, marked used, and the
    read is not reported undefined. Returns list of failure descriptions."""
    bad = []
    for r, v in log:
        if v is None:
            continue
        if v == -1:
            bad.append(('untagged-object', r))
            continue
        s = obs['seen'].get(r)
        if s == 'E42' or r in obs['e42']:
            bad.append(('E42 for a read that succeeds', r, v))
        elif s is None:
            bad.append(('read site not analysed', r, v))
        elif v not in s:
            bad.append(('definition %d read at %d is not among supp alternatives %r' % (v, r, s), r, v))
        if r in obs['e02']:
            bad.append(('E02 for a read that succeeds', r, v))
        if v in obs['unused']:
            bad.append(('binding %d reported unused but read at %d' % (v, r), r, v))
    return bad


def api_sample(ctx, src, reads, binds, obs, k):
    """assist / location at a few read sites must agree with the names_at observation."""
    from supp.assistant import assist, location
    proj, d = project(ctx)
    fn = os.path.join(d, 'gen_case.py')
    by_line_name = {(l, n): s for s, (l, c, n) in binds.items()}
    binds_by_pos = {(l, c): s for s, (l, c, n) in binds.items()}
    bad = []
    sites = [s for s in sorted(reads) if obs['seen'].get(s) not in (None, 'E42')]
    ctx.rng.shuffle(sites)
    for s in sites[:k]:
        l, c, name = reads[s]
        alts = obs['seen'][s]
        defined = any(a is not None for a in alts)
        try:
            prefix, props = assist(proj, src, (l, c + len(name)), fn)
        except SyntaxError:
            continue
        # C01 direction only: a visible name must be offered (the cursor sits after the name, where
        # the statement's own binding may already be in force, so the converse is not required)
        if (defined and name not in props) or prefix != name:
            bad.append(('assist', s, prefix, name in props, defined))
        try:
            locs = location(proj, src, (l, c + 1 if len(name) > 1 else c), fn)
        except SyntaxError:
            continue
        except Exception:
            # a crash of location (e.g. F17: an alternative that resolves to a runtime object) is
            # C08's business; it is counted, not judged here
            ctx.histogram('location_crash_skipped', 1)
            continue
        flat = []
        for x in locs:
            flat.extend(x if isinstance(x, list) else [x])
        got = set()
        for x in flat:
            if x['file'] == fn:
                # alternatives are identified by (line, name)
                # the reported position must be exactly a binding site of the program
                got.add(binds_by_pos.get(tuple(x['loc']), ('?', tuple(x['loc']))))
        want = set(a for a in alts if a is not None)
        if got != want:
            bad.append(('location', s, sorted(map(str, got)), sorted(want)))
    return bad

T_IMPL = 'cmd * list (N * list alt) * list N * list N'
T_REF = 'cmd * list nat * trace'


def guarded_cases(ctx, imports, prelude, fn, terms, shard, case_type, key):
    """ctx.run_cases with a cost guard: the model's environments are closures, so a rare program (deeply
    nested loops around try/finally) costs minutes to evaluate. When a shard exceeds its time budget the
    cases are re-run in chunks of 10 and then singly; a single case that still exceeds 10 s (+ one retry
    with 40 s) is skipped and counted in coverage[<key>_cases_skipped_for_cost] - never reported."""
    try:
        return ctx.run_cases(imports, prelude, fn, terms, case_type=case_type, shard=shard, timeout=60)
    except RuntimeError as e:
        if 'rc=124' not in str(e):
            raise
    bad, skipped = [], 0
    for off in range(0, len(terms), 10):
        chunk = terms[off:off + 10]
        try:
            bad += [off + i for i in ctx.run_cases(imports, prelude, fn, chunk, case_type=case_type, shard=10, timeout=25)]
        except RuntimeError as e:
            if 'rc=124' not in str(e):
                raise
            for j, t in enumerate(chunk):
                try:
                    bad += [off + j for _ in ctx.run_cases(imports, prelude, fn, [t], case_type=case_type, shard=1, timeout=10)]
                except RuntimeError as e2:
                    if 'rc=124' not in str(e2):
                        raise
                    skipped += 1
                    ctx.__dict__.setdefault('skipped_idx', {}).setdefault((key, fn), []).append(off + j)
    ctx.coverage[key + '_cases_skipped_for_cost'] = ctx.coverage.get(key + '_cases_skipped_for_cost', 0) + skipped
    return sorted(bad)
