"""C12 - completion contract: exact prefix, clean sorted proposals, transparent cursor.

Decided by: Coq theorems C12_* (Props/C12.v) on Model/Assist.v + Model/Text.v, plus
(I)  the model evaluated inside Coq (vm_compute) on what supp.assistant.assist has just returned:
       prefix_of line col          == returned prefix          (ASCII lines)
       id_suffix / prefix_split / from_prefix_asis == independent Python references (ties the
                                   reference and the as-is models to Python's str/re semantics)
       clean_proposalsb proposals  (sorted, duplicate free, no mark: recogniser proved sound)
       proposals(names_at own pk q) == returned proposals, with own/pk dumped from the UNMARKED
                                   analysis, and  own(marked analysis) == map shift own(unmarked)
(D)  the direct evaluator (no model): prefix == longest identifier run left of the cursor;
     proposals strictly sorted and mark free; proposals == names the analysis of the unmarked
     source makes visible at the cursor (bare names) / attributes it gives `expr` (attribute access).
Inputs: systematic small programs (every preceding character class x expression x cursor offset x
enclosing construct), import lines, real stdlib/repo files.
"""
import ast
import builtins
import json
import os
import re
import signal
from concurrent.futures import ProcessPoolExecutor

from common import coq_list, coq_nat, stdlib_files, NCPU, VERIF, REPO

LEVEL = 'proof'
ASSUMPTIONS = [
    'cursor positions are (line, column) with lines numbered as the tokenizer / ast number them (breaks at \\n, \\r\\n, \\r only; F34) and columns in code points',
    'identifier character = XID_Continue as tested by str.isidentifier; the Coq model is_id_char is its ASCII restriction, so (I) on the prefix runs on ASCII lines only, non-ASCII lines go through the direct evaluator',
    'that splicing the mark into an identifier keeps the text parseable to the same tree shape is a fact about the CPython parser: checked per position by (I)/(D) (two analyses), not proved',
    'Flow.parent_names depends on no location (scope.py:83-123): modelled as an opaque key list dumped from the real flow',
    'crashes of assist (SyntaxError on unparsable marked text, AttributeError ...) belong to C08: counted in the evidence, not reported here',
]

MARK = '__supp_mark__'


def split_lines(text):
    """lines as the tokenizer / ast number them (str.splitlines also breaks at \\f, \\v, \\x1c-\\x1e, ...)"""
    lines = re.split('\r\n|\r|\n', text)
    if len(lines) > 1 and not lines[-1]:
        lines.pop()
    return lines


# ------------------------------------------------------------------------------------------
# independent references (Python side)
# ------------------------------------------------------------------------------------------

def is_id_char(c):
    return ('_' + c).isidentifier()


def id_suffix_ref(text):
    """the contract: longest run of identifier characters at the end of text (scan from the left,
    deliberately not the loop the fix uses)"""
    start = 0
    for i, c in enumerate(text):
        if not is_id_char(c):
            start = i + 1
    return text[start:]


def split_asis(text):
    return re.split(r'(\.|\s|\()', text)[-1]


def from_asis(text):
    return text.rpartition(' ')[2].rpartition('.')[2]


def strictly_sorted(lst):
    return all(a < b for a, b in zip(lst, lst[1:]))


def prev_class(text):
    """class of the character before the identifier run left of the cursor"""
    run = id_suffix_ref(text)
    pre = text[:len(text) - len(run)]
    if not pre:
        return 'start'
    c = pre[-1]
    if c == ' ':
        return 'space'
    if c.isspace():
        return 'otherws'
    if c in '.([{,=:;@':
        return c
    if c in '+-*/%<>!&|^~':
        return 'operator'
    if c in '"\'':
        return 'quote'
    if c == '#':
        return '#'
    if ord(c) > 127:
        return 'nonascii'
    return 'other'


# ------------------------------------------------------------------------------------------
# worker: run the real code on one source and a list of cursor targets
# ------------------------------------------------------------------------------------------

class _Timeout(Exception):
    pass


def _alarm(_sig, _frm):
    raise _Timeout()


def _unmarked_analysis(text, filename, project):
    from supp.util import Source
    from supp.nast import extract_scope
    src = Source(text, filename)
    scope = extract_scope(src, project)
    names = {}
    attrs = {}
    for node in ast.walk(src.tree):
        if isinstance(node, ast.Name):
            names[(node.lineno, node.col_offset)] = node
        elif isinstance(node, ast.Attribute):
            attrs[(node.end_lineno, node.end_col_offset)] = node
    return src, scope, names, attrs


def _own(flow):
    """binding list of a flow: (name, line, col) in list order. Reads the private Flow._names."""
    return [(n.name, n.location[0], n.location[1]) for n in flow._names]


def _expect(r, t, text, filename, project, dump):
    """fill r['exp'] (+ flow dumps) from a FRESH analysis of the unmarked source"""
    from supp.evaluator import EvalCtx
    from supp.util import Source, get_marked_name
    from supp.nast import extract_scope
    ln, col = t['ln'], t['col']
    try:
        _src_u, _scope_u, names_u, attrs_u = _unmarked_analysis(text, filename, project)
    except (_Timeout, RecursionError):
        raise
    except Exception as e:
        r['exp_exc'] = 'unmarked:' + type(e).__name__
        return
    if t['kind'] == 'name':
        node = names_u.get((ln, t['start']))
        if node is None or node.id != t['ident'] or not isinstance(node.ctx, ast.Load):
            r['exp_exc'] = 'no-load-node'
            return
        flow = getattr(node, 'flow', None)
        if flow is None:
            r['exp_exc'] = 'no-flow'      # F8/F9 class of defects (C01/C08)
            return
        r['exp'] = sorted(flow.names_at((ln, col)))
        r['exp_kind'] = 'names'
        if dump:
            try:
                r['own_u'] = _own(flow)
                r['pk'] = sorted(flow.parent_names)
                src_m = Source(text, filename, (ln, col))
                extract_scope(src_m, project)
                mn = get_marked_name(src_m.tree)
                r['own_m'] = _own(mn.flow) if mn is not None else None
            except (_Timeout, RecursionError):
                raise
            except Exception as e:
                r['own_u'] = r['own_m'] = r['pk'] = None
                r['dump_exc'] = type(e).__name__
    else:
        node = attrs_u.get((ln, t['start'] + len(t['ident'])))
        if node is None or node.attr != t['ident']:
            r['exp_exc'] = 'no-attr-node'
            return
        ectx = EvalCtx(project)
        value = ectx.evaluate(node.value)
        r['exp'] = sorted(value.attr_list(ectx)) if value else []
        r['exp_kind'] = 'attrs' if isinstance(node.ctx, ast.Load) else 'attrs_store'


def analyse_source(job):
    """job = dict(tag, text, filename, targets=[dict(kind, ln, start, ident, col, ctx)], dump=bool)
    returns list of result dicts, one per target (same order)."""
    import supp  # noqa
    real = os.path.dirname(os.path.dirname(os.path.abspath(supp.__file__)))
    if os.path.realpath(real) != os.path.realpath(REPO):
        raise RuntimeError('worker imported supp from %s' % real)
    import logging
    logging.disable(logging.CRITICAL)
    from supp.assistant import assist
    from supp.project import Project

    text = job['text']
    filename = job.get('filename')
    if job.get('relfile'):
        make_tree(job['root'])
        filename = os.path.join(job['root'], job['relfile'])
    project = Project([job['root']])
    lines = split_lines(text)
    out = []
    signal.signal(signal.SIGALRM, _alarm)
    for t in job['targets']:
        ln, col = t['ln'], t['col']
        r = {'ln': ln, 'col': col, 'kind': t['kind'], 'ident': t['ident'], 'start': t['start'],
             'ctx': t.get('ctx'), 'line': lines[ln - 1] if ln <= len(lines) else '',
             'prefix': None, 'props': None, 'exc': None, 'exp': None, 'exp_kind': None,
             'own_u': None, 'own_m': None, 'pk': None, 'exp_exc': None,
             'must_return': bool(t.get('must_return')), 'package': t.get('package'), 'known': t.get('known'),
             'ext': bool(t.get('ext')), 'exp_recorded': None}
        out.append(r)
        signal.alarm(job.get('timeout', 20))
        try:
            p, props = assist(project, text, (ln, col), filename)
            r['prefix'], r['props'] = p, list(props)
        except _Timeout:
            r['exc'] = 'Timeout'
        except RecursionError:
            r['exc'] = 'RecursionError'
        except Exception as e:  # C08 territory; recorded
            r['exc'] = type(e).__name__
        finally:
            signal.alarm(0)
        if not r['exc'] and t.get('package') is not None:
            # what the package listing gives for the package the path left of the cursor names
            # (independent of the branch selection inside assist)
            signal.alarm(job.get('timeout', 20))
            try:
                from supp import assistant as _as
                r['exp'] = list(_as.list_packages(project, t['package'], filename))
                r['exp_kind'] = 'packages'
            except _Timeout:
                r['exp_exc'] = 'Timeout'
            except Exception as e:
                r['exp_exc'] = 'list_packages:' + type(e).__name__
            finally:
                signal.alarm(0)
        if not r['exc'] and t.get('from_module') is not None:
            # `from M import na|me`: the listing of M merged with the attributes of the module M
            signal.alarm(job.get('timeout', 20))
            try:
                from supp import assistant as _as
                from supp.evaluator import EvalCtx as _E
                lst = set(_as.list_packages(project, t['from_module'], filename))
                try:
                    lst |= set(project.get_nmodule(t['from_module'], filename).attr_list(_E(project)))
                except ImportError:
                    pass
                r['exp'] = sorted(lst)
                r['exp_kind'] = 'packages'
                r['package'] = t['from_module']
                if t.get('ext'):
                    # recorded behaviour of the unchanged tree for `from M import(na|me)` / `from M import<TAB>na|me`
                    # (notes/C12.md, round 5): the textual shortcut answers with the top-level listing
                    r['exp_recorded'] = sorted(_as.list_packages(project, '', filename))
            except _Timeout:
                r['exp_exc'] = 'Timeout'
            except Exception as e:
                r['exp_exc'] = 'from_module:' + type(e).__name__
            finally:
                signal.alarm(0)
        if r['exc'] or t['kind'] not in ('name', 'attr'):
            continue
        # ---- expected answer from the analysis of the UNMARKED source --------------------
        # Every comparison uses fresh analysis state on the unmarked side (a new scope per position): supp
        # caches attribute tables on scope objects, and a table first computed re-entrantly stays partial
        # (order dependence, C04/C09 - see notes/C12.md), which must not be mistaken for an effect of the mark.
        signal.alarm(job.get('timeout', 20))
        try:
            _expect(r, t, text, filename, project, job.get('dump'))
            if any(w == 'transparency' for w, _d in direct_failures(r)):
                # confirm with completely fresh state on both sides (new Project each)
                r2 = dict(r, exp=None, exp_kind=None, exp_exc=None)
                p2, props2 = assist(Project([job['root']]), text, (ln, col), filename)
                r2['prefix'], r2['props'] = p2, list(props2)
                _expect(r2, t, text, filename, Project([job['root']]), False)
                if not any(w == 'transparency' for w, _d in direct_failures(r2)):
                    r2['state_dependent'] = {'first_props': len(r['props']), 'first_exp': None if r['exp'] is None else len(r['exp'])}
                    r2['own_u'] = r2['own_m'] = r2['pk'] = None
                    r.update(r2)
        except _Timeout:
            r['exp_exc'] = 'Timeout'
        except RecursionError:
            r['exp_exc'] = 'RecursionError'
        except Exception as e:
            r['exp_exc'] = type(e).__name__
        finally:
            signal.alarm(0)
    return out


# ------------------------------------------------------------------------------------------
# direct evaluator of the property on one result
# ------------------------------------------------------------------------------------------

def direct_failures(r):
    """list of (what, detail) for one worker result; empty = the contract holds on this input"""
    bad = []
    if r.get('twin_diff'):
        bad.append(('twin', r['twin_diff']))
    if r['exc']:
        if r.get('must_return'):
            # a half-typed `from` line / an import of an existing module: assist has to answer
            bad.append(('no-return', 'assist raised %s instead of returning (prefix, proposals); text left of the cursor %r'
                        % (r['exc'], r['line'][:r['col']][-40:])))
        return bad
    left = r['line'][:r['col']]
    want = id_suffix_ref(left)
    if r['prefix'] != want:
        bad.append(('prefix', 'prefix %r, expected %r (text left of the cursor %r)' % (r['prefix'], want, left[-30:])))
    props = r['props']
    if not strictly_sorted(props):
        bad.append(('order', 'proposals not strictly sorted / duplicate'))
    leaked = [p for p in props if MARK in p]
    if leaked:
        bad.append(('mark', 'proposals contain the cursor mark: %r' % leaked[:3]))
    nonid = [p for p in props if not isinstance(p, str)]
    if nonid:
        bad.append(('type', 'non-string proposals %r' % nonid[:3]))
    if r['exp'] is not None:
        got, exp = set(props), set(r['exp'])
        if r['exp_kind'] == 'packages' and r.get('ext') and r.get('exp_recorded') is not None \
                and list(props) != sorted(exp) and list(props) == r['exp_recorded']:
            r['known_observation'] = True      # standing, understood observation: counted, not printed
            return bad
        if r['exp_kind'] == 'packages':
            ok = list(props) == sorted(exp) and (r.get('known') is None or set(r['known']) <= got)
            if not ok:
                bad.append(('packages', 'proposals differ from the listing of package %r: %r more / %r less; required %r'
                            % (r.get('package'), sorted(got - exp)[:5], sorted(exp - got)[:5], r.get('known'))))
            return bad
        if r['exp_kind'] == 'attrs_store':
            # the attribute being assigned under the cursor is not a declaration of itself
            # (pinned behaviour of `location`, tests/test_assistant_location.py): it may be absent
            ok = got <= exp and (exp - got) <= {r['ident']}
        else:
            ok = got == exp
        if not ok:
            bad.append(('transparency', '%s at the cursor: marked analysis proposes %r more / %r less than the unmarked analysis'
                        % (r['exp_kind'], sorted(got - exp)[:5], sorted(exp - got)[:5])))
    return bad


# ------------------------------------------------------------------------------------------
# generated programs
# ------------------------------------------------------------------------------------------

BASE = '''\
import os
import os.path as osp
from os import path, sep
foo = 1
bar = "s"
na\u00efve = 2
class Kls(object):
    attr = 1
    def meth(self):
        self.field = foo
        return self
    @property
    def nxt(self):
        return Kls()
obj = Kls()
def f(*a, **k): return obj
d = {}
'''

# {e} = the expression under test; every template parses for every expression
TEMPLATES = [
    ('start', '{e}'), ('space', 'x = {e}'), ('space', 'x = 1 if {e} else 2'), ('tab', 'x =\t{e}'),
    ('(', 'f({e})'), ('(', 'x = ({e})'), ('(', 'f(({e}, 1))'),
    ('[', 'y = [{e}]'), ('[', 'd[{e}]'), ('[', 'y = [1, 2][{e}:]'),
    ('{', 'z = {{{e}}}'), ('{', 'z = {{{e}: 1}}'),
    (',', 'f(1,{e})'), (',', 't = 1,{e}'), (',', 'y = [1,{e}]'),
    ('=', 'x={e}'), ('=', 'f(k={e})'), ('=', 'x = y ={e}'), ('=', 'def g(p={e}): pass'),
    ('operator', 'x = 1+{e}'), ('operator', 'x = 1-{e}'), ('operator', 'x = 2*{e}'), ('operator', 'x = 2/{e}'),
    ('operator', 'x = 2%{e}'), ('operator', 'x = -{e}'), ('operator', 'x = ~{e}'), ('operator', 'x = 1<{e}'),
    ('operator', 'x = 1>{e}'), ('operator', 'x = 1|{e}'), ('operator', 'x = 1&{e}'), ('operator', 'x = 1^{e}'),
    ('operator', 'x = 1!={e}'), ('operator', 'x = 1=={e}'), ('operator', 'f(*{e})'), ('operator', 'f(**{e})'),
    ('operator', 'x = 2**{e}'), ('operator', 'x = 8//{e}'), ('operator', 'x = 1>>{e}'), ('operator', 'x +={e}'),
    ('operator', 'x = 1 @{e}'), ('operator', 'def g()->{e}: pass'),
    ('@', '@{e}\ndef g(): pass'), ('@', '@f\n@{e}\nclass C: pass'),
    (':', 'x = lambda:{e}'), (':', 'y = [1, 2][0:{e}]'), (':', 'if 1:{e}'), (':', 'z = {{1:{e}}}'),
    (':', 'def g(p:{e}): pass'), (':', 'x:{e} = 1'), (':', 'for i in d:{e}'),
    (':', 'if (w:={e}): pass'),
    (';', 'x=1;{e}'),
    # a complete from-import followed by ';'-joined statements: the line starts with `from ` but the
    # package-listing shortcut must not be taken once ` import ` has been typed (C12_from_shortcut_left)
    (';', 'from os import getcwd; x = {e}'), (';', 'from os import getcwd;{e}'), (';', 'from os.path import join as jn; f({e})'),
    (';', 'from os import (getcwd, sep); y = [{e}]'), (';', 'import sys; from os import getcwd; z = {e}'),
    (';', 'from os import getcwd; from sys import argv; {e}'),
    # evaluation that may come back to the expression under the cursor (loop-carried / self-referential)
    ('selfref', 'while obj:\n    obj = {e}'), ('selfref', 'for it in d:\n    obj = {e}\nobj.attr'),
    ('selfref', 'obj.field = {e}'),
    # the receiver of a later attribute assignment is evaluated THROUGH the attribute under the cursor
    ('selfref', 'second = {e}\nsecond.label = 1'), ('selfref', 'second = {e}\nthird = second\nthird.label = 1\nsecond.other = 2'),
    # '#' inside a string literal left of the cursor is not a comment
    ('hashstr', "f('job #%s', {e})"), ('hashstr', "x = d.get(1, '#000000') or {e}"), ('hashstr', 'x = " # no comment" + str({e})'),
    ('hashstr', "x = ['#', ' #', {e}]"), ('hashstr', 'x = f"n #{{foo}} {{{e}}}"'), ('hashstr', "x = '''a #b''' if {e} else 0"),
    ('hashstr', "f('#', {e})  # real comment after the cursor"), ('selfref', 'while obj:\n    prev = obj\n    obj = {e}\n    prev = obj'),
    ('fstring', 'x = f"{{{e}}}"'), ('fstring', 'x = f"a {{{e}!r}} b"'), ('fstring', "x = f'{{1+{e}:>3}}'"),
    ('string', 'x = "{e}"'), ('string', "x = 'see {e} here'"), ('string', 'x = "a.{e}"'), ('string', 'x = """({e}"""'),
    ('string', 'x = "=\\"{e}"'), ('string', 'x = b"{e}"'),
    ('comment', '#{e}'), ('comment', 'x = 1 # {e}'), ('comment', 'x = 1 #:{e} and more'), ('comment', 'x = 1 # a={e}'),
    ('keyword', 'x = not {e}'), ('keyword', 'x = 1 if 1 else {e}'), ('keyword', 'assert {e}'),
    ('keyword', 'del d[1], {e}'), ('keyword', 'for i in {e}: pass'), ('keyword', 'with {e} as w: pass'),
    ('keyword', 'def g():\n    return {e}'), ('keyword', 'def g():\n    yield {e}'),
    ('keyword', 'async def g():\n    await {e}'), ('keyword', 'raise {e}'), ('keyword', 'x = [i for i in {e}]'),
    ('keyword', 'x = [{e} for i in d]'), ('keyword', 'x = [i for i in d if {e}]'),
    ('keyword', 'try:\n    pass\nexcept {e}:\n    pass'), ('keyword', 'class C({e}): pass'),
    ('keyword', 'class C(object, metaclass={e}): pass'), ('keyword', 'def g(*, kw={e}): pass'),
    ('keyword', 'print({e}, file=d)'), ('keyword', 'while {e}: break'),
    ('nonascii', 'x = na\u00efve+{e}'), ('nonascii', 'x = "\u2192{e}"'), ('nonascii', 'x = 1 # \u00d7{e}'),
    ('nonascii', "x = '\u00a0{e}'"),
    ('store', '{e} = 1'), ('store', 'x = {e} = 2'), ('store', '{e}: int = 3'), ('store', '{e} += 1'),
    ('store', 'for {e} in d: pass'), ('store', 'del {e}'),
]

EXPRS = ['foo', 'bar', 'obj', 'Kls', 'os', 'osp', 'path', 'zz', 'f', 'na\u00efve',
         'obj.attr', 'obj.meth', 'obj.field', 'os.path', 'osp.join', 'os.path.join', 'bar.upper', 'Kls.attr',
         'foo.real', 'obj.meth().field', 'f().attr', 'zz.qq', 'path.sep.join', 'obj.nxt', 'obj.nxt.nxt', 'obj.meth()']

WRAPPERS = [
    ('module', '{L}'),
    ('func', 'def outer(p, q=1):\n    r = p\n{L4}\n    s = r\n'),
    ('method', 'class W(Kls):\n    cv = 1\n    def m(self, p):\n        self.own = p\n{L8}\n'),
    ('if', 'if foo:\n    u = 1\n{L4}\nelse:\n    v = 2\nw = 3\n'),
    ('loop', 'for it in d:\n    u = it\n{L4}\n    late = 1\nafter = 2\n'),
    ('try', 'try:\n    u = 1\n{L4}\nexcept Exception as err:\n    v = err\n'),
    ('before', '{L}\nlater = foo\nfoo = later\n'),
]

IMPORT_LINES = ['import {m}', 'import os, {m}', 'import {m} as alias', 'import {m}, sys', 'from {m} import path',
                'from {m} import (path, sep)', 'from os import {a}', 'from os import path, {a}', 'from os import path as p, {a}',
                'from os import (path,\n    {a})', 'from os import({a})', 'from os import\t{a}', 'from os import {a} as q',
                'from os.path import {a}', 'if foo:\n    import {m}', 'def g():\n    from os import {a}\n']
IMPORT_M = ['os', 'sys', 'os.path', 'multiprocessing.connection', 'json', 'xml.dom.minidom']
IMPORT_A = ['path', 'sep', 'getcwd', 'join']


# project tree for import completion: module names that start with / contain keyword-like text
TREE = ['importer/__init__.py', 'importer/csvfile.py', 'importer/plugins/__init__.py', 'importer/plugins/xml_in.py',
        'imports_helper.py', 'fromage.py', 'as_mod/__init__.py', 'as_mod/import_me.py', 'exporter/__init__.py',
        'exporter/csvfile.py', 'pkgx/__init__.py', 'pkgx/main.py', 'pkgx/importsib.py', 'pkgx/sub/__init__.py',
        'pkgx/sub/deep.py']
TREE_FILE = 'pkgx/sub/deep.py'          # the file being edited (so that `from .` and `from ..` resolve)

# dotted module paths typed character by character after `from `
FROM_PATHS = ['importlib.util', 'importer.plugins.xml_in', 'imports_helper', 'fromage', 'as_mod.import_me',
              'exporter.csvfile', 'os.path', 'multiprocessing.connection', '.importsib', '..importsib', '.', '..',
              'xml.dom.minidom', 'importlib.machinery', '...']
# names the listing of a package must contain (known by construction of TREE / from the stdlib)
KNOWN = {'': ['importlib', 'importer', 'imports_helper', 'fromage', 'as_mod', 'exporter', 'pkgx', 'os', 'sys'],
         'importlib': ['util', 'machinery', 'abc'], 'importer': ['csvfile', 'plugins'], 'importer.plugins': ['xml_in'],
         'as_mod': ['import_me'], 'exporter': ['csvfile'], 'multiprocessing': ['connection', 'pool'],
         'xml': ['dom', 'etree'], 'xml.dom': ['minidom'], '.': ['deep'], '..': ['importsib', 'sub', 'main']}
FROM_CONTEXTS = [('', ''), ('import os\nx = 1\n', ''), ('def g():\n', '    '), ('if 1:\n    y = 2\n', '    '),
                 ('class C:\n  def m(self):\n', '\t')]


def make_tree(root):
    for rel in TREE:
        p = os.path.join(root, rel)
        if not os.path.exists(p):
            os.makedirs(os.path.dirname(p), exist_ok=True)
            with open(p, 'w') as f:
                f.write('value = 1\n')


def from_package(path):
    """package the half-typed path names: leading dots + the completely typed components"""
    dots = path[:len(path) - len(path.lstrip('.'))]
    comps = path[len(dots):].split('.')
    return dots + '.'.join(comps[:-1]), len(comps) - 1


def gen_from_jobs(ctx, root, full):
    """half-typed `from <path>` lines (the text does not parse: the shortcut must answer), the same
    cursor inside a complete statement, and `import <path>` / `from <pkg> import <member>` statements on
    modules whose names start with / contain `import`, `from`, `as`"""
    jobs = []
    for path in FROM_PATHS:
        for k in range(0, len(path) + 1):
            typed = path[:k]
            package, _ncomp = from_package(typed)
            must = KNOWN.get(package)
            ctxs = FROM_CONTEXTS if full else [FROM_CONTEXTS[0], FROM_CONTEXTS[ctx.rng.randrange(1, len(FROM_CONTEXTS))]]
            for before, indent in ctxs:
                for spaces in ((' ', '  ') if full else (' ',)):
                    head = before + indent + 'from' + spaces + typed
                    ln = head.count('\n') + 1
                    col = len(head) - (head.rfind('\n') + 1)
                    tails = ['', '\nz = 3\n'] if full else ['']
                    rest = path[k:]
                    tails.append(rest + ' import value\n')            # the same cursor in a complete statement
                    for tail in tails:
                        ident = id_suffix_ref(typed)
                        jobs.append({'tag': 'gen', 'text': head + tail, 'filename': None, 'relfile': TREE_FILE, 'root': root,
                                     'dump': False, 'cls': 'from', 'tmpl': 'from ' + path,
                                     'targets': [{'kind': 'from', 'ln': ln, 'start': col - len(ident), 'ident': ident, 'col': col,
                                                  'ctx': 'from', 'must_return': True, 'package': package, 'known': must}]})
    # marked-import branches on the same module names
    stmts = [('import {p}', None), ('import os, {p}', None), ('import {p} as alias', None), ('from importlib import util', 'importlib'),
             ('from importer import plugins, csvfile', 'importer'), ('from importer.plugins import xml_in', 'importer.plugins'),
             ('from as_mod import import_me as im', 'as_mod'), ('def g():\n    from importer import (csvfile,\n        plugins)', 'importer')]
    for tmpl, frm in stmts:
        paths = [p for p in FROM_PATHS if not p.startswith('.')] if '{p}' in tmpl else [None]
        for path in paths:
            text = 'foo = 1\n' + (tmpl.format(p=path) if path else tmpl) + '\n'
            try:
                tree = ast.parse(text)
            except SyntaxError:
                continue
            targets = []
            for node in ast.walk(tree):
                if not isinstance(node, (ast.Import, ast.ImportFrom)):
                    continue
                for a in node.names:
                    if a.name == 'os':
                        continue
                    for m in re.finditer(r'[^\W\d]\w*', a.name):
                        comps_before = a.name[:m.start()].rstrip('.')
                        for o in range(0, len(m.group()) + 1):
                            t = {'kind': 'import', 'ln': a.lineno, 'start': a.col_offset + m.start(), 'ident': m.group(),
                                 'col': a.col_offset + m.start() + o, 'ctx': 'import-kw', 'must_return': True}
                            if isinstance(node, ast.Import):
                                t['package'] = comps_before
                            targets.append(t)
            jobs.append({'tag': 'gen', 'text': text, 'filename': None, 'relfile': TREE_FILE, 'root': root, 'dump': False,
                         'cls': 'import', 'tmpl': tmpl, 'targets': targets})
    return jobs


def _indent(s, n):
    return '\n'.join(' ' * n + l for l in s.split('\n'))


def _offsets(ctx, n, all_offsets):
    offs = list(range(0, n + 1))
    if all_offsets or n <= 2:
        return offs
    return sorted({n, ctx.rng.randint(1, n - 1), 0 if ctx.rng.random() < 0.2 else n})


def gen_program_jobs(ctx, root, full):
    """systematic product template x expression x wrapper; quick samples it"""
    combos = []
    for ti, (cls, tmpl) in enumerate(TEMPLATES):
        for e in EXPRS:
            if cls == 'store' and ('(' in e):
                continue
            if cls == 'store' and tmpl.startswith('for') and '.' in e:
                continue        # `for a.b in x` crashes the analysis (F18, C08)
            for wname, wrap in WRAPPERS:
                combos.append((cls, tmpl, e, wname, wrap))
    if not full:
        ctx.rng.shuffle(combos)
        # every template and every expression at least once, then a random sample
        seen_t, seen_e, keep, rest = set(), set(), [], []
        for c in combos:
            if c[1] not in seen_t or c[2] not in seen_e:
                keep.append(c)
                seen_t.add(c[1])
                seen_e.add(c[2])
            else:
                rest.append(c)
        combos = keep + rest[:max(0, ctx.pick(780, 0) - len(keep))]
    jobs = []
    for cls, tmpl, e, wname, wrap in combos:
        def build(expr):
            line = tmpl.format(e=expr)
            body = wrap.replace('{L4}', _indent(line, 4)).replace('{L8}', _indent(line, 8)).replace('{L}', line)
            return BASE + body + ('\n' if not body.endswith('\n') else '')
        text = build(e)
        try:
            ast.parse(text)
        except SyntaxError:
            continue
        pre = build('\x00')
        pre = pre[:pre.index('\x00')]
        ln = pre.count('\n') + 1
        col0 = len(pre) - (pre.rfind('\n') + 1)
        targets = []
        # identifier components of the expression
        for m in re.finditer(r'[^\W\d]\w*', e):
            ident = m.group()
            start = col0 + m.start()
            is_attr = m.start() > 0 and e[m.start() - 1] == '.'
            in_code = cls not in ('string', 'comment') and not (cls == 'nonascii' and ('"' in tmpl or "'" in tmpl or '#' in tmpl))
            kind = ('attr' if is_attr else 'name') if in_code else 'text'
            if cls == 'store' and not is_attr and '.' not in e:
                kind = 'store'
            if cls == 'store' and '.' in e and not is_attr:
                kind = 'name'
            for o in _offsets(ctx, len(ident), full):
                targets.append({'kind': kind, 'ln': ln, 'start': start, 'ident': ident, 'col': start + o,
                                'ctx': '%s/%s' % (cls, wname)})
        jobs.append({'tag': 'gen', 'text': text, 'filename': None, 'root': root, 'targets': targets, 'dump': True,
                     'cls': cls, 'tmpl': tmpl})
    return jobs



# enclosing constructs of an import statement ({S} = the statement, indented as needed)
NESTS = [
    ('module', '{S}'),
    ('def', 'def g(p):\n    q = p\n{S4}\n    return q'),
    ('async-def', 'async def g():\n{S4}'),
    ('class', 'class C:\n    cv = 1\n{S4}'),
    ('method', 'class C:\n    def m(self):\n{S8}'),
    ('if', 'if foo:\n{S4}\nelse:\n    pass'),
    ('else', 'if foo:\n    pass\nelif foo > 1:\n    pass\nelse:\n{S4}'),
    ('try', 'try:\n{S4}\nexcept ImportError:\n    pass'),
    ('except', 'try:\n    pass\nexcept ImportError as e:\n{S4}'),
    ('try-else', 'try:\n    pass\nexcept Exception:\n    pass\nelse:\n{S4}'),
    ('finally', 'try:\n    pass\nfinally:\n{S4}'),
    ('with', 'with open(foo) as fh:\n{S4}'),
    ('for', 'for i in foo:\n{S4}'),
    ('for-else', 'for i in foo:\n    pass\nelse:\n{S4}'),
    ('while', 'while foo:\n{S4}\n    break'),
    ('while-else', 'while foo:\n    break\nelse:\n{S4}'),
    ('match-case', 'match foo:\n    case 1:\n{S8}\n    case _:\n        pass'),
    ('match-default', 'match foo:\n    case 1:\n        pass\n    case _:\n{S8}'),
    ('deep', 'def g():\n    for i in foo:\n        try:\n            if i:\n{S16}\n        finally:\n            pass'),
    ('one-line-if', 'if foo: {S}'),
]
IMPORT_STMTS = ['import {m}', 'import os, {m}', 'import {m} as alias', 'import {m}, sys', 'from {m} import path',
                'from {m} import (path, sep)', 'from os import {a}', 'from os import path, {a}', 'from os import path as p, {a}',
                'from os import (path,\n    {a})', 'from os import({a})', 'from os import\t{a}', 'from os import {a} as q',
                'from os.path import {a}']


def gen_import_jobs(ctx, root, full):
    """import statements in every enclosing construct. The proposals of an import name do not depend on where the
    statement stands: every nested job is compared with its module-level twin, and with the package / module listing."""
    jobs = []
    for tmpl in IMPORT_STMTS:
        vals = IMPORT_M if '{m}' in tmpl else IMPORT_A
        for val in vals:
            stmt = tmpl.format(m=val, a=val)
            if '{m}' in tmpl and tmpl.startswith('from') and val not in ('os',):
                continue                       # `from sys import path` etc.: keep to modules that have the members
            nests = NESTS if full else [NESTS[0]] + ctx.rng.sample(NESTS[1:], 4)
            for nname, nest in nests:
                if '\n' in stmt and nname == 'one-line-if':
                    continue
                body = nest
                for n in (16, 8, 4):
                    body = body.replace('{S%d}' % n, _indent(stmt, n))
                body = body.replace('{S}', stmt)
                text = 'foo = 1\n' + body + '\n'
                try:
                    tree = ast.parse(text)
                except SyntaxError:
                    continue
                lines = text.split('\n')
                targets = []
                for node in ast.walk(tree):
                    if isinstance(node, ast.Import):
                        for a in node.names:
                            if a.name in ('os', 'sys') and a.name != val:
                                continue
                            for m in re.finditer(r'[^\W\d]\w*', a.name):
                                for o in range(1, len(m.group()) + 1):
                                    targets.append({'kind': 'import', 'ln': a.lineno, 'start': a.col_offset + m.start(), 'ident': m.group(),
                                                    'col': a.col_offset + m.start() + o, 'ctx': 'import/' + nname, 'must_return': True,
                                                    'package': a.name[:m.start()].rstrip('.')})
                    elif isinstance(node, ast.ImportFrom):
                        line = lines[node.lineno - 1]
                        mm = re.compile(r'from\s+').search(line, node.col_offset)
                        mstart = mm.end()
                        if '{m}' in tmpl:
                            for m in re.finditer(r'[^\W\d]\w*', node.module):
                                for o in range(1, len(m.group()) + 1):
                                    typed = node.module[:m.start() + o]
                                    targets.append({'kind': 'from', 'ln': node.lineno, 'start': mstart + m.start(), 'ident': m.group()[:o],
                                                    'col': mstart + m.start() + o, 'ctx': 'from/' + nname, 'must_return': True,
                                                    'package': from_package(typed)[0]})
                        else:
                            for a in node.names:
                                if a.name != val:
                                    continue
                                for o in range(1, len(a.name) + 1):
                                    targets.append({'kind': 'import', 'ln': a.lineno, 'start': a.col_offset, 'ident': a.name,
                                                    'col': a.col_offset + o, 'ctx': 'import/' + nname, 'must_return': True,
                                                    'from_module': '.' * node.level + (node.module or ''),
                                                    'ext': 'import(' in tmpl or 'import\t' in tmpl})
                if not targets:
                    continue
                jobs.append({'tag': 'gen', 'text': text, 'filename': None, 'root': root, 'targets': targets, 'dump': False,
                             'cls': 'import', 'tmpl': tmpl + ' @' + nname, 'twin': ('import', tmpl, val),
                             'twin_role': 'ref' if nname == 'module' else 'var'})
    return jobs


def _crlf(text, mode):
    parts = text.split('\n')
    seps = {'crlf': ['\r\n'], 'cr': ['\r'], 'mixed': ['\r\n', '\n', '\r']}[mode]
    out = []
    for i, part in enumerate(parts[:-1]):
        out.append(part + seps[i % len(seps)])
    out.append(parts[-1])
    return ''.join(out)


def line_ending_twins(ctx, jobs, n):
    """CRLF / lone CR / mixed twins of LF sources: the tokenizer and ast give identical positions, so assist must
    answer exactly as for the LF text (the mark has to land at the same (line, column))."""
    cands = [j for j in jobs if j['tag'] in ('gen', 'corpus') and '\r' not in j['text'] and '\n' in j['text']
             and 'twin' not in j and any(t['ln'] > 1 for t in j['targets'])]
    if n < len(cands):
        cands = ctx.rng.sample(cands, n)
    out = []
    for k, j in enumerate(cands):
        key = ('eol', id(j), k)
        j['twin'], j['twin_role'] = key, 'ref'
        modes = ('crlf', 'cr', 'mixed') if k % 3 == 0 else (('crlf',) if k % 3 == 1 else ('mixed',))
        for mode in modes:
            tj = dict(j, text=_crlf(j['text'], mode), dump=False, twin=key, twin_role='var', tmpl='%s [%s]' % (j['tmpl'], mode))
            tj['targets'] = [dict(t, ctx=(t.get('ctx') or '') + '/' + mode) for t in j['targets']]
            out.append(tj)
    return out


# ------------------------------------------------------------------------------------------
# real files
# ------------------------------------------------------------------------------------------

def file_job(ctx, fn, root, per_file, max_lines):
    try:
        text = open(fn, encoding='utf8').read()
    except (UnicodeDecodeError, OSError):
        return None, 'undecodable'
    if text.count('\n') > max_lines:
        return None, 'too-long'
    try:
        tree = ast.parse(text)
    except (SyntaxError, ValueError, RecursionError):
        return None, 'syntax'
    lines = split_lines(text)
    cands = []
    for node in ast.walk(tree):
        if isinstance(node, ast.Name) and isinstance(node.ctx, ast.Load):
            cands.append(('name', node.lineno, node.col_offset, node.id))
        elif isinstance(node, ast.Attribute) and node.end_lineno is not None:
            start = node.end_col_offset - len(node.attr)
            l = lines[node.end_lineno - 1]
            # col offsets are UTF-8 bytes: use ASCII-prefix lines only for exact columns
            if l[:node.end_col_offset].isascii() and l[start:node.end_col_offset] == node.attr:
                cands.append(('attr', node.end_lineno, start, node.attr))
        elif isinstance(node, (ast.Import, ast.ImportFrom)) and node.lineno == node.end_lineno:
            l = lines[node.lineno - 1]
            for a in node.names:
                if a.name == '*' or not hasattr(a, 'col_offset'):
                    continue
                for m in re.finditer(r'[^\W\d]\w*', a.name):
                    if l[:a.col_offset].isascii():
                        cands.append(('import', a.lineno, a.col_offset + m.start(), m.group()))
    good = []
    for kind, ln, start, ident in cands:
        l = lines[ln - 1]
        if not l[:start].isascii():
            continue
        if l[start:start + len(ident)] != ident:
            continue
        good.append((kind, ln, start, ident))
    if not good:
        return None, 'no-targets'
    ctx.rng.shuffle(good)
    # balance kinds
    picked = []
    per_kind = {'name': 0, 'attr': 0, 'import': 0}
    for g in good:
        lim = per_file // 2 if g[0] != 'import' else max(1, per_file // 6)
        if per_kind[g[0]] < lim:
            per_kind[g[0]] += 1
            picked.append(g)
        if len(picked) >= per_file:
            break
    targets = []
    for kind, ln, start, ident in picked:
        n = len(ident)
        offs = {n}
        if n > 1 and ctx.rng.random() < 0.5:
            offs.add(ctx.rng.randint(1, n - 1))
        for o in sorted(offs):
            targets.append({'kind': kind, 'ln': ln, 'start': start, 'ident': ident, 'col': start + o, 'ctx': 'file'})
    return {'tag': 'file', 'text': text, 'filename': fn, 'root': root, 'targets': targets, 'dump': True,
            'cls': 'file', 'tmpl': os.path.basename(fn), 'timeout': 30}, None


# ------------------------------------------------------------------------------------------
# Coq side of the correspondence
# ------------------------------------------------------------------------------------------

def chars(s):
    return '[' + ';'.join(str(ord(c)) for c in s) + ']%N'


INTERN = {}      # name -> index into the Coq-side table BI (filled per run from the observed lists)


def _plain(s):
    return s.isascii() and s.isidentifier()


def cstr(s):
    # identifiers as byte strings (UTF-8): lexicographic order on bytes = order on code points
    if _plain(s):
        return '(S "%s")' % s
    return '(L %s)' % ('[' + ';'.join(str(x) for x in s.encode('utf8')) + ']%N')


def enc_list(names):
    """Gallina term (list (list N)) for a list of identifiers, in order: runs of consecutive entries
    of the table BI as (R start count), other plain names as one blank-separated string (U "a b"),
    anything else as explicit byte lists. Coq elaborates ~10 KB of literals per second, so size matters."""
    segs = []
    i = 0
    n = len(names)
    while i < n:
        x = names[i]
        if x in INTERN:
            st = INTERN[x]
            k = 1
            while i + k < n and INTERN.get(names[i + k]) == st + k:
                k += 1
            segs.append('(R %d %d)' % (st, k))
            i += k
        elif _plain(x):
            k = 1
            while i + k < n and names[i + k] not in INTERN and _plain(names[i + k]):
                k += 1
            segs.append('(U "%s")' % ' '.join(names[i:i + k]))
            i += k
        else:
            segs.append('[%s]' % cstr(x))
            i += 1
    return '(F %s)' % coq_list(segs)


def enc_binds(lst):
    out = []
    for nme, l, c in lst:
        if _plain(nme):
            out.append('(b "%s" %d %d)' % (nme, l, c))
        else:
            out.append('(bl %s %d %d)' % ('[' + ';'.join(str(x) for x in nme.encode('utf8')) + ']%N', l, c))
    return coq_list(out)


def intern_prelude(lists):
    """names occurring in more than a third of the observed lists are written once (table BI)"""
    INTERN.clear()
    freq = {}
    for l in lists:
        for nme in l:
            freq[nme] = freq.get(nme, 0) + 1
    common = sorted(nme for nme, k in freq.items() if k * 3 > len(lists) and len(lists) >= 3 and _plain(nme))
    for i, nme in enumerate(common):
        INTERN[nme] = i
    table = 'Definition BI : list (list N) := splitw "%s" [].' % ' '.join(common) if common else 'Definition BI : list (list N) := [].'
    return PRELUDE.replace('(*BI*)', table)


PRELUDE = r'''
Fixpoint codes (s : string) : list N :=
  match s with EmptyString => [] | String a r => N_of_ascii a :: codes r end.
Definition S (s : string) : list N := codes s.
Definition L (l : list N) : list N := l.
(* names separated by single blanks *)
Fixpoint splitw (s : string) (acc : list N) : list (list N) :=
  match s with
  | EmptyString => [rev acc]
  | String a r => if Ascii.eqb a " "%char then rev acc :: splitw r [] else splitw r (N_of_ascii a :: acc)
  end.
Definition U (s : string) : list (list N) := splitw s [].
(*BI*)
Definition R (i n : nat) : list (list N) := firstn n (skipn i BI).
Definition F (l : list (list (list N))) : list (list N) := List.concat l.
Definition b (s : string) (l c : N) : list N * (N * N) := (codes s, (l, c)).
Definition bl (s : list N) (l c : N) : list N * (N * N) := (s, (l, c)).
Fixpoint leqb (a b : list N) : bool :=
  match a, b with [], [] => true | x :: a', y :: b' => N.eqb x y && leqb a' b' | _, _ => false end.
Fixpoint lleqb (a b : list (list N)) : bool :=
  match a, b with [], [] => true | x :: a', y :: b' => leqb x y && lleqb a' b' | _, _ => false end.

(* prefix case: (line, col, returned prefix, reference run, re.split(...)[-1], from-branch as-is) *)
Definition check_prefix (c : list N * nat * list N * list N * list N * list N) : bool :=
  match c with
  | (line, col, obs, ref, spl, frm) =>
      let left := firstn col line in
      leqb (prefix_of line col) obs && leqb (id_suffix left) ref &&
      leqb (prefix_asis line col) spl && leqb (from_prefix_asis left) frm &&
      (negb (dotted_tail left) || leqb frm ref)
  end.

(* branch case: (text left of the cursor, assist answered with the package listing) *)
Definition check_branch (c : list N * bool) : bool := Bool.eqb (from_branch (fst c)) (snd c).

(* proposals case: observed list is clean (sorted, duplicate free, unmarked) *)
Definition check_clean (c : list (list N)) : bool := clean_proposalsb c.

Definition mk (b : list N * (N * N)) : bind := mkBind (fst b) (snd b).
Fixpoint bindseqb (a b : list bind) : bool :=
  match a, b with
  | [], [] => true
  | x :: a', y :: b' => leqb (bname x) (bname y) && N.eqb (fst (bloc x)) (fst (bloc y)) &&
                        N.eqb (snd (bloc x)) (snd (bloc y)) && bindseqb a' b'
  | _, _ => false
  end.
(* transparency case: (own unmarked, own marked, parent keys, (ln, col), cursor after >= 1
   identifier character, observed proposals) *)
Definition check_transparent
  (c : list (list N * (N * N)) * list (list N * (N * N)) * list (list N) * (N * N) * bool * list (list N)) : bool :=
  match c with
  | (ou, om, pk, (ln, col), strict, obs) =>
      let own := List.map mk ou in
      let own' := List.map mk om in
      (* the splice moves the binding locations as modelled (cursor inside / at the end of a name) *)
      (negb strict || bindseqb (List.map (shift_bind (shift_pos ln col mark_len)) own) own') &&
      (* hypothesis of C12_lookup_pointwise_invariant holds between the two real analyses *)
      agreeb (ln, col) (ln, col) own own' &&
      (* the model of names_at + proposals reproduces what assist returned, from either analysis *)
      match names_at own pk (ln, col) with
      | Some ks => lleqb (proposals ks) obs
      | None => false
      end &&
      match names_at own' pk (ln, col) with
      | Some ks => lleqb (proposals ks) obs
      | None => false
      end
  end.
'''


def prefix_term(r):
    line = r['line']
    left = line[:r['col']]
    return '(%s, %s, %s, %s, %s, %s)' % (chars(line), coq_nat(r['col']), chars(r['prefix']), chars(id_suffix_ref(left)),
                                         chars(split_asis(left)), chars(from_asis(left)))


def transparent_term(r):
    strict = 'true' if r['col'] > r['start'] else 'false'
    return '(%s, %s, %s, (%d%%N, %d%%N), %s, %s)' % (enc_binds(r['own_u']), enc_binds(r['own_m']), enc_list(r['pk']),
                                                      r['ln'], r['col'], strict, enc_list(r['props']))


# ------------------------------------------------------------------------------------------
# driver
# ------------------------------------------------------------------------------------------

def load_corpus():
    d = os.path.join(VERIF, 'corpus', 'C12')
    res = []
    if os.path.isdir(d):
        for f in sorted(os.listdir(d)):
            if f.endswith('.json'):
                obj = json.load(open(os.path.join(d, f)))
                for c in (obj if isinstance(obj, list) else [obj]):
                    c['_file'] = f
                    res.append(c)
    return res


def corpus_jobs(root):
    jobs = []
    for c in load_corpus():
        text = c['source']
        ln, col = c['position']
        tl = split_lines(text)
        line = tl[ln - 1] if ln <= len(tl) else ''
        left = line[:col]
        ident_l = id_suffix_ref(left)
        m = re.match(r'\w*', line[col:])
        ident = ident_l + (m.group() if m else '')
        tgt = {'kind': c.get('kind', 'text'), 'ln': ln, 'start': col - len(ident_l), 'ident': ident,
               'col': col, 'ctx': 'corpus/' + c.get('note', '')[:40]}
        for k in ('must_return', 'package', 'known'):
            if k in c:
                tgt[k] = c[k]
        jobs.append({'tag': 'corpus', 'text': text, 'filename': None, 'relfile': c.get('relfile'), 'root': root, 'dump': True,
                     'cls': 'corpus', 'tmpl': c['_file'], 'targets': [tgt]})
    return jobs


def run_jobs(jobs, parallel=True):
    if not jobs:
        return []
    if not parallel:
        return [analyse_source(j) for j in jobs]
    import multiprocessing
    mp = multiprocessing.get_context('fork')
    with ProcessPoolExecutor(max_workers=min(NCPU, 16), mp_context=mp) as ex:
        # bounded: a worker that hangs past the per-call alarms ends the check with a harness VIOLATION
        return list(ex.map(analyse_source, jobs, chunksize=max(1, len(jobs) // (NCPU * 8)), timeout=3000))


def run(ctx):
    proof_ok = ctx.coq_props()
    cov = ctx.coverage
    cov['rule'] = ('cases = (source, cursor) pairs: corpus, then the product preceding-character-class template x '
                   'expression x enclosing construct x cursor offset (quick: every template and expression at least once '
                   '+ random sample; thorough: full product, every offset), import lines, and cursors at the end of / inside '
                   'sampled name reads, attribute accesses and import names of real stdlib/repo files. The real assist() is run '
                   'on each; (D) compares with independent references and with the analysis of the UNMARKED source; (I) evaluates '
                   'the Coq model on the same inputs/outputs. non-trivial = assist returned normally and the cursor is preceded by '
                   'at least one identifier character or a transparency expectation was available')
    root = os.path.join(ctx.scratch, 'proj')
    os.makedirs(root)
    full = ctx.thorough()

    jobs = corpus_jobs(root)
    ncorpus = len(jobs)
    jobs += gen_program_jobs(ctx, root, full)
    make_tree(root)
    fjobs = gen_from_jobs(ctx, root, full)
    jobs += fjobs
    jobs += gen_import_jobs(ctx, root, full)
    jobs += line_ending_twins(ctx, jobs, ctx.pick(60, 1500))
    cov['from_branch_positions'] = sum(1 for j in fjobs for t in j['targets'] if t['kind'] == 'from')
    nfiles = ctx.pick(24, 100000)
    files = stdlib_files(limit=nfiles, rng=ctx.rng)
    skipped = {}
    for fn in files:
        j, why = file_job(ctx, fn, root, ctx.pick(10, 40), ctx.pick(1500, 6000))
        if j is None:
            skipped[why] = skipped.get(why, 0) + 1
        else:
            jobs.append(j)
    cov['files_skipped'] = skipped
    cov['jobs'] = {'corpus': ncorpus, 'generated': sum(1 for j in jobs if j['tag'] == 'gen'),
                   'files': sum(1 for j in jobs if j['tag'] == 'file')}
    ctx.log('running assist on %d sources (%d cursor positions)' % (len(jobs), sum(len(j['targets']) for j in jobs)))
    results = run_jobs(jobs)
    ctx.log('real code done')

    # ---- twins: same statement in another enclosing construct / same text with other line endings ----------
    refs = {}
    for j, rs in zip(jobs, results):
        if j.get('twin_role') == 'ref':
            refs[j['twin']] = rs
    ntwin = 0
    for j, rs in zip(jobs, results):
        if j.get('twin_role') != 'var' or j['twin'] not in refs:
            continue
        for r, r0 in zip(rs, refs[j['twin']]):
            ntwin += 1
            if r.get('ext') and (r['exc'], r['prefix']) == (r0['exc'], r0['prefix']):
                continue    # layouts with a recorded shortcut observation: judged against exp / exp_recorded below
            if (r['exc'], r['prefix'], r['props']) != (r0['exc'], r0['prefix'], r0['props']):
                r['twin_diff'] = ('answer differs from the %s twin: %s / prefix %r / %s proposals, twin %s / %r / %s'
                                  % ('module-level' if j['twin'][0] == 'import' else 'LF', r['exc'], r['prefix'],
                                     None if r['props'] is None else len(r['props']), r0['exc'], r0['prefix'],
                                     None if r0['props'] is None else len(r0['props'])))
    cov['twin_comparisons'] = ntwin

    # ---- (D) direct evaluation -----------------------------------------------------------
    nviol = 0
    per_class = {}
    flat = []
    for j, rs in zip(jobs, results):
        for r in rs:
            flat.append((j, r))
            if r['exc']:
                ctx.histogram('assist_exceptions', '%s/%s' % (r['exc'], r['kind']))
                ctx.count((j['text'], r['ln'], r['col']), nontrivial=bool(r.get('must_return')))
                if not r.get('must_return') and not r.get('twin_diff'):
                    continue
            left = r['line'][:r['col']]
            if not r['exc']:
                nontriv = bool(id_suffix_ref(left)) or r['exp'] is not None
                ctx.count((j['text'], r['ln'], r['col']), nontrivial=nontriv)
            ctx.histogram('preceding_class', prev_class(left))
            ctx.histogram('cursor_kind', r['kind'] + ('/end' if r['col'] == r['start'] + len(r['ident']) else '/inside'))
            ctx.histogram('source_kind', j['tag'])
            if r['exp'] is not None:
                ctx.histogram('transparency_checked', r['exp_kind'])
            elif r['exp_exc']:
                ctx.histogram('transparency_unavailable', r['exp_exc'])
            if r.get('state_dependent'):
                ctx.histogram('state_dependent_mismatches', r['kind'])
                sd = cov.setdefault('state_dependent_samples', [])
                if len(sd) < 5:
                    sd.append({'file': j['filename'], 'position': [r['ln'], r['col']], 'line': r['line'][:80]})
            bad = direct_failures(r)
            if r.get('known_observation'):
                cov['known_extension_observations'] = cov.get('known_extension_observations', 0) + 1
            if bad:
                nviol += 1
                cls_key = '+'.join(sorted({w for w, _d in bad}))
                per_class[cls_key] = per_class.get(cls_key, 0) + 1
                in_domain = r['col'] > r['start'] and r['kind'] != 'store' and not r.get('ext')
                what = 'assist at %r of %s: %s' % ((r['ln'], r['col']), j['tmpl'] if j['tag'] != 'gen' else repr(r['line']),
                                                   '; '.join(d for _w, d in bad))
                rep = {'kind': 'direct', 'source': j['text'] if j['tag'] != 'file' else None,
                       'file': j['filename'], 'position': [r['ln'], r['col']], 'target_kind': r['kind'],
                       'ident': r['ident'], 'start': r['start'], 'failures': bad, 'relfile': j.get('relfile'),
                       'must_return': r.get('must_return'), 'package': r.get('package'), 'known': r.get('known')}
                if not in_domain:
                    # cursor before the first character of the identifier / on a name being bound: outside the
                    # quantifier "at the end of, and inside, every name read, attribute access and import name"
                    next_ext = cov.get('extension_failures', 0) + 1
                    cov['extension_failures'] = next_ext
                    nviol -= 1
                    per_class[cls_key] -= 1
                    if next_ext <= 8:
                        ctx.extension_failure(what, rep)
                elif per_class[cls_key] <= 4:
                    ctx.violation(what, rep)
    cov['direct_failures'] = nviol
    cov['direct_failure_classes'] = per_class
    total = len(flat)
    crashed = sum(1 for _j, r in flat if r['exc'])
    cov['positions'] = total
    cov['positions_crashed'] = crashed
    for j, r in flat[:3] + [x for x in flat if x[0]['tag'] == 'file'][:3]:
        ctx.sample({'line': r['line'][:80], 'position': [r['ln'], r['col']], 'kind': r['kind'], 'prefix': r['prefix'],
                    'n_proposals': None if r['props'] is None else len(r['props']), 'exception': r['exc']})
    timeouts = sum(1 for _j, r in flat if r['exc'] == 'Timeout' or r.get('exp_exc') == 'Timeout')
    cov['positions_timed_out'] = timeouts
    if total and timeouts > max(5, 0.02 * total):
        ctx.violation('%d of %d cursor positions ran into the per-call time limit: assist or the analysis hangs' % (timeouts, total),
                      {'kind': 'timeouts', 'count': timeouts}, found_input=False)
    if total and crashed > 0.35 * total:
        ctx.violation('assist raised on %d of %d cursor positions: the contract cannot be evaluated' % (crashed, total),
                      {'kind': 'crashes', 'histogram': cov.get('assist_exceptions')}, found_input=False)

    # ---- (I) correspondence inside Coq -------------------------------------------------------
    ok_res = [(j, r) for j, r in flat if not r['exc']]
    pterms, pkeep, seen = [], [], set()
    for j, r in ok_res:
        if not r['line'].isascii() or not r['prefix'].isascii() or len(r['line']) > 300:
            continue
        key = (r['line'], r['col'], r['prefix'])
        if key in seen:
            continue
        seen.add(key)
        pterms.append(prefix_term(r))
        pkeep.append((j, r))
    cap = ctx.pick(2000, 40000)
    if len(pterms) > cap:
        idx = sorted(ctx.rng.sample(range(len(pterms)), cap))
        pterms = [pterms[i] for i in idx]
        pkeep = [pkeep[i] for i in idx]
    cterms, ckeep, seen = [], [], set()
    for j, r in ok_res:
        key = tuple(r['props'])
        if key in seen:
            continue
        seen.add(key)
        cterms.append(r)
        ckeep.append((j, r))
    cap = ctx.pick(250, 3000)
    if len(cterms) > cap:
        idx = sorted(ctx.rng.sample(range(len(cterms)), cap))
        cterms = [cterms[i] for i in idx]
        ckeep = [ckeep[i] for i in idx]
    tterms, tkeep = [], []
    for j, r in ok_res:
        if r['own_u'] is not None and r['own_m'] is not None and r['pk'] is not None and len(r['own_u']) <= 400:
            tterms.append(r)
            tkeep.append((j, r))
    cap = ctx.pick(250, 3000)
    if len(tterms) > cap:
        idx = sorted(ctx.rng.sample(range(len(tterms)), cap))
        tterms = [tterms[i] for i in idx]
        tkeep = [tkeep[i] for i in idx]
    ndump_fail = sum(1 for _j, r in ok_res if r.get('dump_exc'))
    cov['correspondence_cases'] = {'prefix': len(pterms), 'clean_proposals': len(cterms), 'transparency': len(tterms),
                                   'flow_dump_failed': ndump_fail}
    imports = ['Model.Text', 'Model.Assist']
    prelude = intern_prelude([r['props'] for _j, r in ok_res])
    cov['interned_names'] = len(INTERN)
    ctx.log('coq correspondence: %d prefix, %d proposal lists, %d transparency cases' % (len(pterms), len(cterms), len(tterms)))
    cterms = [enc_list(r['props']) for r in cterms]
    tterms = [transparent_term(r) for r in tterms]
    def shard_of(terms):
        # Coq elaborates roughly 10 KB of literals per second: keep shards below ~50 KB, use all cores
        total = sum(len(t) for t in terms)
        nshards = max(NCPU, total // 50000 + 1)
        return max(1, -(-len(terms) // nshards))
    budget = ctx.pick(700000, 12000000)
    acc, cut = 0, len(tterms)
    for i, t in enumerate(tterms):
        acc += len(t)
        if acc > budget:
            cut = i
            break
    tterms, tkeep = tterms[:cut], tkeep[:cut]
    cov['correspondence_cases']['transparency'] = len(tterms)
    cov['correspondence_chars'] = {'prefix': sum(map(len, pterms)), 'clean_proposals': sum(map(len, cterms)),
                                   'transparency': sum(map(len, tterms))}
    bterms, bkeep, seen = [], [], set()
    for j, r in flat:
        if r['kind'] != 'from' or not r['line'].isascii():
            continue
        try:
            ast.parse(j['text'])
            continue        # a complete statement: the marked-import branch gives the same answer, nothing to observe
        except (SyntaxError, ValueError):
            pass
        left = r['line'][:r['col']]
        took = (not r['exc']) and r['exp'] is not None and list(r['props']) == sorted(r['exp'])
        if (left, took) in seen:
            continue
        seen.add((left, took))
        bterms.append('(%s, %s)' % (chars(left), 'true' if took else 'false'))
        bkeep.append((j, r))
    for j, r in ok_res:
        left = r['line'][:r['col']]
        if r['kind'] in ('name', 'attr') and r['exp'] is not None and left.lstrip().startswith('from ') and r['line'].isascii():
            # answered with the names / attributes of the analysis, i.e. the shortcut was not taken
            took = any(w == 'transparency' for w, _d in direct_failures(r))
            if (left, took) not in seen:
                seen.add((left, took))
                bterms.append('(%s, %s)' % (chars(left), 'true' if took else 'false'))
                bkeep.append((j, r))
    cov['correspondence_cases']['from_branch'] = len(bterms)
    bad_b = ctx.run_cases(imports, prelude, 'check_branch', bterms, shard=shard_of(bterms))
    cov['from_branch_disagreements'] = len(bad_b)
    bad_p = ctx.run_cases(imports, prelude, 'check_prefix', pterms, shard=shard_of(pterms))
    ctx.log('prefix cases done')
    bad_c = ctx.run_cases(imports, prelude, 'check_clean', cterms, shard=shard_of(cterms))
    ctx.log('proposal lists done')
    bad_t = ctx.run_cases(imports, prelude, 'check_transparent', tterms, shard=shard_of(tterms))
    ctx.log('transparency cases done')
    cov['correspondence_disagreements'] = {'prefix': len(bad_p), 'clean_proposals': len(bad_c), 'transparency': len(bad_t)}
    if ok_res and tkeep == [] and any(r['exp_kind'] == 'names' for _j, r in ok_res):
        ctx.violation('could not dump Flow._names / parent_names from the real analysis (private attributes changed?): '
                      'the tie between Model.Assist.names_at and scope.Flow.names_at is not checked',
                      {'kind': 'correspondence', 'theorem': 'C12_mark_transparent / names_at correspondence'}, found_input=False)

    def report(bad, keep, what, theorem):
        if not bad:
            return
        found = False
        for i in bad[:40]:
            j, r = keep[i]
            if direct_failures(r):
                found = True        # already reported above with the concrete input
        if not found:
            j, r = keep[bad[0]]
            ctx.violation('correspondence %s no longer checks (%d disagreements) although the direct evaluator passes on '
                          'these inputs: the theorems %s are about a model that is not the code' % (what, len(bad), theorem),
                          {'kind': 'correspondence', 'theorem': theorem, 'source': j['text'] if j['tag'] != 'file' else None,
                           'file': j['filename'], 'position': [r['ln'], r['col']], 'observed_prefix': r['prefix'],
                           'line': r['line'], 'own_unmarked': r.get('own_u'), 'own_marked': r.get('own_m')},
                          found_input=False)
    report(bad_b, bkeep, 'Model.Assist.from_branch vs the branch assist() takes on half-typed from lines', 'C12_from_shortcut_taken')
    report(bad_p, pkeep, 'Model.Assist.prefix_of vs assist() prefix (and references vs Python str/re)', 'C12_prefix_exact')
    report(bad_c, ckeep, 'clean_proposalsb on observed proposals', 'C12_proposals_sorted_nodup / C12_proposals_no_mark')
    report(bad_t, tkeep, 'Model.Assist.names_at/shift vs Flow.names_at on marked and unmarked analyses', 'C12_mark_transparent')

    if not proof_ok:
        ctx.violation('proof obligations of Props/C12.v not discharged: %s' % (ctx.notes,),
                      {'kind': 'proof', 'theorem': 'Props/C12.v', 'notes': ctx.notes,
                       'build_error': cov.get('build_error')}, found_input=False)


def replay(ctx, obj):
    r = obj['replay']
    if r.get('kind') != 'direct':
        print(obj.get('what'))
        return 1
    text = r['source'] if r.get('source') is not None else open(r['file'], encoding='utf8').read()
    root = os.path.join(ctx.scratch, 'proj')
    os.makedirs(root, exist_ok=True)
    ln, col = r['position']
    job = {'tag': 'replay', 'text': text, 'filename': r.get('file'), 'root': root, 'dump': False, 'relfile': r.get('relfile'),
           'targets': [{'kind': r.get('target_kind', 'text'), 'ln': ln, 'start': r.get('start', col),
                        'ident': r.get('ident', ''), 'col': col, 'ctx': 'replay', 'must_return': r.get('must_return'),
                        'package': r.get('package'), 'known': r.get('known')}]}
    res = analyse_source(job)[0]
    bad = direct_failures(res)
    b = set(dir(builtins))
    print('prefix', repr(res['prefix']), 'exception', res['exc'],
          'proposals (builtins hidden)', None if res['props'] is None else [p for p in res['props'] if p not in b][:30])
    print('failures', bad)
    return 1 if bad else 0
