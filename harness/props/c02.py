"""C02 - the definition actually read is reported (no false "unused", goto-definition complete).

Coq: Props/C02.v (soundness of supp's reaching-definitions analysis for every program of the
structured fragment and every execution). (I): Model/Reach.v vs supp (names_at alternatives, E02,
W01) on generated scope bodies. (R): Model/Sem.v interpreter vs CPython executing the instrumented
rendering under the same decisions. Direct: every CPython read event against supp's answers."""
import json
import os

from props import pygen
from props import reach_common as rc

LEVEL = 'proof'
ASSUMPTIONS = [
    'the renderer (harness/props/pygen.py) maps a core command to Python text; it is validated from both sides: (I) supp on the plain text vs Model/Reach.v, (R) CPython on the instrumented text vs Model/Sem.v',
    'handler names (except ... as e) are not read after their handler (Python deletes them; the model does not)',
    'fragment [ok]: raises only at the two designated points of a try body and caught there; no return inside a try that has a finally; no break/continue',
]


def run(ctx, mode='C02'):
    proof_ok = ctx.coq_props()
    cov = ctx.coverage
    cov['rule'] = ('generated scope bodies (prologue binding ~70% of 6 names, then 3-6 random statements, depth<=3; forms: '
                   'plain/annotated/walrus/tuple/chain/starred assignment, import, from-import, def, class, with, if/else, '
                   'while/else, for/else, try/except(as)/else/finally, return, comprehension values with a condition) rendered in function, module and class scope; '
                   'per program: decision lists enumerated odometer-style with <=2 trips per loop up to a cap. '
                   'non-trivial = an execution with at least one successful read whose row has >1 alternative or sits in a loop/try')
    c03 = (mode == 'C03')
    nprog = ctx.pick(150, 1500) if not c03 else ctx.pick(120, 1200)
    cap = ctx.pick(30, 150) if not c03 else ctx.pick(600, 4000)
    trees = [(t, 'func') for t in rc.corpus_trees() if not (c03 and 'return' in repr(t))]
    for i in range(nprog):
        scope = ctx.rng.choice(['func'] * 7 + ['module'] * 2 + ['class'])
        if c03:
            g = pygen.Gen(ctx.rng, allow_return=False, full_raise=True, max_stmts=ctx.rng.choice([4, 6, 8]), max_depth=3,
                          comps=(scope != 'class'), comp_self=False,
                          names=ctx.rng.choice([None, None, pygen.POOL[:2], pygen.POOL[:3]]))
            trees.append((g.program(lo=2, hi=4), scope))
        else:
            g = pygen.Gen(ctx.rng, allow_return=(scope == 'func'), full_raise=False, comps=(scope != 'class'), comp_self=False,
                          names=ctx.rng.choice([None, None, pygen.POOL[:2], pygen.POOL[:3]]))
            trees.append((g.program(), scope))

    # outside the stated domain (a comprehension element reads the name its statement rebinds, F59): evaluated by the
    # direct evaluators only, failures are extended-domain failures, not violations
    ext_from = len(trees)
    trees += [(t, 'func') for t in rc.corpus_trees_ext()]
    for i in range(ctx.pick(12, 120)):
        g = pygen.Gen(ctx.rng, allow_return=False, full_raise=True, max_stmts=ctx.rng.choice([4, 6]), max_depth=2,
                      comp_self=True, names=pygen.POOL[:3])
        trees.append(([('comp', g.reads(0, 1), None, [(g.new(), 'a')], [(g.new(), 'a')], ctx.rng.choice(['plain', 'ann', 'walrus']), [])]
                      + g.program(lo=2, hi=3), 'func'))
    cov['extended_domain_programs'] = len(trees) - ext_from
    src_of, lay_of = {}, {}
    impl_terms, impl_noscope_terms, ref_terms = [], [], []
    impl_meta, ref_meta = [], []
    direct_bad = []
    for idx, (body, scope) in enumerate(trees):
        try:
            src, reads, binds, obs = rc.analyse_program(ctx, body, scope)
            src_of[id(body)] = src
            lay_of[id(body)] = obs.get('layout_seed')
        except Exception as e:  # a crash of supp on a valid program: C08's business, but not silent
            ctx.violation('supp raised %s: %s while analysing a generated program' % (type(e).__name__, e),
                          {'kind': 'crash', 'source': pygen.render_plain(body, scope)[0]})
            continue
        ctx.histogram('scope', scope)
        if obs['unknown_alt']:
            direct_bad.append((idx, 'alternative that is no binding site of the program: %r' % (obs['unknown_alt'][:3],), None))
        term = rc.impl_case_term(body, obs)
        if idx >= ext_from:
            pass
        elif scope == 'func':
            impl_terms.append(term)
            impl_meta.append(idx)
        else:
            impl_noscope_terms.append(term)
        for b in rc.api_sample(ctx, src, reads, binds, obs, ctx.pick(1, 3)):
            direct_bad.append((idx, 'assist/location disagree with names_at: %r' % (b,), None))
        if scope == 'class':
            ctx.count(('impl', src), nontrivial=True)
            continue
        ins = pygen.render_instrumented(body, scope)
        oracle = rc.Oracle(ins, scope, cont=c03)
        runs, exhaustive = rc.enumerate_decisions(oracle, cap)
        ctx.histogram('decision_enumeration_exhaustive', exhaustive)
        if c03:
            for b in direct_c03(obs, reads, runs, exhaustive):
                direct_bad.append((idx, b, None))
        for eff, log, err in runs:
            if err:
                direct_bad.append((idx, 'instrumented program raised %s' % err, eff))
                continue
            multi = any(v is not None and isinstance(obs['seen'].get(r), list) and len(obs['seen'][r]) > 1 for r, v in log)
            ctx.count((src, tuple(eff)), nontrivial=multi)
            ctx.histogram('trace_len', min(len(log), 20) // 5 * 5)
            if idx < ext_from:
                ref_terms.append(rc.ref_case_term(body, eff, log))
                ref_meta.append((idx, eff))
            for b in rc.direct_c02(obs, log):
                direct_bad.append((idx, b[0], eff))
        if idx < 3:
            ctx.sample({'source': src, 'decisions': runs[-1][0], 'trace': runs[-1][1][:12], 'supp_alternatives': {str(k): v for k, v in list(obs['seen'].items())[:8]}})
    cov['programs'] = len(trees)
    cov['executions'] = len(ref_terms)

    reported = set()
    for idx, what, eff in direct_bad:
        key = (idx, what)
        if key in reported or len(reported) > 10:
            continue
        reported.add(key)
        body, scope = trees[idx]
        rep = {'kind': 'direct', 'scope': scope, 'tree': body, 'source': src_of.get(id(body)) or pygen.render_plain(body, scope)[0], 'layout_seed': lay_of.get(id(body)), 'decisions': eff}
        if idx >= ext_from:
            ctx.extension_failure(what + ' (a comprehension element reads the name its statement binds)', rep)
        else:
            ctx.violation(what, rep)
    direct_bad = [b for b in direct_bad if b[0] < ext_from]

    bad_i = rc.guarded_cases(ctx, rc.IMPORTS, rc.CHECK_PRELUDE, 'check_impl', impl_terms, 150, rc.T_IMPL, 'S')
    bad_n = rc.guarded_cases(ctx, rc.IMPORTS, rc.CHECK_PRELUDE, 'check_impl_noscope', impl_noscope_terms, 150, rc.T_IMPL, 'S')
    bad_r = rc.guarded_cases(ctx, rc.IMPORTS, rc.CHECK_PRELUDE, 'check_ref_full' if c03 else 'check_ref', ref_terms, 400, rc.T_REF, 'S')
    bad_s = rc.guarded_cases(ctx, rc.IMPORTS, rc.CHECK_PRELUDE, 'check_sound_instance', ref_terms, 400, rc.T_REF, 'S')
    cov['impl_cases'] = len(impl_terms) + len(impl_noscope_terms)
    cov['impl_disagreements'] = len(bad_i) + len(bad_n)
    cov['ref_cases'] = len(ref_terms)
    cov['ref_disagreements'] = len(bad_r)
    cov['theorem_instance_failures'] = len(bad_s)
    if (bad_i or bad_n) and not direct_bad:
        i = impl_meta[bad_i[0]] if bad_i else None
        body, scope = trees[i] if i is not None else (None, None)
        ctx.violation('(I) correspondence Model/Reach.v vs supp (names_at / E02 / W01) no longer checks on %d programs; '
                      'theorems %s_* are about a model that is not the code' % (len(bad_i) + len(bad_n), mode),
                      {'kind': 'correspondence-impl', 'theorem': 'C02_sound (model tie)', 'tree': body, 'scope': scope,
                       'source': pygen.render_plain(body, scope)[0] if body else None}, found_input=False)
    if bad_r:
        i, eff = ref_meta[bad_r[0]]
        body, scope = trees[i]
        ctx.violation('(R) correspondence Model/Sem.v vs CPython no longer checks on %d executions' % len(bad_r),
                      {'kind': 'correspondence-ref', 'theorem': 'run/exec semantics', 'tree': body, 'scope': scope, 'decisions': eff},
                      found_input=False)
    if bad_s and not direct_bad:
        i, eff = ref_meta[bad_s[0]]
        ctx.violation('instance of theorem C02_sound fails in the model', {'kind': 'theorem-instance', 'tree': trees[i][0], 'decisions': eff},
                      found_input=False)
    if mode == 'C02':
        part_x(ctx)
        for f in ctx.open_findings():
            if f['id'] == 'K3' and known_k3(ctx):
                ctx.known_finding('K3', 'return inside a try body with a finally clause: the finally read obtains x = 1, supp lists only x = 2 and reports x = 1 unused (Coq: C02_unrestricted_refuted)')
    if not proof_ok:
        ctx.violation('proof obligations of Props/%s.v not discharged: %s' % (mode, ctx.notes),
                      {'kind': 'proof', 'theorem': 'Props/%s.v' % mode, 'build_error': cov.get('build_error')}, found_input=False)


def part_x(ctx):
    """EXTENSION beyond the property's stated domain ("loops left only by exhaustion"): C02 with loop exits
    (return / break / continue; fragment okx of Model/ReachX.v): theorem C02X_sound. Failures here are
    extended-domain failures (printed, recorded in the evidence), not violations of C02 as stated.
    (I) Model/ReachX.v vs supp, (R) Model/SemXS.v vs CPython, direct site-level evaluation of every execution."""
    cov = ctx.coverage
    nprog = ctx.pick(100, 1000)
    cap = ctx.pick(40, 160)
    trees = [(t, 'func') for t in rc.corpus_x()]
    for i in range(nprog):
        scope = ctx.rng.choice(['func'] * 8 + ['module'] * 2)
        g = pygen.Gen(ctx.rng, allow_return=(scope == 'func'), exits=True, loop_exits_only=True, full_raise=False,
                      max_stmts=ctx.rng.choice([6, 8, 12]), names=ctx.rng.choice([None, pygen.POOL[:2], pygen.POOL[:2], pygen.POOL[:3]]))
        trees.append((g.program(prologue=ctx.rng.choice([0.7, 0.4])), scope))
    frag_bad = set(ctx.run_cases(rc.IMPORTS, rc.CHECK_PRELUDE, 'frag_okx', [pygen.body_coq(b) for b, _ in trees], case_type='cmd', shard=300))
    cov['X_programs'] = len(trees)
    cov['X_outside_fragment'] = len(frag_bad)
    impl_terms, impl_meta, ref_terms, ref_meta, direct_bad = [], [], [], [], []
    obs_of = {}
    for idx, (body, scope) in enumerate(trees):
        if idx in frag_bad:
            continue
        try:
            src, reads, binds, obs = rc.analyse_program(ctx, body, scope)
        except Exception as e:
            ctx.violation('supp raised %s: %s while analysing a generated program' % (type(e).__name__, e),
                          {'kind': 'crash', 'source': pygen.render_plain(body, scope)[0]})
            continue
        obs_of[idx] = (src, obs)
        if scope == 'func':
            impl_terms.append(rc.impl_case_term(body, obs))
            impl_meta.append(idx)
        runs, exhaustive = rc.enumerate_decisions(rc.Oracle(pygen.render_instrumented(body, scope), scope, cont=True), cap)
        exits = sum(repr(body).count(k) for k in ("'break'", "'continue'", "'return'"))
        ctx.histogram('X_exit_statements', min(exits, 6))
        for eff, log, err in runs:
            if err:
                direct_bad.append((idx, 'instrumented program raised %s' % err, eff))
                continue
            multi = any(v is not None and isinstance(obs['seen'].get(r), list) and len(obs['seen'][r]) > 1 for r, v in log)
            ctx.count(('X', src, tuple(eff)), nontrivial=multi and exits > 0)
            ref_terms.append(rc.ref_case_term(body, eff, log))
            ref_meta.append((idx, eff))
            for b in rc.direct_c02(obs, log):
                direct_bad.append((idx, b[0], eff))
    cov['X_executions'] = len(ref_terms)
    reported = set()
    for idx, what, eff in direct_bad:
        if (idx, what) in reported or len(reported) > 8:
            continue
        reported.add((idx, what))
        body, scope = trees[idx]
        ctx.extension_failure(what + ' (program with loop exits)', {'kind': 'direct', 'scope': scope, 'tree': body, 'source': obs_of[idx][0],
                                                                    'layout_seed': obs_of[idx][1].get('layout_seed'), 'decisions': eff})
    ty = 'cmd * list (N * list alt) * list N * list N'
    bad_i = rc.guarded_cases(ctx, rc.IMPORTS, rc.CHECK_PRELUDE, 'check_implx', impl_terms, 150, ty, 'X')
    bad_r = rc.guarded_cases(ctx, rc.IMPORTS, rc.CHECK_PRELUDE, 'check_refXs', ref_terms, 400, rc.T_REF, 'X')
    bad_s = rc.guarded_cases(ctx, rc.IMPORTS, rc.CHECK_PRELUDE, 'check_soundx_instance', ref_terms, 400, rc.T_REF, 'X')
    cov['X_impl_cases'] = len(impl_terms)
    cov['X_impl_disagreements'] = len(bad_i)
    cov['X_ref_disagreements'] = len(bad_r)
    cov['X_theorem_instance_failures'] = len(bad_s)
    if bad_i and not direct_bad:
        idx = impl_meta[bad_i[0]]
        ctx.extension_failure('(I) correspondence Model/ReachX.v vs supp no longer checks on %d programs with loop exits; '
                      'theorem C02X_sound is about a model that is not the code' % len(bad_i),
                      {'kind': 'correspondence-impl', 'theorem': 'C02X_sound (model tie)', 'tree': trees[idx][0], 'scope': 'func',
                       'source': obs_of[idx][0], 'supp_alternatives': {str(k): v for k, v in obs_of[idx][1]['seen'].items()},
                       'supp_unused': sorted(obs_of[idx][1]['unused'])})
    if bad_r:
        idx, eff = ref_meta[bad_r[0]]
        ctx.extension_failure('(R) correspondence Model/SemXS.v vs CPython no longer checks on %d executions' % len(bad_r),
                              {'kind': 'correspondence-ref', 'theorem': 'runXs semantics', 'tree': trees[idx][0], 'scope': trees[idx][1], 'decisions': eff})
    if bad_s and not direct_bad:
        idx, eff = ref_meta[bad_s[0]]
        ctx.extension_failure('instance of theorem C02X_sound fails in the model', {'kind': 'theorem-instance', 'tree': trees[idx][0], 'decisions': eff})


K3_TREE = [('try', [('assign', [], [(1, 'x')], 'plain'), ('if', [], [('return',)], [('pass',)]), ('assign', [], [(2, 'x')], 'plain')],
            [], [('pass',)], [('expr', [(10, 'x')])], False, False)]


def known_k3(ctx):
    src, reads, binds, obs = rc.analyse_program(ctx, K3_TREE, 'func', None)
    log, eff, ar, err = rc.Oracle(pygen.render_instrumented(K3_TREE, 'func'), 'func').run([0])
    return bool(rc.direct_c02(obs, log))


def direct_c03(obs, reads, runs, exhaustive):
    """C03 on one program: over ALL executions (loops <= 2 trips) the delivered bindings per read are
    exactly supp's alternatives; E02 iff unbound on every path."""
    bad = []
    seen_dyn = {}
    for eff, log, err in runs:
        for r, v in log:
            seen_dyn.setdefault(r, set()).add(v)
    for r in sorted(reads):
        s = obs['seen'].get(r)
        if s in (None, 'E42'):
            bad.append('read %d not analysed' % r)
            continue
        dyn = seen_dyn.get(r, set())
        extra = dyn - set(s)
        if extra:
            bad.append('read %d obtains %r on some execution but supp lists only %r' % (r, sorted(extra, key=str), s))
        if exhaustive:
            phantom = set(s) - dyn
            if phantom and dyn:
                bad.append('phantom: supp lists %r for read %d but no execution delivers it (delivered: %r)' % (
                    sorted(phantom, key=str), r, sorted(dyn, key=str)))
            if dyn and (r in obs['e02']) != (dyn == {None}):
                bad.append('E02 at read %d is %s but the name is %s on every path' % (
                    r, r in obs['e02'], 'unbound' if dyn == {None} else 'not unbound'))
    return bad


def replay(ctx, obj):
    r = obj['replay']
    if 'tree' not in r or r['tree'] is None:
        print(obj['what'])
        return 1
    def tup(x):
        return tuple(tup(y) for y in x) if isinstance(x, list) and x and isinstance(x[0], str) else ([tup(y) for y in x] if isinstance(x, list) else x)
    body = [tup(s) for s in r['tree']]
    scope = r.get('scope', 'func')
    src, reads, binds, obs = rc.analyse_program(ctx, body, scope, r.get('layout_seed'))
    print(src)
    print('supp alternatives:', obs['seen'], 'E02:', obs['e02'], 'unused:', obs['unused'])
    if r.get('decisions') is not None and scope != 'class':
        log, eff, ar, err = rc.Oracle(pygen.render_instrumented(body, scope), scope).run(r['decisions'])
        print('CPython trace:', log, err)
        bad = rc.direct_c02(obs, log)
        print('failures:', bad)
        return 1 if bad else 0
    return 1
