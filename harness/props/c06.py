"""C06 - attribute completion and go-to-definition follow Python's lookup order (MRO + instance dict).

Decided by
  * Coq theorems C06_* (Props/C06.v) on Model/Attrs.v: for EVERY class table the class table /
    (repaired) instance table of supp answer like Python's type / instance lookup;
  * (R) the reference model against CPython: generated hierarchies are written as Python files and
    executed in a fresh interpreter; __mro__, vars(cls), instance __dict__ after calling every
    method and the objects getattr() really returns are compared with REF inside Coq;
  * (I) the implementation model against the real code: supp.assistant.assist at `expr.|` and
    supp.assistant.location at `expr.at|tr` for every expression form (class, instance, self / cls
    in a method, imported module, literal, call of a single-return function) through every import
    form, compared with IMPL's key sets and chosen sites inside Coq;
  * the direct evaluator (no model): supp's proposals >= source-defined attributes CPython finds,
    supp's location = the site of the object CPython's lookup returns.  It is the search engine
    when something above breaks, and the replay.
"""
import ast
import json
import os
import random
import shutil
import subprocess
import sys
import tempfile
from concurrent.futures import ProcessPoolExecutor

from common import PY, REPO, VERIF, coq_list, coq_N, coq_nat

LEVEL = 'proof'
ASSUMPTIONS = [
    'the expression evaluator (evaluator.py:36-97, FuncScope.get_argument/resolve, import resolution) is '
    'covered by the (I) correspondence only: the theorems are about the attribute tables',
    'CPython 3.12 executing the generated files is the oracle for __mro__, vars(), instance __dict__ and getattr',
    'builtin bases (object, dict, Exception) are rows listing vars(type) only, as supp sees them; names that only '
    'a hidden builtin ancestor defines (BaseException under Exception) are outside the generated domain',
    'domain: no class reached twice through the written bases (an explicitly written `object` counts) and an '
    'explicit `object` is reached last (Attrs.in_domain, evaluated in Coq on every generated case)',
    'a name bound to a property (data descriptor) is never assigned through self in the same hierarchy '
    '(CPython raises AttributeError there); first parameters of classmethods/staticmethods are not assigned through',
]

BUILTIN_ROWS = ['object', 'dict', 'Exception']          # rows 0, 1, 2 of every table
BUILTIN_TYPES = {'object': object, 'dict': dict, 'Exception': Exception}
NBUILTIN = len(BUILTIN_ROWS)

MEMBER_NAMES = ['alpha', 'beta', 'gamma', 'run', 'value', 'size', 'conf', 'K',
                '__init__', '__len__', '__call__', '__getitem__',
                'get', 'update', 'keys']        # names dict defines itself: a builtin base written BEFORE a source base hides them
SELF_NAMES = ['x', 'y', 'state', 'alpha', 'beta', 'run', 'value', 'K', 'data']
AUTO_CLASS_KEYS = {'__module__', '__dict__', '__weakref__', '__doc__', '__qualname__', '__firstlineno__',
                   '__static_attributes__', '__hash__', '__annotations__', '__orig_bases__', '__parameters__'}
SITE_LIT0 = 1000

DESC_SRC = ['class Desc(object):',
            '    def __init__(self, f):',
            '        self.f = f',
            '    def __get__(self, obj, cls=None):',
            '        if obj is None:',
            '            return self',
            '        return self.f(obj)']
# descriptor classes that INHERIT __get__ (one and two levels up): as much descriptors as Desc
DESC1_SRC = ['class Desc1(Desc):',
             '    pass']
DESC2_SRC = ['class Desc2(Desc1):',
             '    def __init__(self, f):',
             '        Desc1.__init__(self, f)',
             '        self.label = f.__name__']
DECO_LEVEL = {'Desc': 0, 'Desc1': 1, 'Desc2': 2}
# value a getter may return instead of a literal: an instance of a source class carrying the site id
RET_SRC = ['class Ret(object):',
           '    def __init__(self, site):',
           '        self.site = site',
           '    def ret_meth(self):',
           '        pass']


# ------------------------------------------------------------------------------------------------
# generator: hierarchy specification (pure data, JSON-able)
# ------------------------------------------------------------------------------------------------

def ancestors(spec_classes, cid):
    """depth-first pre-order walk over the written bases (mirror of Attrs.dfs)."""
    if cid < NBUILTIN:
        return [cid]
    out = [cid]
    for b in spec_classes[cid - NBUILTIN]['bases']:
        out.extend(ancestors(spec_classes, b))
    return out


def depth_of(spec_classes, cid):
    if cid < NBUILTIN:
        return 0
    bs = spec_classes[cid - NBUILTIN]['bases']
    return 1 + max([depth_of(spec_classes, b) for b in bs] or [0])


def in_domain_py(walk):
    return len(set(walk)) == len(walk) and 0 not in walk[:-1]


def gen_spec(rng, max_classes=7):
    layout = rng.choice(['one', 'one', 'two', 'three', 'pkg', 'pkg', 'mixed', 'mixed', 'deep', 'deep', 'deepmixed'])
    modules = {'one': ['m0'], 'two': ['m0', 'm1'], 'three': ['m0', 'm1', 'm2'],
               'pkg': ['pkg.sub0', 'pkg.sub1'], 'mixed': ['m0', 'pkg.sub0', 'pkg.sub1'],
               # nested package: a module of pkg.inner reaches its siblings with `from .x` and pkg.base0 with `from ..base0`
               'deep': ['pkg.base0', 'pkg.inner.mix0', 'pkg.inner.impl0'],
               'deepmixed': ['m0', 'pkg.base0', 'pkg.inner.impl0']}[layout]
    ncls = rng.randint(1, max_classes)
    prop_names = set(rng.sample([n for n in MEMBER_NAMES if not n.startswith('__')], 2))
    classes = []
    forced_rel = set()
    if layout.startswith('deep'):
        ncls = max(ncls, len(modules) + 1)          # every module of a nested package gets a class
        mod_idx = sorted(list(range(len(modules))) + [rng.randrange(len(modules)) for _ in range(ncls - len(modules))])
    else:
        mod_idx = sorted(rng.randrange(len(modules)) for _ in range(ncls))
    for i in range(ncls):
        cid = NBUILTIN + i
        # ---- bases -----------------------------------------------------------------------------
        bases = []
        for _try in range(20):
            nb = rng.choice([0, 1, 1, 1, 2, 2, 3, 3])
            cand = list(range(NBUILTIN, cid))
            if rng.random() < 0.8:
                cand += [0, 1, 2]
            bases = []
            seen = set()
            rng.shuffle(cand)
            if rng.random() < 0.4:           # favour deep chains
                cand.sort(key=lambda b: -depth_of(classes, b))
            for b in cand:
                if len(bases) >= nb:
                    break
                anc = ancestors(classes, b)
                if seen & set(anc):
                    continue
                if {1, 2} <= (seen | set(anc)):        # dict + Exception: instance lay-out conflict
                    continue
                if depth_of(classes, b) >= 4:
                    continue
                bases.append(b)
                seen |= set(anc)
            walk = [cid]
            for b in bases:
                walk.extend(ancestors(classes, b))
            if in_domain_py(walk):
                break
            bases = []
        if layout == 'deep' and mod_idx[i] == 2 and mod_idx[i - 1] != 2 and rng.random() < 0.6:
            # Impl(Mixin, Base): one base from the sibling module, one from the parent package's module
            pairs = [(a['id'], b['id']) for a in classes if a['module'] == 1 for b in classes if b['module'] == 0
                     if not set(ancestors(classes, a['id'])) & set(ancestors(classes, b['id']))
                     and not {1, 2} <= set(ancestors(classes, a['id'])) | set(ancestors(classes, b['id']))
                     and max(depth_of(classes, a['id']), depth_of(classes, b['id'])) < 4]
            rng.shuffle(pairs)
            for a, b in pairs:
                cand = [a, b] if rng.random() < 0.5 else [b, a]
                walk = [cid] + ancestors(classes, cand[0]) + ancestors(classes, cand[1])
                if in_domain_py(walk):
                    bases = cand
                    forced_rel.update('%d:%d' % (2, x) for x in cand)
                    break
        # ---- members ---------------------------------------------------------------------------
        members = []
        nmem = rng.choice([0, 1, 2, 2, 3, 3, 4, 5])
        for _ in range(nmem):
            if members and rng.random() < 0.12:
                name = rng.choice(members)['name']          # re-definition in the same body
            else:
                name = rng.choice(MEMBER_NAMES)
            r = rng.random()
            if name in prop_names and r < 0.6:
                kind = 'property'
            elif name.startswith('__'):
                kind = 'plain'
            elif r < 0.45:
                kind = 'plain'
            elif r < 0.57:
                kind = 'desc'
            elif r < 0.67:
                kind = 'classmethod'
            elif r < 0.73:
                kind = 'static'
            elif r < 0.88:
                kind = 'var_int'
            else:
                kind = 'var_str'
            m = {'name': name, 'kind': kind, 'assigns': []}
            if kind == 'desc':
                m['deco'] = rng.choice(['Desc', 'Desc1', 'Desc1', 'Desc2'])
            if kind in ('property', 'desc'):
                m['ret'] = rng.choice(['lit', 'obj'])
            if kind in ('plain', 'property', 'desc'):
                for _a in range(rng.choice([0, 0, 1, 1, 2, 3])):
                    attr = rng.choice(SELF_NAMES)
                    if attr in prop_names:
                        continue
                    m['assigns'].append({'attr': attr, 'wrap': rng.choice(['', '', '', 'if', 'for', 'try', 'with'])})
            members.append(m)
        for m in members:
            for a in m['assigns']:
                a['val'] = rng.choice(['int', 'int', 'obj'])         # self.x = 1007  /  self.x = Ret(1007)
            if m['kind'] == 'plain' and m['name'] != '__init__':
                m['ret'] = rng.choice(['lit', 'none'])
        # "link" shape: a class-level default `a = <int>`, an instance assignment `self.a = Ret(..)` in some method,
        # a getter (property / descriptor / single-return method) returning self.a, and another method that binds a
        # local from the getter and assigns an attribute through it (`c_ = self.link; c_.tmo = 5`): the getter is
        # first evaluated while attribute assignments are being collected
        if rng.random() < 0.3:
            free = [n for n in ('alpha', 'beta', 'value', 'K', 'data', 'state') if n not in prop_names]
            a = rng.choice(free)
            gkind = rng.choice(['property', 'desc', 'plain'])
            # a property is a data descriptor: its name must never be assigned through self anywhere
            gname = rng.choice([n for n in ('run', 'size', 'conf', 'gamma', 'link')
                                if n != a and n not in prop_names and not (gkind == 'property' and n in SELF_NAMES)])
            members = [m for m in members if m['name'] not in (a, gname)]
            setter = {'name': rng.choice(['__init__', 'setup']), 'kind': 'plain', 'ret': 'none',
                      'assigns': [{'attr': a, 'wrap': rng.choice(['', 'if']), 'val': rng.choice(['obj', 'obj', 'int'])}]}
            members = [m for m in members if m['name'] != setter['name']]
            getter = {'name': gname, 'kind': gkind, 'assigns': [], 'ret': 'self:' + a}
            if gkind == 'desc':
                getter['deco'] = rng.choice(['Desc', 'Desc1', 'Desc2'])
            user = {'name': 'touch', 'kind': 'plain', 'assigns': [], 'ret': 'none',
                    'alias': [{'via': gname, 'call': gkind == 'plain'}]}
            default = {'name': a, 'kind': rng.choice(['var_int', 'var_str']), 'assigns': []}
            extra = [default, setter, getter, user]
            rng.shuffle(extra)
            members = members + extra
        for k, m in enumerate(members):
            if any(m2['name'] == m['name'] for m2 in members[k + 1:]):
                m['assigns'] = []       # a def re-bound later in the same body is dead code: Python never runs it
                m.pop('alias', None)
        classes.append({'id': cid, 'name': 'C%d' % cid, 'module': mod_idx[i], 'bases': bases, 'members': members,
                        'maker': rng.random() < 0.6, 'getter': rng.random() < 0.3})
    # ---- how a module refers to the classes of earlier modules ----------------------------------
    refs = {}
    for c in classes:
        for b in c['bases']:
            if b >= NBUILTIN and classes[b - NBUILTIN]['module'] != c['module']:
                key = '%d:%d' % (c['module'], b)
                if key not in refs:
                    forms = import_forms(modules, c['module'], classes[b - NBUILTIN]['module'])
                    rel = [f for f in forms if f.startswith('rel_')]
                    # inside a package relative imports are the usual way (and several levels meet in one file)
                    refs[key] = rng.choice(rel) if rel and (key in forced_rel or rng.random() < 0.5) else rng.choice(forms)
    spec = {'modules': modules, 'classes': classes, 'refs': refs, 'reexport_star': rng.random() < 0.5,
            'desc_layout': rng.choice(['local', 'base_remote', 'all_remote']),
            'recursive_receiver': [mi for mi in range(len(modules)) if rng.random() < 0.25]}
    rebind_base_names(spec, rng)
    # EXTENDED domain (not in the property's quantifier): the base expression is a name bound on two paths, one of
    # which is not a class value (an instance / a failed import); CPython takes the executed path, supp only classes
    if rng.random() < 0.12:
        cs = [c for c in classes if c['bases'] and c['name'] == 'C%d' % c['id']]
        if cs:
            c = rng.choice(cs)
            pos = rng.randrange(len(c['bases']))
            # (an INSTANCE of a builtin type is a RuntimeName like the type itself and passes the class-only filter of
            #  ClassObject.bases: its dir() joins the table - observation O5; the instance alternative is used for source bases)
            kind = rng.choice(['instance', 'fallback']) if c['bases'][pos] >= NBUILTIN else 'fallback'
            c['alt_base'] = {'pos': pos, 'kind': kind}
    return spec


def is_extended(spec):
    return any('alt_base' in c for c in spec['classes'])


def rebind_base_names(spec, rng):
    """`from m import C3` followed by `class C3(C3): ...`: a subclass may take the name of its first base.
    Only where every other textual reference keeps its meaning: the subclass is a leaf, its base lives in another
    module and is reached by name, nothing later in the module derives from that base, nobody star-imports the
    module, and the two modules are not both re-exported by pkg/__init__."""
    classes, modules = spec['classes'], spec['modules']
    for c in classes:
        if not c['bases'] or c['bases'][0] < NBUILTIN or rng.random() > 0.35:
            continue
        b = classes[c['bases'][0] - NBUILTIN]
        if b['module'] == c['module'] or b['name'] != 'C%d' % b['id']:
            continue
        if spec['refs'].get('%d:%d' % (c['module'], b['id'])) not in ('from', 'rel_from', 'star'):
            continue
        if any(c['id'] in k['bases'] for k in classes):
            continue
        if any(k['module'] == c['module'] and k['id'] > c['id'] and b['id'] in k['bases'] for k in classes):
            continue
        if any(f == 'star' and classes[int(key.split(':')[1]) - NBUILTIN]['module'] == c['module']
               for key, f in spec['refs'].items()):
            continue
        if is_reexported(modules[b['module']]) and is_reexported(modules[c['module']]):
            continue
        if any(k['name'] == b['name'] and k is not b for k in classes):
            continue                    # one class per borrowed name: `from pkg import C3`, makers ... stay unambiguous
        reexp = [m for m in modules if is_reexported(m)]
        if spec['reexport_star'] and is_reexported(modules[c['module']]) and modules[c['module']] != reexp[-1]:
            continue                    # a later `from .subN import *` of pkg/__init__ could re-export the base under this name
        c['name'] = b['name']


def package_of(mname):
    return mname.rpartition('.')[0]


def packages_of(modules):
    """all packages of the layout, outermost first"""
    out = []
    for m in modules:
        parts = m.split('.')[:-1]
        for k in range(1, len(parts) + 1):
            p = '.'.join(parts[:k])
            if p not in out:
                out.append(p)
    return sorted(out, key=lambda p: p.count('.'))


def is_reexported(mname):
    """pkg/__init__ re-exports the classes of its direct submodules"""
    return mname.startswith('pkg.') and mname.count('.') == 1


def import_forms(modules, frm, to):
    """forms by which module index `frm` (or a query file: 'root', or the dotted package a query file lives in)
    can reach a class of module index `to`."""
    tname = modules[to]
    forms = ['import', 'from', 'star', 'import_as', 'from_as']
    if is_reexported(tname) and not isinstance(frm, int):
        # only query files import through the package: a submodule doing `from pkg import C` while
        # pkg/__init__ imports that submodule is a circular import (import cycles belong to C08)
        forms.append('reexport')
    fpkg = package_of(modules[frm]) if isinstance(frm, int) else ('' if frm == 'root' else frm)
    if fpkg and fpkg.split('.')[0] == tname.split('.')[0] and '.' in tname:
        forms += ['rel_from', 'rel_mod']
    return forms


def relative_parts(fpkg, tname):
    """(dots, rest): `from <dots><rest>` names module `tname` relative to a module of package `fpkg`"""
    P, T = fpkg.split('.'), tname.split('.')
    j = 0
    while j < len(P) and j < len(T) - 1 and P[j] == T[j]:
        j += 1
    assert j >= 1, (fpkg, tname)
    return '.' * (len(P) - j + 1), T[j:]


def import_stmt(form, tname, cname, fpkg=''):
    """(import statement, expression denoting the class); `fpkg` = package of the importing file (relative forms)"""
    short = tname.split('.')[-1]
    if form == 'import':
        return 'import %s' % tname, '%s.%s' % (tname, cname)
    if form == 'import_as':
        return 'import %s as _%s' % (tname, short), '_%s.%s' % (short, cname)
    if form == 'from':
        return 'from %s import %s' % (tname, cname), cname
    if form == 'from_as':
        return 'from %s import %s as _%s' % (tname, cname, cname), '_' + cname
    if form == 'star':
        return 'from %s import *' % tname, cname
    if form == 'reexport':
        return 'from pkg import %s' % cname, cname
    if form in ('rel_from', 'rel_mod'):
        dots, rest = relative_parts(fpkg, tname)
        if form == 'rel_from':
            return 'from %s%s import %s' % (dots, '.'.join(rest), cname), cname
        return 'from %s%s import %s' % (dots, '.'.join(rest[:-1]), short), '%s.%s' % (short, cname)
    raise ValueError(form)


# ------------------------------------------------------------------------------------------------
# renderer: spec -> files, sites, class table
# ------------------------------------------------------------------------------------------------

class Rendered(object):
    pass


def render(spec):
    """Returns files {relpath: text}, and the site bookkeeping the checks need."""
    modules = spec['modules']
    classes = spec['classes']
    sites = []                 # site index -> (module index, line, col, what)
    R = Rendered()
    R.files = {}
    R.sites = sites
    R.cls = {}                 # cid -> dict(own=[(name, site idx)], selfs=[(name, site idx)], site=idx)
    R.firstline = {}           # (module idx, first line of a def incl. decorators) -> site idx
    R.modnames = {}            # module idx -> ordered list of (name, site idx or None)
    R.placeholders = {}        # cid -> list of (module idx, line, kind 'self'|'cls', argname)
    R.makers = {}              # cid -> {'maker': name, 'getter': name}

    def new_site(mi, line, col, what):
        sites.append((mi, line, col, what))
        return len(sites) - 1

    for mi, mname in enumerate(modules):
        lines = []
        names = []
        mine = [c for c in classes if c['module'] == mi]
        done = set()
        for c in mine:
            for b in c['bases']:
                key = '%d:%d' % (mi, b)
                if key in spec['refs']:
                    bc = classes[b - NBUILTIN]
                    stmt, _e = import_stmt(spec['refs'][key], modules[bc['module']], bc['name'], package_of(mname))
                    if stmt not in done:
                        done.add(stmt)
                        lines.append(stmt)
                        names.extend(bound_names(stmt, spec, R, package_of(mname)))
        # descriptor classes: defined here, or (desc_layout) the base / the whole chain lives in module 0
        layout = spec.get('desc_layout', 'local')
        used = lambda cs: {m.get('deco', 'Desc') for c in cs for m in c['members'] if m['kind'] == 'desc'}
        need = used(mine)
        define, imports = set(), []
        if layout == 'local' or len(modules) == 1:
            define = set(need)
        elif mi == 0:
            everyone = used(classes)
            define = set(need) | ({'Desc'} if everyone and layout == 'base_remote' else set()) | \
                (everyone if layout == 'all_remote' else set())
        elif layout == 'base_remote':
            define = need - {'Desc'}
            if need:
                imports = ['Desc']
        else:
            imports = sorted(need)
        if define:
            top = max(DECO_LEVEL[d] for d in define)
            if layout == 'base_remote' and mi > 0:
                chain = [('Desc1', DESC1_SRC), ('Desc2', DESC2_SRC)][:top]
            else:
                chain = [('Desc', DESC_SRC), ('Desc1', DESC1_SRC), ('Desc2', DESC2_SRC)][:top + 1]
        else:
            chain = []
        if imports:
            lines.append('from %s import %s' % (modules[0], ', '.join(imports)))
            names.extend((n, None) for n in imports)
        for dn, dsrc in chain:
            lines.extend(dsrc)
            names.append((dn, None))
        if any(m.get('ret') == 'obj' or any(a.get('val') == 'obj' for a in m['assigns']) for c in mine for m in c['members']):
            lines.extend(RET_SRC)
            names.append(('Ret', None))
        for c in mine:
            cid = c['id']
            bexprs = []
            for b in c['bases']:
                if b < NBUILTIN:
                    bexprs.append(BUILTIN_ROWS[b])
                else:
                    bc = classes[b - NBUILTIN]
                    if bc['module'] == mi:
                        bexprs.append(bc['name'])
                    else:
                        bexprs.append(import_stmt(spec['refs']['%d:%d' % (mi, b)], modules[bc['module']], bc['name'],
                                                  package_of(mname))[1])
            if 'alt_base' in c:
                k, alias = c['alt_base']['pos'], 'B%d_' % cid
                if c['alt_base']['kind'] == 'instance':
                    lines += ['if True:', '    %s = %s' % (alias, bexprs[k]), 'else:', '    %s = %s()' % (alias, bexprs[k])]
                else:
                    lines += ['try:', '    from nosuch_mod import Zz as %s' % alias, 'except ImportError:',
                              '    %s = %s' % (alias, bexprs[k])]
                bexprs[k] = alias
                names.append((alias, None))
            lines.append('class %s%s:' % (c['name'], '(%s)' % ', '.join(bexprs) if bexprs else ''))
            info = {'own': [], 'selfs': [], 'site': new_site(mi, len(lines), 6, 'class ' + c['name'])}
            R.cls[cid] = info
            R.placeholders[cid] = []
            names.append((c['name'], info['site']))
            if not c['members']:
                lines.append('    pass')
            for m in c['members']:
                kind = m['kind']
                if kind in ('var_int', 'var_str'):
                    s = new_site(mi, len(lines) + 1, 4, '%s.%s' % (c['name'], m['name']))
                    lit = SITE_LIT0 + s
                    lines.append('    %s = %s' % (m['name'], lit if kind == 'var_int' else "'s%d'" % lit))
                    info['own'].append((m['name'], s))
                    continue
                first = len(lines) + 1
                arg = 'self'
                if kind == 'property':
                    lines.append('    @property')
                elif kind == 'desc':
                    lines.append('    @' + m.get('deco', 'Desc'))
                elif kind == 'classmethod':
                    lines.append('    @classmethod')
                    arg = 'cls'
                elif kind == 'static':
                    lines.append('    @staticmethod')
                    arg = 'arg'
                lines.append('    def %s(%s):' % (m['name'], arg))
                s = new_site(mi, len(lines), 8, '%s.%s' % (c['name'], m['name']))
                R.firstline[(mi, first)] = s
                info['own'].append((m['name'], s))
                for a in m['assigns']:
                    ind = '        '
                    if a['wrap'] == 'if':
                        lines.append(ind + 'if True:')
                        ind += '    '
                    elif a['wrap'] == 'for':
                        lines.append(ind + 'for _i in (1,):')
                        ind += '    '
                    elif a['wrap'] == 'try':
                        lines.append(ind + 'try:')
                        ind += '    '
                    elif a['wrap'] == 'with':
                        lines.append(ind + 'with open(__file__):')
                        ind += '    '
                    sa = new_site(mi, len(lines) + 1, len(ind), '%s.%s: self.%s' % (c['name'], m['name'], a['attr']))
                    lines.append(('%sself.%s = Ret(%d)' if a.get('val') == 'obj' else '%sself.%s = %d') % (ind, a['attr'], SITE_LIT0 + sa))
                    info['selfs'].append((a['attr'], sa))
                    if a['wrap'] == 'try':
                        lines.append('        finally:')
                        lines.append('            pass')
                for al in m.get('alias', []):
                    lines.append('        try:')
                    lines.append('            c_ = self.%s%s' % (al['via'], '()' if al['call'] else ''))
                    lines.append('            c_.tmo = 5')
                    lines.append('        except Exception:')
                    lines.append('            pass')
                lines.append('        pass')
                if kind in ('plain', 'property', 'desc'):
                    R.placeholders[cid].append((mi, len(lines), 'self', 'self'))
                elif kind == 'classmethod':
                    R.placeholders[cid].append((mi, len(lines), 'cls', 'cls'))
                ret = m.get('ret')
                if ret is None and kind == 'plain':          # specs written before `ret` existed for plain methods
                    ret = 'lit' if (m['name'] != '__init__' and s % 2 == 0) else 'none'
                if kind in ('plain', 'property', 'desc') and ret and ret.startswith('self:'):
                    lines.append('        return self.%s' % ret[5:])
                elif kind in ('property', 'desc') and ret == 'obj':
                    lines.append('        return Ret(%d)' % (SITE_LIT0 + s))
                elif kind in ('property', 'desc') or (kind == 'plain' and ret == 'lit' and m['name'] != '__init__'):
                    lines.append('        return %d' % (SITE_LIT0 + s))
            R.makers[cid] = {}
            if c['maker']:
                lines.append('def make_%s():' % c['name'])
                ms = new_site(mi, len(lines), 4, 'make_' + c['name'])
                R.firstline[(mi, len(lines))] = ms
                lines.append('    return %s()' % c['name'])
                names.append(('make_' + c['name'], ms))
                R.makers[cid]['maker'] = 'make_' + c['name']
            if c['getter']:
                lines.append('def get_%s():' % c['name'])
                ms = new_site(mi, len(lines), 4, 'get_' + c['name'])
                R.firstline[(mi, len(lines))] = ms
                lines.append('    return %s' % c['name'])
                names.append(('get_' + c['name'], ms))
                R.makers[cid]['getter'] = 'get_' + c['name']
        if mine and mi in spec.get('recursive_receiver', []):
            # a legal, terminating recursive function computes the receiver of a module-level attribute assignment
            lines.append('def root_of(node, depth=0):')
            ms = new_site(mi, len(lines), 4, 'root_of')
            R.firstline[(mi, len(lines))] = ms
            lines += ['    if depth:', '        result = node', '    else:', '        result = root_of(node, 1)', '    return result',
                      'default_ = root_of(%s())' % mine[-1]['name'], 'default_.title = 5']
            names += [('root_of', ms), ('default_', None)]
        R.files[mname.replace('.', '/') + '.py'] = '\n'.join(lines) + '\n'
        R.modnames[mi] = names
    for pk in packages_of(modules):
        init = []
        if pk == 'pkg':
            for mi, mname in enumerate(modules):
                if not is_reexported(mname):
                    continue
                short = mname.split('.')[-1]
                mine = [c['name'] for c in classes if c['module'] == mi]
                if spec['reexport_star']:
                    init.append('from .%s import *' % short)
                elif mine:
                    init.append('from .%s import %s' % (short, ', '.join(mine)))
        R.files[pk.replace('.', '/') + '/__init__.py'] = '\n'.join(init) + '\n'
    return R


def bound_names(stmt, spec, R, fpkg=''):
    """names an import statement binds at module level: list of (name, None)."""
    t = ast.parse(stmt).body[0]
    out = []
    if isinstance(t, ast.Import):
        for a in t.names:
            out.append(((a.asname or a.name.split('.')[0]), None))
    else:
        for a in t.names:
            if a.name == '*':
                if t.level:
                    P = fpkg.split('.')
                    full = '.'.join(P[:len(P) - t.level + 1] + ([t.module] if t.module else []))
                else:
                    full = t.module
                mi = spec['modules'].index(full)
                out.extend((n, None) for n, _s in R.modnames[mi] if not n.startswith('_'))
            else:
                out.append((a.asname or a.name, None))
    return out


# ------------------------------------------------------------------------------------------------
# CPython oracle (fresh interpreter, no supp on the path)
# ------------------------------------------------------------------------------------------------

ORACLE_SRC = r'''
import sys, os, json, types, importlib
proj = os.path.realpath(sys.argv[1])
req = json.load(open(sys.argv[2]))
sys.path.insert(0, proj)
AUTO = set(req['auto'])

def ident(v):
    if isinstance(v, bool):
        return ['runtime', 'bool']
    if isinstance(v, int):
        return ['lit', v]
    if isinstance(v, str) and v[:1] == 's' and v[1:].isdigit():
        return ['lit', int(v[1:])]
    if isinstance(v, property):
        v = v.fget
    if isinstance(v, (classmethod, staticmethod)):
        v = v.__func__
    if type(v).__name__ == 'Ret' and hasattr(v, 'site'):
        return ['lit', v.site]
    if type(v).__name__ in ('Desc', 'Desc1', 'Desc2') and hasattr(v, 'f'):
        v = v.f
    f = getattr(v, '__func__', v)
    code = getattr(f, '__code__', None)
    if code is not None:
        return ['code', os.path.relpath(os.path.realpath(code.co_filename), proj), code.co_firstlineno]
    if isinstance(v, type):
        return ['class', v.__module__, v.__qualname__]
    if isinstance(v, types.ModuleType):
        return ['module', v.__name__]
    return ['runtime', type(v).__name__]

def is_src(k):
    m = sys.modules.get(k.__module__)
    f = getattr(m, '__file__', None)
    return bool(f) and os.path.realpath(f).startswith(proj + os.sep)

out = {'classes': {}, 'modules': {}}
mods = {}
for mname in req['modules']:
    mods[mname] = importlib.import_module(mname)
for mname, m in mods.items():
    names = []
    for n, v in vars(m).items():
        if n.startswith('__') and n.endswith('__'):
            continue
        names.append([n, ident(v)])
    out['modules'][mname] = names
for cid, mname, cname in req['classes']:
    cls = getattr(mods[mname], cname)
    rec = {}
    rec['mro'] = [[k.__module__, k.__qualname__] for k in cls.__mro__]
    rec['vars'] = sorted(n for n in vars(cls) if n not in AUTO)
    def filled():
        """a fresh instance on which every method / getter of every source class of the MRO has run once, base
        classes first (so the assignments of the most derived class are the last ones)"""
        inst = cls()
        for k in reversed(type(inst).__mro__):
            if not is_src(k):
                continue
            for n, v in list(vars(k).items()):
                f = None
                if isinstance(v, types.FunctionType):
                    f = v
                elif isinstance(v, property):
                    f = v.fget
                elif type(v).__name__ in ('Desc', 'Desc1', 'Desc2'):
                    f = v.f
                if f is not None:
                    f(inst)
        return inst
    inst = filled()
    rec['dict'] = sorted(vars(inst))
    src_names = set()
    for k in cls.__mro__:
        if is_src(k):
            src_names.update(n for n in vars(k) if n not in AUTO)
    rec['src_class_names'] = sorted(src_names)
    def describe(val):
        """what Python finds on a VALUE: kind, and for an instance of the source class Ret its attributes and
        where one of its methods is defined"""
        if isinstance(val, bool):
            return {'kind': 'other'}
        if isinstance(val, int):
            return {'kind': 'int'}
        if isinstance(val, str):
            return {'kind': 'str'}
        if type(val).__name__ == 'Ret' and is_src(type(val)):
            code = val.ret_meth.__func__.__code__
            # class-body names and attributes assigned through self (`tmo` is assigned through a local alias of the
            # value, which is not one of the attribute sources the property names)
            return {'kind': 'ret', 'names': sorted(n for n in dir(val) if not (n.startswith('__') and n.endswith('__')) and n != 'tmo'),
                    'meth': [os.path.relpath(os.path.realpath(code.co_filename), proj), code.co_firstlineno]}
        return {'kind': 'other'}

    clk, ilk, values, callvalues = {}, {}, {}, {}
    for x in req['names']:
        try:
            clk[x] = ident(getattr(cls, x))
        except AttributeError:
            clk[x] = None
        try:
            val = getattr(inst, x)
        except AttributeError:
            ilk[x] = None
            continue
        in_dict = x in vars(inst)
        # which definition the lookup selected: the instance slot's value, otherwise what the type lookup finds
        # (for a property / descriptor that is the descriptor object, whatever its getter returns)
        ilk[x] = [in_dict, ident(val if in_dict else getattr(type(inst), x))]
        # values are described on fresh instances: evaluating getters / calling methods assigns attributes
        values[x] = describe(getattr(filled(), x))
        if isinstance(val, types.MethodType) and x != '__init__' and is_src(type(inst)) \
                and getattr(val.__func__, '__code__', None) is not None and val.__func__.__code__.co_argcount == 1:
            try:
                callvalues[x] = describe(getattr(filled(), x)())
            except Exception as e:
                callvalues[x] = {'kind': 'raises', 'exc': type(e).__name__}
    rec['cls_lookup'] = clk
    rec['inst_lookup'] = ilk
    rec['values'] = values
    rec['callvalues'] = callvalues
    out['classes'][str(cid)] = rec
json.dump(out, sys.stdout)
'''


def run_oracle(projdir, spec, names, scratch):
    req = {'modules': spec['modules'] + packages_of(spec['modules']),
           'classes': [[c['id'], spec['modules'][c['module']], c['name']] for c in spec['classes']],
           'names': names, 'auto': sorted(AUTO_CLASS_KEYS)}
    rp = os.path.join(scratch, 'oracle_req.json')
    sp = os.path.join(scratch, 'oracle.py')
    with open(rp, 'w') as f:
        json.dump(req, f)
    with open(sp, 'w') as f:
        f.write(ORACLE_SRC)
    env = {k: v for k, v in os.environ.items() if k not in ('PYTHONPATH',)}
    env['PYTHONHASHSEED'] = '0'
    env['PYTHONDONTWRITEBYTECODE'] = '1'
    try:
        p = subprocess.run([PY, '-S', '-E', sp, projdir, rp], stdout=subprocess.PIPE, stderr=subprocess.PIPE, text=True,
                           timeout=120, env=env)
    finally:
        os.remove(rp)
        os.remove(sp)
    if p.returncode != 0:
        raise RuntimeError('CPython oracle failed:\n' + p.stderr[-2000:] + '\n' + json.dumps(spec))
    return json.loads(p.stdout)


# ------------------------------------------------------------------------------------------------
# supp driver
# ------------------------------------------------------------------------------------------------

def write_project(projdir, files):
    for rel, text in files.items():
        p = os.path.join(projdir, rel)
        os.makedirs(os.path.dirname(p), exist_ok=True)
        with open(p, 'w') as f:
            f.write(text)


def supp_query(project, projdir, q):
    """q = {'op': 'assist'|'location', 'file': relpath, 'source': text, 'pos': [line, col]}.
    Returns ['ok', result] or ['exc', 'ExcClass: msg']."""
    from supp.assistant import assist, location
    fn = os.path.join(projdir, q['file'])
    try:
        if q['op'] == 'assist':
            _prefix, names = assist(project, q['source'], tuple(q['pos']), fn)
            return ['ok', sorted(set(names))]
        res = location(project, q['source'], tuple(q['pos']), fn)
        chain = []
        for r in res:
            alts = r if isinstance(r, list) else [r]
            chain.append([[os.path.relpath(os.path.realpath(a['file']), os.path.realpath(projdir))
                           if a['file'] and os.path.isabs(a['file']) else a['file'],
                           a['loc'][0], a['loc'][1]] for a in alts])
        return ['ok', chain]
    except RecursionError:
        return ['exc', 'RecursionError']
    except Exception as e:                                          # noqa
        return ['exc', '%s: %s' % (type(e).__name__, str(e)[:200])]


# ------------------------------------------------------------------------------------------------
# queries
# ------------------------------------------------------------------------------------------------

def reach_forms(spec, R, cid, target):
    """Ways to reach class `cid` (or its maker/getter function when target is 'maker'/'getter'):
    list of dict(file, header(list of lines), expr, form).  file None = the class's own module buffer."""
    c = spec['classes'][cid - NBUILTIN]
    mi = c['module']
    modules = spec['modules']
    tname = modules[mi]
    nm = c['name'] if target == 'class' else R.makers[cid][target]
    out = [{'file': None, 'mi': mi, 'header': [], 'expr': nm, 'form': 'same'}]
    for f in import_forms(modules, 'root', mi):
        if f == 'reexport' and target != 'class' and not spec['reexport_star']:
            continue
        stmt, e = import_stmt(f, tname, nm)
        out.append({'file': 'q_root.py', 'header': [stmt], 'expr': e, 'form': f})
    for pk in packages_of(modules):
        # a query file inside every package of the layout: relative imports of level 1, 2, ... and downwards
        for f in ('rel_from', 'rel_mod'):
            if f in import_forms(modules, pk, mi):
                stmt, e = import_stmt(f, tname, nm, pk)
                lvl = len(stmt.split(' ')[1]) - len(stmt.split(' ')[1].lstrip('.'))
                out.append({'file': pk.replace('.', '/') + '/q_rel.py', 'header': [stmt], 'expr': e,
                            'form': '%s_level%d' % (f, lvl)})
    return out


def make_query(R, spec, reach, expr_form, attr, op):
    """Build the buffer for `expr.|` (assist) or `expr.at|tr` (location)."""
    header = list(reach['header'])
    e = reach['expr']
    if expr_form == 'class':
        expr = e
    elif expr_form in ('inst', 'maker_call', 'getter_call'):
        expr = e + '()'
    elif expr_form == 'var':
        header.append('v_ = %s()' % e)
        expr = 'v_'
    else:
        raise ValueError(expr_form)
    if reach['file'] is None:
        rel = spec['modules'][reach['mi']].replace('.', '/') + '.py'
        base = R.files[rel].rstrip('\n').split('\n')
    else:
        rel = reach['file']
        base = []
    lines = base + header
    if op == 'assist':
        lines.append(expr + '.')
        pos = [len(lines), len(lines[-1])]
    else:
        lines.append(expr + '.' + attr)
        pos = [len(lines), len(expr) + 1 + max(1, len(attr) // 2)]
    return {'op': op, 'file': rel, 'source': '\n'.join(lines) + '\n', 'pos': pos}


def self_query(R, spec, cid, ph, attr, op):
    mi, line, _kind, arg = ph
    rel = spec['modules'][mi].replace('.', '/') + '.py'
    lines = R.files[rel].rstrip('\n').split('\n')
    ind = '        '
    if op == 'assist':
        lines[line - 1] = ind + arg + '.'
        pos = [line, len(lines[line - 1])]
    else:
        lines[line - 1] = ind + arg + '.' + attr
        pos = [line, len(ind) + len(arg) + 1 + max(1, len(attr) // 2)]
    return {'op': op, 'file': rel, 'source': '\n'.join(lines) + '\n', 'pos': pos}


def spec_names(spec):
    names = set()
    for c in spec['classes']:
        for m in c['members']:
            names.add(m['name'])
            for a in m['assigns']:
                names.add(a['attr'])
    return sorted(names)


def is_source_ident(idn):
    return idn is not None and idn[0] in ('lit', 'code')


def plan_queries(spec, R, oracle, rng, thorough):
    qs = []
    names = spec_names(spec)
    for c in spec['classes']:
        cid = c['id']
        orc = oracle['classes'][str(cid)]
        cls_prod = [('reach', r, 'class') for r in reach_forms(spec, R, cid, 'class')]
        inst_prod = [('reach', r, f) for r in reach_forms(spec, R, cid, 'class') for f in ('inst', 'var')]
        if 'getter' in R.makers[cid]:
            cls_prod += [('reach', r, 'getter_call') for r in reach_forms(spec, R, cid, 'getter')]
        if 'maker' in R.makers[cid]:
            inst_prod += [('reach', r, 'maker_call') for r in reach_forms(spec, R, cid, 'maker')]
        for ph in R.placeholders[cid]:
            # `self` in a method is an instance of the class; `cls` in a classmethod is the class itself
            (inst_prod if ph[2] == 'self' else cls_prod).append(('self', ph, ph[2]))

        def build(prod, attr, op):
            kind, a, form = prod
            if kind == 'reach':
                q = make_query(R, spec, a, form, attr, op)
                q['via'] = a['form']
                q['expr'] = form
            else:
                q = self_query(R, spec, cid, a, attr, op)
                q['via'] = 'same'
                q['expr'] = form                    # 'self' or 'cls'
            return q

        for table, prods in (('cls', cls_prod), ('inst', inst_prod)):
            chosen = prods if thorough else rng.sample(prods, min(3, len(prods)))
            if not thorough:
                phs = [p for p in prods if p[0] == 'self']
                if phs and rng.random() < 0.5:
                    chosen = chosen[:2] + [rng.choice(phs)]
            for p in chosen:
                q = build(p, None, 'assist')
                q.update({'table': table, 'cid': cid, 'attr': None})
                qs.append(q)
            for x in names:
                reps = 2 if thorough else 1
                for p in rng.sample(prods, min(reps, len(prods))):
                    # what Python's lookup selects on the REAL object of this expression
                    if table == 'cls' or p[2] == 'cls':
                        idn = orc['cls_lookup'].get(x)
                    else:
                        v = orc['inst_lookup'].get(x)
                        idn = v[1] if v else None
                    if not is_source_ident(idn) and not (idn is not None and x in orc['src_class_names']):
                        continue                  # nothing source-defined along the MRO
                    # (when the lookup selects a builtin's slot although a source class further along the MRO defines
                    #  the name - `class Cache(dict, Store)`, Store.get - the answer must NOT be that source definition)
                    q = build(p, x, 'location')
                    q.update({'table': table, 'cid': cid, 'attr': x})
                    qs.append(q)
    # imported module as the expression: `import m` / `from pkg import sub0` ... then `m.|`
    for mi, mname in enumerate(spec['modules']):
        short = mname.split('.')[-1]
        forms = [('import %s' % mname, mname), ('import %s as mm_' % mname, 'mm_')]
        if '.' in mname:
            forms.append(('from %s import %s' % (package_of(mname), short), short))
        for stmt, e in (forms if thorough else [rng.choice(forms)]):
            reach = {'file': 'q_root.py', 'header': [stmt], 'expr': e, 'form': 'module'}
            via = stmt.split(' ')[0] + ('_as' if ' as ' in stmt else '') + '_module'
            q = make_query(R, spec, reach, 'class', None, 'assist')
            q.update({'table': 'mod', 'cid': mi, 'attr': None, 'via': via, 'expr': 'module'})
            qs.append(q)
            defined = [n for n, s in R.modnames[mi] if s is not None]
            for x in (defined if thorough else rng.sample(defined, min(2, len(defined)))):
                q = make_query(R, spec, reach, 'class', x, 'location')
                q.update({'table': 'mod', 'cid': mi, 'attr': x, 'via': via, 'expr': 'module'})
                qs.append(q)
    # value of an attribute: literal class variable / instance slot (`C.K.|`, `C().x.|`), what a property or descriptor
    # getter returns (`C().prop.|`, go-to-definition behind it `C().prop.ret_me|th`) and what a single-return method
    # returns (`C().meth().|`); the expectation is what CPython found on the value it computed
    classes = spec['classes']

    def live_def(cid, x):
        """(defining class, member) the lookup of x on class cid selects (only used to choose queries)"""
        for k in ancestors(classes, cid):
            if k >= NBUILTIN:
                ms = [m for m in classes[k - NBUILTIN]['members'] if m['name'] == x]
                if ms:
                    return k, ms[-1]
        return None, None

    vals, getters = [], []
    for c in classes:
        cid = c['id']
        orc = oracle['classes'][str(cid)]
        for x, idn in sorted(orc['cls_lookup'].items()):
            if idn and idn[0] == 'lit':
                vals.append((cid, 'class', x, ''))
        for x, v in sorted(orc['inst_lookup'].items()):
            if not v:
                continue
            on_type = orc['cls_lookup'].get(x)
            k, m = live_def(cid, x)
            # `self` in a getter is an instance of the DEFINING class for supp: a getter returning self.<a> is asked
            # on instances of its own class only (see notes, observation O4)
            own_self = not (m and str(m.get('ret', '')).startswith('self:') and k != cid)
            if orc['values'].get(x, {}).get('kind') in ('int', 'str', 'ret'):
                if v[0] or (on_type and on_type[0] == 'lit'):
                    vals.append((cid, 'inst', x, ''))
                elif on_type and on_type[0] == 'code' and own_self:
                    getters.append((cid, 'inst', x, ''))
            if not v[0] and orc.get('callvalues', {}).get(x, {}).get('kind') in ('int', 'str', 'ret') and own_self:
                getters.append((cid, 'inst', x, '()'))
    if not thorough:
        vals = rng.sample(vals, min(3, len(vals)))
        getters = rng.sample(getters, min(10, len(getters)))
    for cid, form, x, call in vals + getters:
        reach = rng.choice(reach_forms(spec, R, cid, 'class'))
        base = make_query(R, spec, reach, form, x, 'location')
        lines = base['source'].rstrip('\n').split('\n')
        tail = lines[-1] + call
        expr = ('call_value' if call else 'value_' + form)
        q = dict(base)
        lines[-1] = tail + '.'                                   # `expr.attr` -> `expr.attr.|`
        q.update({'op': 'assist', 'source': '\n'.join(lines) + '\n', 'pos': [len(lines), len(lines[-1])],
                  'table': 'lit', 'cid': cid, 'attr': x, 'via': reach['form'], 'expr': expr})
        qs.append(q)
        d = oracle['classes'][str(cid)]['callvalues' if call else 'values'].get(x, {})
        if form == 'inst' and d.get('kind') == 'ret':
            q = dict(base)
            lines[-1] = tail + '.ret_meth'                       # `expr.attr.ret_me|th`
            q.update({'op': 'location', 'source': '\n'.join(lines) + '\n', 'pos': [len(lines), len(tail) + 5],
                      'table': 'lit', 'cid': cid, 'attr': x, 'via': reach['form'], 'expr': expr})
            qs.append(q)
    return qs


def eval_hierarchy(job):
    """job = (index, spec, query seed, thorough flag, scratch root).  Returns a JSON-able record."""
    idx, spec, qseed, thorough, root = job
    if sys.path[0] != REPO:
        sys.path.insert(0, REPO)
    from supp.project import Project
    projdir = tempfile.mkdtemp(prefix='h%d_' % idx, dir=root)
    try:
        R = render(spec)
        write_project(projdir, R.files)
        rec = {'idx': idx, 'spec': spec, 'files': R.files, 'sites': [list(s) for s in R.sites],
               'cls': {str(k): {'own': v['own'], 'selfs': v['selfs'], 'site': v['site']} for k, v in R.cls.items()},
               'modnames': {str(k): v for k, v in R.modnames.items()},
               'firstline': [[k[0], k[1], v] for k, v in sorted(R.firstline.items())]}
        oracle = run_oracle(projdir, spec, spec_names(spec), projdir)
        rec['oracle'] = oracle
        rng = random.Random('C06q/%s' % qseed)
        qs = plan_queries(spec, R, oracle, rng, thorough)
        project = Project([projdir])
        for q in qs:
            q['result'] = supp_query(project, projdir, q)
        rec['queries'] = qs
        return rec
    finally:
        shutil.rmtree(projdir, ignore_errors=True)


# ------------------------------------------------------------------------------------------------
# Gallina printing
# ------------------------------------------------------------------------------------------------

class Interner(object):
    def __init__(self):
        self.ids = {}

    def __call__(self, name):
        if name not in self.ids:
            self.ids[name] = len(self.ids) + 1
        return self.ids[name]


def site_term(s):
    return '(%d, %d, %d)%%N' % (s[0], s[1], s[2])


RT = '(0, 0, 0)%N'


def pairs_term(pairs, intern):
    return coq_list(['(%s, %s)' % (coq_N(intern(n)), s) for n, s in pairs])


def builtin_rows_prelude(intern):
    rows = []
    for b in BUILTIN_ROWS:
        names = sorted(vars(BUILTIN_TYPES[b]))
        rows.append('mkCls [] %s []' % pairs_term([(n, RT) for n in names], intern))
    return 'Definition brows : table := %s.\n' % coq_list(rows)


def coq_site_of(rec, sidx):
    mi, line, col, _w = rec['sites'][sidx]
    return (mi + 1, line, col)


def rel_site_of(rec, sidx):
    mi, line, col, _w = rec['sites'][sidx]
    return [rec['spec']['modules'][mi].replace('.', '/') + '.py', line, col]


def table_term(rec, intern):
    rows = []
    for c in rec['spec']['classes']:
        info = rec['cls'][str(c['id'])]
        own = [(n, site_term(coq_site_of(rec, s))) for n, s in info['own']]
        selfs = [(n, site_term(coq_site_of(rec, s))) for n, s in info['selfs']]
        rows.append('mkCls %s %s %s' % (coq_list([coq_nat(b) for b in c['bases']]), pairs_term(own, intern),
                                        pairs_term(selfs, intern)))
    for mi in range(len(rec['spec']['modules'])):
        own = [(n, site_term(coq_site_of(rec, s)) if s is not None else RT) for n, s in rec['modnames'][str(mi)]]
        rows.append('mkCls [] %s []' % pairs_term(own, intern))
    return '(brows ++ %s)' % coq_list(rows)


def file_module_index(rec, relfile):
    for mi, m in enumerate(rec['spec']['modules']):
        if m.replace('.', '/') + '.py' == relfile:
            return mi
    return None


def landing_sites(rec, chain):
    """last element of a location chain as model sites (module id 0 when the file is not a project module)."""
    out = []
    for f, l, c in chain[-1]:
        mi = file_module_index(rec, f)
        out.append((mi + 1 if mi is not None else 0, l, c))
    return out


PRELUDE_I = '''
Definition tab (T : table) (c : nat) (inst : bool) : dict entry :=
  if inst then inst_attrs T c else cls_entries (class_attrs T c).
(* an empty answer of `location` = no source position: the name is absent or bound to a runtime object *)
Definition loc_matches (e : option entry) (obs : list site) : bool :=
  match obs, e with
  | [], Some (ClsAt s) => site_eqb s rt_site
  | _, _ => entry_matches e obs
  end.
Definition check_q (T : table) (q : nat * bool * option (list N) * list (N * list site)) : bool :=
  match q with
  | (c, inst, ks, locs) =>
      let d := tab T c inst in
      match ks with None => true | Some ks => seteqN (keys d) ks end &&
      forallb (fun p => loc_matches (get (fst p) d) (snd p)) locs
  end.
Definition check_case (cs : table * list (nat * bool * option (list N) * list (N * list site))) : bool :=
  wf (fst cs) && forallb (check_q (fst cs)) (snd cs).
Definition bad_queries (cs : table * list (nat * bool * option (list N) * list (N * list site))) : list nat :=
  bad_idx (check_q (fst cs)) (snd cs).
'''

PRELUDE_R = '''
Definition src_only (o : option site) : option site :=
  match o with Some s => if site_eqb s rt_site then None else Some s | None => None end.
Definition drop_obj (l : list nat) : list nat := filter (fun k => negb (Nat.eqb k obj)) l.
Definition self_keys (T : table) (c : nat) : list N :=
  flat_map (fun k => keys (self_assigned (row T k))) (mro T c).
Definition check_ilk (T : table) (c : nat) (p : N * (bool * option site)) : bool :=
  match snd p with
  | (true, Some s) => mem_site s (py_inst_sites T c (fst p)) &&
                      match py_instance_lookup T c (fst p) with Some (InstAt _) => true | _ => false end
  | (true, None) => false
  | (false, o) => match py_instance_lookup T c (fst p) with
                  | Some (ClsAt s) => opt_site_eqb (src_only (Some s)) o
                  | Some (InstAt _) => false
                  | None => match o with None => true | Some _ => false end
                  end
  end.
Definition r_parts (T : table)
    (r : nat * list nat * list N * list N * list (N * option site) * list (N * (bool * option site))) : list bool :=
  match r with
  | (c, mro_obs, own_obs, dict_obs, clk, ilk) =>
      [ in_domain T c;
        list_nat_eqb (mro T c) (if memb obj (dfs T c) then mro_obs else drop_obj mro_obs);
        match c3_mro T c with C3Ok l => list_nat_eqb l (mro T c) | _ => false end;
        seteqN (keys (own (row T c))) own_obs;
        seteqN (self_keys T c) dict_obs;
        forallb (fun p => opt_site_eqb (src_only (py_class_lookup T c (fst p))) (snd p)) clk;
        forallb (check_ilk T c) ilk ]
  end.
Definition check_case (cs : table * list (nat * list nat * list N * list N * list (N * option site) * list (N * (bool * option site)))) : bool :=
  wf (fst cs) && forallb (fun r => forallb (fun b => b) (r_parts (fst cs) r)) (snd cs).
'''


def run_cases_groups(ctx, groups, shard):
    """ctx.run_cases for several (prelude, case terms) groups in ONE parallel batch of coqc jobs.
    Returns one sorted list of failing case indices per group."""
    jobs, where = [], []
    for gi, (prelude, terms) in enumerate(groups):
        for off in range(0, len(terms), shard):
            pre = prelude + '\nDefinition cases__ := %s.\n' % coq_list(terms[off:off + shard])
            jobs.append((['Model.Attrs'], pre, ['bad_idx check_case cases__']))
            where.append((gi, off))
    out = [[] for _ in groups]
    for (gi, off), res in zip(where, ctx.coq_eval_many(jobs)):
        out[gi].extend(off + i for i in res[0])
    return [sorted(x) for x in out]


def opt_site(s):
    return 'None' if s is None else '(Some %s)' % site_term(s)


def ident_sidx(rec, idn):
    """index into rec['sites'] of an object identified by the oracle; None for runtime/absent; -1 unknown."""
    if idn is None or idn[0] not in ('lit', 'code'):
        return None
    if idn[0] == 'lit':
        k = idn[1] - SITE_LIT0
        return k if 0 <= k < len(rec['sites']) else -1
    mi = file_module_index(rec, idn[1])
    for m, line, sidx in rec['firstline']:
        if m == mi and line == idn[2]:
            return sidx
    return -1


def ident_site(rec, idn):
    k = ident_sidx(rec, idn)
    if k is None:
        return None
    return coq_site_of(rec, k) if k >= 0 else (999, 0, 0)


def class_row_of(rec, modq):
    """row index of a real class (module, qualname), or None when it is not a row of the table."""
    mod, qn = modq
    if mod == 'builtins' and qn in BUILTIN_ROWS:
        return BUILTIN_ROWS.index(qn)
    for c in rec['spec']['classes']:
        if rec['spec']['modules'][c['module']] == mod and c['name'] == qn:
            return c['id']
    return None


def i_case_term(rec, intern):
    ncls = len(rec['spec']['classes'])
    qts = []
    kept = []
    seen = set()
    for qi, q in enumerate(rec['queries']):
        if q['table'] == 'lit' or q['result'][0] != 'ok':
            continue
        if q['table'] == 'mod':
            c, inst = NBUILTIN + ncls + q['cid'], False
        else:
            c, inst = q['cid'], q['table'] == 'inst'
        if q['op'] == 'assist':
            ks = '(Some %s)' % coq_list([coq_N(intern(n)) for n in q['result'][1]])
            locs = '[]'
        else:
            chain = q['result'][1]
            ks = 'None'
            obs = coq_list([site_term(s) for s in landing_sites(rec, chain)]) if chain else '[]'
            locs = coq_list(['(%s, %s)' % (coq_N(intern(q['attr'])), obs)])
        term = '(%s, %s, %s, %s)' % (coq_nat(c), 'true' if inst else 'false', ks, locs)
        if term in seen:
            continue              # another query of this hierarchy observed exactly the same answer for the same table
        seen.add(term)
        qts.append(term)
        kept.append(qi)
    return '(%s, %s)' % (table_term(rec, intern), coq_list(qts)), kept


def r_case_term(rec, intern):
    rts = []
    for c in rec['spec']['classes']:
        orc = rec['oracle']['classes'][str(c['id'])]
        mro_rows = [class_row_of(rec, k) for k in orc['mro']]
        mro_obs = [r for r in mro_rows if r is not None]
        clk = coq_list(['(%s, %s)' % (coq_N(intern(x)), opt_site(ident_site(rec, idn)))
                        for x, idn in sorted(orc['cls_lookup'].items())])
        ilk = coq_list(['(%s, (%s, %s))' % (coq_N(intern(x)), 'true' if (v and v[0]) else 'false',
                                             opt_site(ident_site(rec, v[1]) if v else None))
                        for x, v in sorted(orc['inst_lookup'].items())])
        rts.append('(%s, %s, %s, %s, %s, %s)' % (
            coq_nat(c['id']), coq_list([coq_nat(r) for r in mro_obs]),
            coq_list([coq_N(intern(n)) for n in orc['vars']]),
            coq_list([coq_N(intern(n)) for n in orc['dict']]), clk, ilk))
    return '(%s, %s)' % (table_term(rec, intern), coq_list(rts))


# ------------------------------------------------------------------------------------------------
# direct property evaluator: real supp against real CPython, no model in between
# ------------------------------------------------------------------------------------------------

def src_site(rec, idn):
    """[relfile, line, col] of the object the oracle identified, or None when it is not source-defined."""
    k = ident_sidx(rec, idn)
    if k is None or k < 0:
        return None
    return rel_site_of(rec, k)


def direct_failures(rec):
    """List of (query index, message) where supp's answer violates C06 against what CPython found."""
    bad = []
    spec = rec['spec']
    for qi, q in enumerate(rec['queries']):
        st, res = q['result']
        if st != 'ok':
            bad.append((qi, 'supp raised %s' % res))
            continue
        if q['table'] == 'lit':
            orc = rec['oracle']['classes'][str(q['cid'])]
            if q['expr'] == 'call_value':
                d = orc['callvalues'][q['attr']]
            elif q['expr'] == 'value_inst':
                d = orc['values'][q['attr']]
            else:
                d = {'kind': 'literal'}                           # class variable: `x = 1007` or `x = 's1007'`
            what = '%s%s' % (q['attr'], '()' if q['expr'] == 'call_value' else '')
            if q['op'] == 'assist':
                got = set(res)
                if d['kind'] == 'ret':
                    # CPython evaluated the expression to an instance of a source class: its attributes must be proposed
                    miss = sorted(set(d['names']) - got)
                    if miss:
                        bad.append((qi, 'value of %s is an instance whose attributes %s are not proposed' % (what, miss)))
                else:
                    want = [set(dir(1))] if d['kind'] == 'int' else [set(dir(''))] if d['kind'] == 'str' else [set(dir(1)), set(dir(''))]
                    if not any(w <= got for w in want):
                        bad.append((qi, 'value of %s is %s under CPython; its attributes are not proposed: %s' % (what, d['kind'], sorted(got)[:8])))
            else:
                text = rec['files'][d['meth'][0]].split('\n')[d['meth'][1] - 1]
                exp = [d['meth'][0], d['meth'][1], text.index('def ret_meth') + 4]
                if len(res) != 1 or res[-1] != [exp]:
                    bad.append((qi, 'definition behind the value of %s: Python finds ret_meth at %s, supp lands on %s' % (what, exp, res)))
            continue
        if q['table'] == 'mod':
            mname = spec['modules'][q['cid']]
            onames = rec['oracle']['modules'][mname]
            if q['op'] == 'assist':
                miss = sorted({n for n, _idn in onames} - set(res))
                if miss:
                    bad.append((qi, 'module proposals miss %s' % miss))
            else:
                idn = dict((n, i) for n, i in onames).get(q['attr'])
                exp = None
                if idn and idn[0] == 'code':
                    exp = src_site(rec, idn)
                elif idn and idn[0] == 'class':
                    r = class_row_of(rec, [idn[1], idn[2]])
                    if r is not None and r >= NBUILTIN:
                        exp = rel_site_of(rec, rec['cls'][str(r)]['site'])
                if exp is not None and (not res or res[-1] != [exp]):
                    bad.append((qi, 'module attribute %s is defined at %s, supp lands on %s' % (q['attr'], exp, res)))
            continue
        orc = rec['oracle']['classes'][str(q['cid'])]
        real_is_class = q['table'] == 'cls' or q['expr'] == 'cls'
        if q['op'] == 'assist':
            want = set(orc['src_class_names'])
            if not real_is_class:
                want |= set(orc['dict'])
            miss = sorted(want - set(res))
            if miss:
                bad.append((qi, 'proposals miss source-defined attributes %s' % miss))
            continue
        x = q['attr']
        if real_is_class:
            in_dict, idn = False, orc['cls_lookup'].get(x)
        else:
            v = orc['inst_lookup'].get(x)
            in_dict, idn = (v[0], v[1]) if v else (False, None)
        if in_dict:
            accept = []
            for k in orc['mro']:
                r = class_row_of(rec, k)
                if r is not None and r >= NBUILTIN:
                    accept += [rel_site_of(rec, s) for n, s in rec['cls'][str(r)]['selfs'] if n == x]
            got = res[-1] if res else []
            if len(res) != 1 or not got or any(g not in accept for g in got):
                bad.append((qi, 'instance attribute %s: supp lands on %s, acceptable assignment sites %s' % (x, res, accept)))
            elif src_site(rec, idn) not in accept:
                bad.append((qi, 'oracle inconsistency: CPython value of %s comes from %s' % (x, idn)))
        else:
            exp = src_site(rec, idn)
            if exp is None:
                # Python's lookup selects an object without source (a builtin base's slot comes first in the MRO):
                # landing on a source definition of the same name further along the MRO is a wrong answer
                if idn is not None and any(file_module_index(rec, f) is not None for alts in res for f, _l, _c in alts):
                    bad.append((qi, 'attribute %s: Python selects a builtin (%s), supp lands on the source definition %s' % (x, idn[1], res)))
                continue
            if len(res) != 1 or res[-1] != [exp]:
                bad.append((qi, 'attribute %s: Python selects %s, supp lands on %s' % (x, exp, res)))
    return bad


def describe(rec, qi):
    q = rec['queries'][qi]
    return {'files': rec['files'],
            'query': {k: q.get(k) for k in ('op', 'file', 'source', 'pos', 'table', 'cid', 'attr', 'via', 'expr')},
            'supp_result': q['result'], 'spec': rec['spec']}


# ------------------------------------------------------------------------------------------------
# corpus, run, replay
# ------------------------------------------------------------------------------------------------

def load_corpus():
    d = os.path.join(VERIF, 'corpus', 'C06')
    out = []
    if os.path.isdir(d):
        for f in sorted(os.listdir(d)):
            if f.endswith('.json'):
                obj = json.load(open(os.path.join(d, f)))
                if 'spec' in obj and not f.startswith('known_'):
                    out.append((f, obj))
    return out


KNOWN_ORACLE = ('import sys, importlib; sys.path.insert(0, sys.argv[1]); m = importlib.import_module(sys.argv[2]); '
                'v = eval(sys.argv[3], vars(m)); f = getattr(v, "__func__", v); '
                'print(f.__code__.co_filename); print(f.__code__.co_firstlineno)')


def run_known_entries(ctx):
    """Open findings: re-run the concrete recorded input against CPython; KNOWN-FINDING is printed only
    when that input still fails (never for other inputs)."""
    from supp.project import Project
    d = os.path.join(VERIF, 'corpus', 'C06')
    for fn in sorted(os.listdir(d)) if os.path.isdir(d) else []:
        if not (fn.startswith('known_') and fn.endswith('.json')):
            continue
        e = json.load(open(os.path.join(d, fn)))
        projdir = tempfile.mkdtemp(prefix='known_', dir=ctx.scratch)
        write_project(projdir, e['files'])
        env = {k: v for k, v in os.environ.items() if k != 'PYTHONPATH'}
        env['PYTHONDONTWRITEBYTECODE'] = '1'
        p = subprocess.run([PY, '-S', '-E', '-c', KNOWN_ORACLE, projdir, e['module'], e['expr']], stdout=subprocess.PIPE,
                           stderr=subprocess.PIPE, text=True, timeout=60, env=env)
        if p.returncode != 0:
            raise RuntimeError('oracle failed on %s: %s' % (fn, p.stderr[-500:]))
        ofile, oline = p.stdout.strip().split('\n')
        rel = os.path.relpath(os.path.realpath(ofile), os.path.realpath(projdir))
        text = e['files'][rel].split('\n')[int(oline) - 1]
        expected = [rel, int(oline), text.index('def ' + e['attr']) + 4]
        res = supp_query(Project([projdir]), projdir, e['query'])
        ok = res[0] == 'ok' and len(res[1]) == 1 and res[1][-1] == [expected]
        ctx.count(('known', fn), nontrivial=True)
        ctx.histogram('known_entries', '%s:%s' % (e['id'], 'holds-now' if ok else 'still-fails'))
        if not ok:
            registered = any(f.get('id') == e['id'] for f in ctx.open_findings())
            ctx.known_finding(e['id'], '%s: Python selects %s, supp answers %s%s' % (
                e['expr'], expected, res, '' if registered else ' (entry proposed in notes/C06.md, not yet in known_findings.json)'))


def hist_spec(ctx, spec):
    classes = spec['classes']
    ctx.histogram('classes_per_hierarchy', len(classes))
    ctx.histogram('modules_layout', '+'.join(spec['modules']))
    ctx.histogram('descriptor_chain_layout', spec.get('desc_layout', 'local'))
    for c in classes:
        ctx.histogram('bases_per_class', len(c['bases']))
        ctx.histogram('depth', depth_of(classes, c['id']))
        for b in c['bases']:
            ctx.histogram('base_kind', BUILTIN_ROWS[b] if b < NBUILTIN else 'source')
        for m in c['members']:
            ctx.histogram('member_kind', m['kind'])
            if m['kind'] == 'desc':
                ctx.histogram('descriptor_decorator', '%s (__get__ %s)' % (m.get('deco', 'Desc'),
                              ['own body', 'inherited 1 level up', 'inherited 2 levels up'][DECO_LEVEL[m.get('deco', 'Desc')]]))
            if m['kind'] in ('property', 'desc'):
                ctx.histogram('getter_returns', m.get('ret', 'lit'))
            for a in m['assigns']:
                ctx.histogram('self_assign_in', ('__init__' if m['name'] == '__init__' else m['kind']) +
                              ('/' + a['wrap'] if a['wrap'] else ''))
    for f in spec['refs'].values():
        ctx.histogram('base_import_form', f)
    for c in classes:
        if any(str(m.get('ret', '')).startswith('self:') for m in c['members']):
            ctx.histogram('round3_shapes', 'getter returns self.<a> + alias assignment')
        if c['name'] != 'C%d' % c['id']:
            ctx.histogram('round3_shapes', 'class rebinding the name of its base')
    for _mi in spec.get('recursive_receiver', []):
        ctx.histogram('round3_shapes', 'receiver of an attribute assignment computed recursively')
    for c in classes:
        if 'alt_base' in c:
            ctx.histogram('extended_domain_shapes', 'base bound on two paths, other alternative: ' + c['alt_base']['kind'])
        bs = c['bases']
        if any(b < NBUILTIN and any(b2 >= NBUILTIN for b2 in bs[k + 1:]) for k, b in enumerate(bs)):
            ctx.histogram('builtin_base_position', 'builtin base written before a source base')
        elif any(b < NBUILTIN for b in bs):
            ctx.histogram('builtin_base_position', 'builtin base last / only')
    for mi, m in enumerate(spec['modules']):
        lv = set()
        for key, f in spec['refs'].items():
            if int(key.split(':')[0]) == mi and f in ('rel_from', 'rel_mod'):
                tgt = spec['modules'][classes[int(key.split(':')[1]) - NBUILTIN]['module']]
                lv.add(len(relative_parts(package_of(m), tgt)[0]))
        if len(lv) > 1:
            ctx.histogram('round3_shapes', 'relative imports of different levels in one module')


def run(ctx):
    proof_ok = ctx.coq_props()
    cov = ctx.coverage
    cov['rule'] = (
        'hierarchies (150 quick, 3000 thorough) from the seeded generator (depth <= 4, <= 3 bases, <= 7 classes, builtin rows object/dict/Exception, '
        'members: plain/property/descriptor/classmethod/staticmethod defs, int/str class variables, re-definitions, '
        'self-assignments in any self-method incl. nested blocks; 1-3 modules and/or a package with re-exports), filtered by '
        'Attrs.in_domain. One evaluation = one assist/location query of the real code or one class of the CPython oracle; '
        'non-trivial = a location query, or a class with at least one base or member.')
    nh = ctx.pick(150, 3000)
    jobs = []
    corpus = load_corpus()
    for fn, obj in corpus:
        jobs.append((len(jobs), obj['spec'], 'corpus/' + fn, True, ctx.scratch))
    ncorpus = len(jobs)
    for i in range(nh):
        spec = gen_spec(ctx.rng)
        jobs.append((len(jobs), spec, '%s/%d' % (ctx.seed, i), ctx.thorough() and i % 10 == 0, ctx.scratch))
    workers = int(os.environ.get('VERIF_JOBS', '16'))
    with ProcessPoolExecutor(max_workers=workers) as ex:
        recs = list(ex.map(eval_hierarchy, jobs, chunksize=4))
    ctx.log('evaluated %d hierarchies (%d from corpus), %d supp queries' % (
        len(recs), ncorpus, sum(len(r['queries']) for r in recs)))

    run_known_entries(ctx)

    # ---- direct evaluator ------------------------------------------------------------------------
    nviol = 0
    direct_bad_h = set()
    for rec in recs:
        hist_spec(ctx, rec['spec'])
        fkey = sorted(rec['files'].items())
        for q in rec['queries']:
            c = rec['spec']['classes'][q['cid'] - NBUILTIN] if q['table'] in ('cls', 'inst') else None
            nontrivial = q['op'] == 'location' or (c is not None and (bool(c['bases']) or bool(c['members'])))
            ctx.count((fkey, q['source'], q['pos'], q['op']), nontrivial=nontrivial)
            ctx.histogram('query_op', q['op'])
            ctx.histogram('expression_form', q['expr'])
            ctx.histogram('import_form', q['via'])
            ctx.histogram('table', q['table'])
        for c in rec['spec']['classes']:
            ctx.count(('R', fkey, c['id']), nontrivial=bool(c['bases']) or bool(c['members']))
            orc = rec['oracle']['classes'][str(c['id'])]
            for x, v in orc['inst_lookup'].items():
                if v is None:
                    continue
                if v[0]:
                    kind = 'instance-slot-over-class-attr' if orc['cls_lookup'].get(x) is not None else 'instance-slot'
                elif not is_source_ident(v[1]):
                    kind = 'runtime'
                else:
                    kind = 'own-class' if any(n == x for n, _s in rec['cls'][str(c['id'])]['own']) else 'inherited'
                ctx.histogram('python_instance_lookup_lands', kind)
        bad = direct_failures(rec)
        if bad:
            direct_bad_h.add(rec['idx'])
        for qi, msg in bad:
            q = rec['queries'][qi]
            if is_extended(rec['spec']):
                next_ = getattr(ctx, 'extension_failures', 0)
                if next_ < 15:
                    ctx.extension_failure('C06 direct (base bound on two paths, one not a class): %s [%s via %s, hierarchy %d]' % (
                        msg, q['expr'], q['via'], rec['idx']), dict(describe(rec, qi), kind='direct-extended', message=msg))
                continue
            nviol += 1
            if nviol <= 15:
                ctx.violation('C06 direct: %s [%s via %s, hierarchy %d]' % (msg, q['expr'], q['via'], rec['idx']),
                              dict(describe(rec, qi), kind='direct', message=msg))
    cov['direct_failures'] = nviol
    for rec in recs[ncorpus:ncorpus + 2]:
        qs = [q for q in rec['queries'] if q['op'] == 'location'][:2]
        ctx.sample({'files': rec['files'],
                    'queries': [{'source_tail': q['source'].rstrip('\n').split('\n')[-2:], 'pos': q['pos'],
                                 'file': q['file'], 'result': q['result']} for q in qs]}, limit=2)

    # ---- (I) and (R) correspondences inside Coq --------------------------------------------------
    intern = Interner()
    prelude_b = builtin_rows_prelude(intern)
    i_terms, i_kept, r_terms = [], [], []
    for rec in recs:
        t, kept = i_case_term(rec, intern)
        i_terms.append(t)
        i_kept.append(kept)
        r_terms.append(r_case_term(rec, intern))
    # quick: both groups fit one wave of coqc jobs (8 + 8 on 16 workers); thorough: 25 hierarchies per file
    shard = 25 if ctx.thorough() else max(10, -(-len(recs) // 8))
    bad_i, bad_r = run_cases_groups(ctx, [(prelude_b + PRELUDE_I, i_terms), (prelude_b + PRELUDE_R, r_terms)], shard)
    cov['correspondence_I_cases'] = sum(1 for r in recs for q in r['queries'] if q['table'] != 'lit' and q['result'][0] == 'ok')
    cov['correspondence_I_distinct_observations'] = sum(len(k) for k in i_kept)
    cov['correspondence_R_cases'] = sum(len(r['spec']['classes']) for r in recs)
    cov['correspondence_I_disagreeing_hierarchies'] = len(bad_i)
    cov['correspondence_R_disagreeing_hierarchies'] = len(bad_r)
    ctx.log('(I) %d queries, %d hierarchies disagree; (R) %d classes, %d hierarchies disagree' % (
        cov['correspondence_I_cases'], len(bad_i), cov['correspondence_R_cases'], len(bad_r)))

    ext = {hi for hi, r in enumerate(recs) if is_extended(r['spec'])}
    for hi in sorted(set(bad_i + bad_r) & ext)[:5]:
        if hi not in direct_bad_h:
            ctx.extension_failure('C06 correspondence %s disagrees on hierarchy %d whose base is bound on two paths (extended domain)' % (
                '(I)' if hi in bad_i else '(R)', hi), {'kind': 'correspondence-extended', 'files': recs[hi]['files'], 'spec': recs[hi]['spec']})
    bad_i = [hi for hi in bad_i if hi not in ext]
    bad_r = [hi for hi in bad_r if hi not in ext]
    for hi in bad_r[:5]:
        rec = recs[hi]
        parts = ctx.coq_eval(['Model.Attrs'], prelude_b + PRELUDE_R + '\nDefinition cs := %s.\n' % r_terms[hi],
                             ['wf (fst cs)', 'map (r_parts (fst cs)) (snd cs)'])
        ctx.violation('(R) reference model Attrs.mro / py_class_lookup / py_instance_lookup disagrees with CPython on '
                      'hierarchy %d (per class: in_domain, mro, c3, vars, __dict__, class lookups, instance lookups = %s): '
                      'the theorems C06_* compare supp with a reference that is not Python' % (hi, parts[1]),
                      {'kind': 'R', 'theorem': 'C06_class_lookup / C06_instance_lookup (reference side)',
                       'files': rec['files'], 'spec': rec['spec'], 'oracle': rec['oracle'], 'parts': parts},
                      found_input=False)
    reported = 0
    for hi in bad_i:
        if hi in direct_bad_h or reported >= 5:
            continue            # already reported with a concrete failing input by the direct evaluator
        reported += 1
        rec = recs[hi]
        res = ctx.coq_eval(['Model.Attrs'], prelude_b + PRELUDE_I + '\nDefinition cs := %s.\n' % i_terms[hi],
                           ['wf (fst cs)', 'bad_queries cs'])
        bq = [i_kept[hi][k] for k in res[1]]
        qi = bq[0] if bq else 0
        q = rec['queries'][qi]
        ctx.violation('(I) model Attrs.class_attrs / inst_attrs disagrees with supp on hierarchy %d, %d queries (first: %s '
                      '%s.%s via %s): theorems C06_* are about a model that is not the code; the direct evaluator found no '
                      'property failure on this hierarchy' % (hi, len(bq), q['op'], q['expr'], q['attr'], q['via']),
                      dict(describe(rec, qi), kind='I', theorem='C06_class_lookup / C06_instance_lookup (implementation side)'),
                      found_input=False)
    if not proof_ok:
        ctx.violation('proof obligations of Props/C06.v not discharged: %s' % (ctx.notes,),
                      {'kind': 'proof', 'theorem': 'Props/C06.v', 'notes': ctx.notes, 'build_error': cov.get('build_error')},
                      found_input=False)


def replay(ctx, obj):
    """Re-run one recorded query and, when the hierarchy spec is recorded, the whole direct evaluator on it."""
    r = obj['replay']
    if sys.path[0] != REPO:
        sys.path.insert(0, REPO)
    rc = 1
    if 'query' in r and r['query'].get('source'):
        from supp.project import Project
        projdir = tempfile.mkdtemp(dir=ctx.scratch)
        write_project(projdir, r['files'])
        res = supp_query(Project([projdir]), projdir, r['query'])
        print('query   :', r['query']['source'].rstrip('\n').split('\n')[-2:], r['query']['pos'], r['query']['op'])
        if r['query']['op'] == 'assist' and res[0] == 'ok':
            res = ['ok', [n for n in res[1] if not n.startswith('__')]]
        print('supp now:', res)
        print('recorded:', r.get('message') or obj.get('what'))
    if 'spec' in r:
        rec = eval_hierarchy((0, r['spec'], 'replay', True, ctx.scratch))
        bad = direct_failures(rec)
        print('direct failures on the whole hierarchy now:', len(bad))
        for qi, msg in bad[:8]:
            print('  ', msg, '|', rec['queries'][qi]['source'].rstrip('\n').split('\n')[-1])
        rc = 1 if bad else 0
    else:
        print(obj.get('what'))
    return rc
