"""Generator of whole modules with nested scopes for C01 (name-level visibility across scopes).

One tree -> plain Python (for supp) and instrumented Python (for CPython): every identifier load
of interest is wrapped as _r(SITE, name) in the instrumented text; _r lives in builtins so that it
perturbs no scope. A successful evaluation logs SITE. Any exception ends the run (only successful
reads matter for C01). Decisions (if / loop trips) come from a list.

Grammar covered: assignment forms, if/else, for/while (+else), try/except/finally, with,
def with every parameter kind, defaults, decorators, annotations, lambda, class with bases /
keywords / decorators, list/set/dict/generator comprehensions, global, nonlocal, import /
from-import / star-import of a generated project module and stdlib modules, break/continue/
return/raise, calls of the generated functions/classes/methods.
"""
import re

MARK = re.compile(r'⟦(\d+)⟧')
BUILTINS = ['len', 'print', 'str', 'int', 'sorted', 'list', 'dict', 'isinstance', 'object', 'Exception']
LIB_NAMES = ['lib_a', 'lib_b', 'lib_f', 'lib_c', 'lib_d', 'lib_e', 'lib_g']
# lib_c, lib_d, lib_e, lib_g are bound on only some paths of the module body (an if without else, a loop body and its
# target, a try body): they are bound whenever this module is really imported, and exported by a star import
LIB_SRC = ('lib_a = 1\nlib_b = [1, 2]\ndef lib_f(*a, **k):\n    return 1\n_lib_private = 3\n'
           'if lib_a:\n    lib_c = 4\nfor lib_d in lib_b:\n    lib_e = lib_d\ntry:\n    lib_g = lib_f()\nexcept ValueError:\n    pass\n')
# two project modules that star-import each other (CPython: importing gencyca first yields both names)
CYC_A_SRC = 'from gencycb import *\ncyc_a = 1\n'
CYC_B_SRC = 'from gencyca import *\ncyc_b = 2\n'
CYC_NAMES = ['cyc_a', 'cyc_b']


class Scope(object):
    def __init__(self, kind, parent):
        self.kind = kind            # module / func / class / lambda
        self.parent = parent
        self.bound = []             # names bound so far in this scope (generation order)
        self.will_bind = set()      # every name this scope binds anywhere (python: local)
        self.globals = set()
        self.nonlocals = set()
        self.funcs = []             # callable names defined here: (name, call string)

    def func_ancestors(self):
        s = self.parent
        while s is not None:
            if s.kind in ('func', 'lambda'):
                yield s
            s = s.parent


class ScopeGen(object):
    def __init__(self, rng, max_depth=3, budget=40):
        self.rng = rng
        self.site = 0
        self.max_depth = max_depth
        self.budget = budget
        self.counter = 0
        self.pool = ['a', 'b', 'c', 'x', 'y', 'z']

    def fresh(self, prefix):
        self.counter += 1
        return '%s%d' % (prefix, self.counter)

    # ---- names visible (approximately) at this point, for mostly-valid programs ----------------
    def candidates(self, sc):
        out = list(sc.bound)
        if sc.kind == 'class':
            anc = sc.parent
        else:
            anc = sc.parent
        # enclosing function scopes (class scopes are skipped by Python)
        s = sc.parent
        while s is not None:
            if s.kind != 'class':
                out.extend(n for n in s.bound if n not in sc.will_bind or sc.kind == 'class' or n in sc.globals or n in sc.nonlocals)
            s = s.parent
        return out

    def read(self, sc, bias=0.85):
        c = self.candidates(sc)
        r = self.rng.random()
        if c and r < bias:
            name = self.rng.choice(c)
        elif r < bias + 0.08:
            name = self.rng.choice(BUILTINS)
        else:
            name = self.rng.choice(self.pool)
        self.site += 1
        return '⟦%d⟧%s' % (self.site, name)

    def expr(self, sc, depth=0):
        r = self.rng.random()
        if depth >= 2 or r < 0.35:
            return self.read(sc)
        if r < 0.45:
            return str(self.rng.randrange(10))
        if r < 0.60:
            return 'lib_f(%s, %s)' % (self.expr(sc, depth + 1), self.expr(sc, depth + 1)) if 'lib_f' in self.candidates(sc) else '(%s, %s)' % (self.expr(sc, depth + 1), self.expr(sc, depth + 1))
        if r < 0.70:
            return '[%s, %s]' % (self.expr(sc, depth + 1), self.expr(sc, depth + 1))
        if r < 0.80:
            return self.comprehension(sc, depth)
        if r < 0.86:
            real = sc
            while getattr(real, 'synthetic', False):
                real = real.parent
            if real.kind in ('func', 'module') and not getattr(sc, 'in_lambda', False) and not getattr(self, 'no_walrus', 0):
                n = self.rng.choice(self.pool)
                if n not in real.globals and n not in real.nonlocals and not any(n in getattr(a, 'comp_targets', ()) for a in self.chain(sc)):
                    val = self.expr(sc, depth + 1)
                    real.will_bind.add(n)
                    self.bind(real, n)
                    return '(%s := %s)' % (n, val)
        if r < 0.90:
            return self.lambda_call(sc, depth)
        callable_ = [f for f in sc.funcs if f[1]]
        if r < 0.94 and callable_:
            self.site += 1
            return '⟦%d⟧%s' % (self.site, self.rng.choice(callable_)[1])
        return '(%s if %s else %s)' % (self.expr(sc, depth + 1), self.read(sc), self.expr(sc, depth + 1))

    def chain(self, sc):
        while sc is not None:
            yield sc
            sc = sc.parent

    def comprehension(self, sc, depth):
        # the first iterable is evaluated in the enclosing scope; the rest in the comprehension's
        # usually a fresh name; sometimes a name that also exists outside (it must not leak / hide it)
        t = self.fresh('t') if self.rng.random() < 0.7 else self.rng.choice(self.pool)
        self.no_walrus = getattr(self, 'no_walrus', 0) + 1
        it = '[%s]' % self.expr(sc, depth + 1)
        self.no_walrus -= 1
        inner = Scope('lambda', sc)       # function-like scope for candidate purposes
        inner.synthetic = True            # a comprehension: walrus targets bind in the enclosing real scope
        inner.comp_targets = (t,)
        inner.in_lambda = getattr(sc, 'in_lambda', False)
        inner.bound.append(t)
        inner.will_bind.add(t)
        # known finding F46: a closure inside a comprehension that sits directly in a class body
        # cannot see the comprehension variable in supp; such closures do not read it here
        inner.comp_in_class = (sc.kind == 'class') or getattr(sc, 'comp_in_class', False)
        elt = self.expr(inner, depth + 1)
        cond = (' if %s' % self.expr(inner, depth + 1)) if self.rng.random() < 0.4 else ''
        kind = self.rng.choice(['list', 'set', 'dict', 'gen'])
        if kind == 'list':
            return '[%s for %s in %s%s]' % (elt, t, it, cond)
        if kind == 'set':
            return 'len({str(%s) for %s in %s%s})' % (elt, t, it, cond)
        if kind == 'dict':
            return '{%s: %s for %s in %s%s}' % (t, elt, t, it, cond)
        return 'list(%s for %s in %s%s)' % (elt, t, it, cond)

    def lambda_call(self, sc, depth):
        p = self.fresh('p')
        outer = sc
        while getattr(outer, 'comp_in_class', False):
            outer = outer.parent
        inner = Scope('lambda', outer)
        inner.in_lambda = True
        inner.bound.append(p)
        inner.will_bind.add(p)
        dflt = self.expr(sc, depth + 1)
        body = self.expr(inner, depth + 1)
        return '(lambda %s=%s: %s)()' % (p, dflt, body)

    # ---- statements --------------------------------------------------------------------------
    def bind(self, sc, name):
        if name in sc.globals:
            m = sc
            while m.parent is not None:
                m = m.parent
            if name not in m.bound:
                m.bound.append(name)
            return
        if name in sc.nonlocals:
            for f in sc.func_ancestors():
                if name in f.will_bind:
                    if name not in f.bound:
                        f.bound.append(name)
                    return
            return
        if name not in sc.bound:
            sc.bound.append(name)

    def target(self, sc):
        n = self.rng.choice(self.pool)
        sc.will_bind.add(n) if (n not in sc.globals and n not in sc.nonlocals) else None
        return n

    def block(self, sc, ind, depth, n_lo=1, n_hi=4, in_loop=False):
        out = []
        for _ in range(self.rng.randint(n_lo, max(n_lo, n_hi))):
            if self.budget <= 0 and out:
                break
            out.extend(self.stmt(sc, ind, depth, in_loop))
        return out or [ind + 'pass']

    def stmt(self, sc, ind, depth, in_loop):
        self.budget -= 1
        r = self.rng.random()
        I = ind
        if depth >= self.max_depth:
            r = r * 0.5
        if r < 0.30:
            val = self.expr(sc)
            form = self.rng.random()
            n = self.target(sc)
            if form < 0.6:
                line = '%s = %s' % (n, val)
            elif form < 0.7:
                line = '%s: int = %s' % (n, val)
            elif form < 0.8:
                n2 = self.target(sc)
                line = '%s, *%s = %s, 1' % (n, n2, val) if n2 != n else '%s = %s' % (n, val)
                self.bind(sc, n2)
            elif form < 0.9:
                line = '(%s := %s)' % (n, val) if sc.kind != 'class' else '%s = %s' % (n, val)
            else:
                n2 = self.target(sc)
                line = '%s = %s = %s' % (n, n2, val)
                self.bind(sc, n2)
            self.bind(sc, n)
            return [I + line]
        if r < 0.40:
            return [I + self.expr(sc)]
        if r < 0.45 and sc.kind == 'module':
            k = self.rng.random()
            if k < 0.3:
                self.bind(sc, 'genlib')
                sc.will_bind.add('genlib')
                return [I + 'import genlib']
            if k < 0.6:
                nm = self.rng.choice(LIB_NAMES)
                self.bind(sc, nm)
                sc.will_bind.add(nm)
                return [I + 'from genlib import %s' % nm]
            if self.rng.random() < 0.4:
                for nm in CYC_NAMES:
                    self.bind(sc, nm)
                    sc.will_bind.add(nm)
                return [I + 'from gencyca import *']
            for nm in LIB_NAMES:
                self.bind(sc, nm)
                sc.will_bind.add(nm)
            return [I + 'from genlib import *']
        if r < 0.50:
            mod, nm = self.rng.choice([('os', 'os'), ('sys', 'sys'), ('os.path', 'os'), ('json', 'json')])
            alias = self.rng.random() < 0.4
            if alias:
                n = self.target(sc)
                self.bind(sc, n)
                return [I + 'import %s as %s' % (mod, n)]
            if nm in sc.globals or nm in sc.nonlocals:
                return [I + 'pass']
            sc.will_bind.add(nm)
            self.bind(sc, nm)
            return [I + 'import %s' % mod]
        if r < 0.58:
            test = self.expr(sc)
            body = self.block(sc, ind + '    ', depth + 1, in_loop=in_loop)
            out = [I + 'if _o(%s):' % test] + body
            if self.rng.random() < 0.5:
                out += [I + 'else:'] + self.block(sc, ind + '    ', depth + 1, in_loop=in_loop)
            return out
        if r < 0.64:
            it = self.expr(sc)
            n = self.target(sc)
            self.bind(sc, n)
            body = self.block(sc, ind + '    ', depth + 1, in_loop=True)
            out = [I + 'for %s in _it(%s):' % (n, it)] + body
            if self.rng.random() < 0.3:
                out += [I + 'else:'] + self.block(sc, ind + '    ', depth + 1, in_loop=in_loop)
            return out
        if r < 0.68:
            test = self.expr(sc)
            body = self.block(sc, ind + '    ', depth + 1, in_loop=True)
            return [I + 'while _w(%s):' % test] + body
        if r < 0.73:
            body = self.block(sc, ind + '    ', depth + 1, in_loop=in_loop)
            en = self.fresh('e')
            sc.will_bind.add(en)
            hb = self.block(sc, ind + '    ', depth + 1, in_loop=in_loop)
            out = [I + 'try:'] + body + [I + 'except Exception as %s:' % en] + hb
            if self.rng.random() < 0.4:
                out += [I + 'finally:'] + self.block(sc, ind + '    ', depth + 1, 1, 2, in_loop=False)
            return out
        if r < 0.77:
            n = self.target(sc)
            val = self.expr(sc)
            self.bind(sc, n)
            return [I + 'with _cm(%s) as %s:' % (val, n)] + self.block(sc, ind + '    ', depth + 1, in_loop=in_loop)
        if r < 0.80 and in_loop:
            return [I + self.rng.choice(['break', 'continue'])]
        if r < 0.82 and sc.kind in ('func',):
            return [I + 'return %s' % self.expr(sc)]
        if r < 0.83:
            return [I + 'if _o(): raise Exception(%s)' % self.expr(sc)]
        if r < 0.93 and depth < self.max_depth:
            return self.funcdef(sc, ind, depth)
        if depth < self.max_depth:
            return self.classdef(sc, ind, depth)
        return [I + self.expr(sc)]

    def funcdef(self, sc, ind, depth):
        I = ind
        name = self.fresh('f')
        out = []
        for _ in range(max(getattr(self, '_force_deco', 0), self.rng.choice([0, 0, 1, 1, 2, 3]))):
            e1 = self.read(sc) if getattr(self, '_force_deco', 0) else self.expr(sc)
            if self.rng.random() < 0.3:
                # a decorator call broken inside its brackets (more lines than decorators)
                out.append(I + '@_deco(%s,' % e1)
                out.append(I + '       %s)' % self.expr(sc))
            else:
                out.append(I + '@_deco(%s)' % e1)
            if self.rng.random() < 0.15:
                out.append(I + '# a comment between decorator and def')
        inner = Scope('func', sc)
        self.no_walrus = getattr(self, 'no_walrus', 0) + 1      # F58: walrus in a default vs annotation order
        params = []
        call_args = []
        kinds = self.rng.sample(['pos', 'posd', 'arg', 'argd', 'var', 'kwo', 'kwod', 'kw'], self.rng.randint(0, 5))
        order = ['pos', 'posd', 'arg', 'argd', 'var', 'kwo', 'kwod', 'kw']
        kinds = [k for k in order if k in kinds]
        if 'posd' in kinds and 'arg' in kinds:
            kinds.remove('arg')      # non-default after default is a syntax error
        have_slash = False
        plist = []
        is_method = sc.kind == 'class'
        if is_method:
            plist.append('self')
            inner.bound.append('self')
            inner.will_bind.add('self')
        for k in kinds:
            p = self.fresh('p')
            inner.bound.append(p)
            inner.will_bind.add(p)
            ann = (': %s' % self.expr(sc)) if self.rng.random() < 0.2 else ''
            if k == 'pos':
                plist.append(p + ann)
                call_args.append('1')
                have_slash = True
            elif k == 'posd':
                plist.append('%s%s=%s' % (p, ann, self.expr(sc)))
                have_slash = True
            elif k == 'arg':
                if have_slash and '/' not in plist:
                    plist.append('/')
                plist.append(p + ann)
                call_args.append('2')
            elif k == 'argd':
                if have_slash and '/' not in plist:
                    plist.append('/')
                plist.append('%s%s=%s' % (p, ann, self.expr(sc)))
            elif k == 'var':
                if have_slash and '/' not in plist:
                    plist.append('/')
                plist.append('*' + p + ann)
            elif k in ('kwo', 'kwod'):
                if have_slash and '/' not in plist:
                    plist.append('/')
                if not any(x.startswith('*') for x in plist):
                    plist.append('*')
                if k == 'kwo':
                    plist.append(p + ann)
                    call_args.append('%s=3' % p)
                else:
                    plist.append('%s%s=%s' % (p, ann, self.expr(sc)))
            else:
                if have_slash and '/' not in plist:
                    plist.append('/')
                plist.append('**' + p + ann)
        if have_slash and '/' not in plist:
            plist.append('/')
        ret = (' -> %s' % self.expr(sc)) if self.rng.random() < 0.15 else ''
        self.no_walrus -= 1
        is_async = False
        out.append(I + 'def %s(%s)%s:' % (name, ', '.join(plist), ret))
        body_ind = ind + '    '
        # global / nonlocal declarations
        decl = []
        if self.rng.random() < 0.25:
            g = self.rng.choice(self.pool)
            inner.globals.add(g)
            decl.append(body_ind + 'global %s' % g)
        if self.rng.random() < 0.25:
            cands = [n for f in inner.func_ancestors() for n in f.will_bind if n not in inner.globals and n in self.pool]
            if cands:
                nl = self.rng.choice(sorted(set(cands)))
                inner.nonlocals.add(nl)
                decl.append(body_ind + 'nonlocal %s' % nl)
        # which names will the body bind? decide lazily: will_bind is filled as targets are chosen;
        # to keep candidates honest we pre-generate the body twice is overkill: Python decides locals
        # by the whole body, so a read generated before a later binding of the same name may be an
        # UnboundLocalError at run time - that just ends the run.
        first = []
        if depth + 1 < self.max_depth and self.rng.random() < 0.3:
            # the body opens with a decorated def/class whose decorators read the parameters
            self._force_deco = 2
            first = self.funcdef(inner, body_ind, depth + 1) if self.rng.random() < 0.7 else self.classdef(inner, body_ind, depth + 1)
            self._force_deco = 0
        body = first + self.block(inner, body_ind, depth + 1, 1 if not first else 0, 4)
        if body == [body_ind + 'pass'] and first:
            body = first
        out += decl + body
        # register + call
        sc.will_bind.add(name)
        self.bind(sc, name)
        call = '%s(%s)' % (name, ', '.join(call_args))
        if not is_method:
            sc.funcs.append((name, call))
            if self.rng.random() < 0.8:
                out.append(I + self.mark_call(sc, name, call))
        else:
            sc.funcs.append((name, None))
            self._methods.append((name, call_args))
        return out

    def mark_call(self, sc, name, call):
        self.site += 1
        return '⟦%d⟧%s' % (self.site, call)

    def classdef(self, sc, ind, depth):
        I = ind
        name = self.fresh('C')
        out = []
        for _ in range(max(getattr(self, '_force_deco', 0), 1 if self.rng.random() < 0.2 else 0)):
            out.append(I + '@_deco(%s)' % (self.read(sc) if getattr(self, '_force_deco', 0) else self.expr(sc)))
        bases = []
        if self.rng.random() < 0.4:
            bases.append('_base(%s)' % self.expr(sc))
        if self.rng.random() < 0.2:
            bases.append('metaclass=_meta(%s)' % self.expr(sc))
        out.append(I + 'class %s%s:' % (name, ('(%s)' % ', '.join(bases)) if bases else ''))
        inner = Scope('class', sc)
        saved = getattr(self, '_methods', [])
        self._methods = []
        body = self.block(inner, ind + '    ', depth + 1, 1, 4)
        out += body
        sc.will_bind.add(name)
        self.bind(sc, name)
        for m, args in self._methods:
            if self.rng.random() < 0.8:
                self.site += 1
                out.append(I + '⟦%d⟧%s().%s(%s)' % (self.site, name, m, ', '.join(args)))
        self._methods = saved
        return out

    def module(self):
        sc = Scope('module', None)
        self._methods = []
        lines = []
        for n in self.pool:
            if self.rng.random() < 0.6:
                sc.will_bind.add(n)
                self.bind(sc, n)
                lines.append('%s = %d' % (n, self.rng.randrange(5)))
        lines += self.block(sc, '', 0, 3, 7)
        return lines


HELPERS_PLAIN = 'from genhelp import _o, _it, _w, _cm, _deco, _base, _meta\n'
GENHELP_SRC = '''def _o(*a): return True
def _it(*a): return []
def _w(*a): return False
class _cm(object):
    def __init__(self, v): self.v = v
    def __enter__(self): return self.v
    def __exit__(self, *a): return False
def _deco(*a): return lambda f: f
def _base(*a): return object
def _meta(*a): return type
'''


def render(lines, instrumented):
    """plain: strip markers, record (line, col, name) per site. instrumented: wrap as _r(site, name)."""
    out = []
    sites = {}
    for ln, line in enumerate(lines, 2):      # line 1 is the helper import
        if instrumented:
            line = re.sub(r'⟦(\d+)⟧([A-Za-z_]\w*)', lambda m: '_r(%s, %s)' % (m.group(1), m.group(2)), line)
        else:
            while True:
                m = MARK.search(line)
                if not m:
                    break
                col = m.start()
                line = line[:m.start()] + line[m.end():]
                ident = re.match(r'[A-Za-z_]\w*', line[col:]).group()
                sites[int(m.group(1))] = (ln, col, ident)
        out.append(line)
    return HELPERS_PLAIN + '\n'.join(out) + '\n', sites


RUNTIME = '''
import builtins as _bi
_log = []
_dec = []
def _pop():
    return _dec.pop(0) if _dec else 0
def _r(site, v):
    _log.append(site)
    return v
def _o(*a): return _pop() == 0
def _w(*a): return _pop() != 0
def _it(*a):
    n = 0
    while n < 2 and _pop() != 0:
        n += 1
        yield n
'''


def run_module(code_text, projdir, decisions, modname):
    """Execute the instrumented module under CPython; returns (successful read sites, error)."""
    import builtins
    import sys
    import types
    ns = {}
    exec(RUNTIME, ns)
    ns['_dec'][:] = list(decisions)
    import genhelp  # noqa (on sys.path via projdir)
    saved = {}
    inject = {'_r': ns['_r']}
    for k, v in inject.items():
        saved[k] = getattr(builtins, k, None)
        setattr(builtins, k, v)
    # decision-driven helpers replace the static ones of genhelp for this run
    old = {k: getattr(genhelp, k) for k in ('_o', '_it', '_w')}
    genhelp._o, genhelp._it, genhelp._w = ns['_o'], ns['_it'], ns['_w']
    err = None
    mod = types.ModuleType(modname)
    mod.__file__ = projdir + '/' + modname + '.py'
    try:
        code = compile(code_text, mod.__file__, 'exec')
        sys.setrecursionlimit(400)
        exec(code, mod.__dict__)
    except BaseException as e:  # noqa
        err = '%s: %s' % (type(e).__name__, str(e)[:80])
    finally:
        sys.setrecursionlimit(1000)
        for k, v in saved.items():
            if v is None:
                delattr(builtins, k)
            else:
                setattr(builtins, k, v)
        for k, v in old.items():
            setattr(genhelp, k, v)
    return list(ns['_log']), err
