"""C08 - the API is total: every text and cursor position gets an answer.

Decided by
  (1) Coq theorems C08_* (Props/C08.v) on Model/Eval.v: the four recursive engines (evaluate with its
      in-progress set, declarations, the attribute tables, loop resolution) never run out of the
      stated fuel on any finite object graph (repaired code), the as-is engines run out of ANY fuel
      on the witnesses of F21/F29; result shape of lint / location;
  (2) correspondence (I): small generated projects (cyclic assignments, recursive functions,
      inheritance cycles, import cycles) are analysed by the real code, their object graph is
      dumped and the model is evaluated on it inside Coq (vm_compute): value kind / None / error
      of EvalCtx.evaluate and the list returned by EvalCtx.declarations must agree; the typing
      hypotheses of the theorems (typed, flows_wf) are evaluated on the dumped graphs;
  (3) exploration = direct property evaluator (no model): lint / assist / location of the real
      code on stdlib + repo files, typing-state mutations, generated programs, all under a
      CPU-time alarm in worker subprocesses.  Freedom from Python exceptions is established by
      (3) only - a Gallina model is total by construction.

This file is also the worker:  python c08.py --worker <jobs.json> <out.json>
"""
import ast
import json
import keyword
import os
import random
import re
import signal
import sys
import tempfile
import time
import traceback

MARK = '__supp_mark__'
CALL_CPU_LIMIT = float(os.environ.get('C08_CALL_CPU_LIMIT', '40'))
# RecursionError is excused only when the nesting of the parsed text itself is this deep:
# the visitors of supp (and of the ast module) use <= 3 interpreter frames per nesting level.
FRAMES_PER_LEVEL = 3


class CallTimeout(BaseException):
    pass


# Budget of time-outs for the whole check (all workers share one counter file): after
# SLOW_AFTER time-outs every further call gets the short deadline only, after STOP_AFTER the
# remaining jobs are skipped.  A tree on which MANY calls hang therefore costs at most
# SLOW_AFTER long + (STOP_AFTER - SLOW_AFTER) short deadlines per worker, never a harness hang.
SLOW_AFTER = 6
STOP_AFTER = 30
SHORT_CPU_LIMIT = 3.0


def _shared_timeouts(add=0):
    path = os.environ.get('C08_SHARED')
    if not path:
        return 0
    try:
        if add:
            with open(path, 'a') as f:
                f.write('x' * add)
        return os.path.getsize(path)
    except OSError:
        return 0


def _on_alarm(signum, frame):
    raise CallTimeout()


def ast_depth(tree):
    """Maximal nesting depth of AST nodes (iterative)."""
    best = 0
    stack = [(tree, 1)]
    while stack:
        node, d = stack.pop()
        if d > best:
            best = d
        for ch in ast.iter_child_nodes(node):
            stack.append((ch, d + 1))
    return best


def loop_nesting(text):
    """Maximal nesting of loops (for / while / comprehension generators) in the text, -1 if it does not parse."""
    try:
        tree = ast.parse(text)
    except Exception:
        return -1
    best = 0
    stack = [(tree, 0)]
    while stack:
        node, d = stack.pop()
        if isinstance(node, (ast.For, ast.AsyncFor, ast.While)):
            d += 1
        elif isinstance(node, ast.comprehension):
            d += 1
        if d > best:
            best = d
        for ch in ast.iter_child_nodes(node):
            stack.append((ch, d))
    return best


def depth_class(text):
    """Input class of a text for stack-depth failures (open findings F48 / F50 are about long
    scopes only): 'seq-compound>=40' if some statement list holds >= 40 compound statements,
    'assign-chain>=150' if one holds >= 150 plain assignments, else 'small'."""
    try:
        tree = ast.parse(text)
    except Exception:
        return 'small'
    compound = (ast.If, ast.For, ast.While, ast.Try, ast.With, ast.AsyncFor, ast.AsyncWith, ast.Match) + \
        ((ast.TryStar,) if hasattr(ast, 'TryStar') else ())
    best_c = best_a = 0
    for node in ast.walk(tree):
        for field in ('body', 'orelse', 'finalbody'):
            stmts = getattr(node, field, None)
            if isinstance(stmts, list) and stmts and isinstance(stmts[0], ast.stmt):
                best_c = max(best_c, sum(1 for x in stmts if isinstance(x, compound)))
                best_a = max(best_a, sum(1 for x in stmts if isinstance(x, (ast.Assign, ast.AnnAssign))))
    if best_c >= 40:
        return 'seq-compound>=40'
    if best_a >= 150:
        return 'assign-chain>=150'
    return 'small'


def loop_nesting_bucket(text):
    return 'loop-nesting>=6' if loop_nesting(text) >= 6 else 'loop-nesting<6'


def parse_info(text, filename='<string>'):
    """('ok', depth) | ('syntax', (msg, lineno, offset)) | ('other', classname)"""
    try:
        tree = ast.parse(text, filename)
    except SyntaxError as e:
        return 'syntax', (e.msg, e.lineno, e.offset)
    except (RecursionError, MemoryError, ValueError) as e:
        return 'other', type(e).__name__
    return 'ok', ast_depth(tree)


def editor_lines(text):
    # lines as the tokenizer / an editor number them (\n, \r\n, \r end a line; form feed and the
    # unicode separators do not); a final line terminator does not open another line
    lines = re.split('\r\n|\r|\n', text)
    if len(lines) > 1 and lines[-1] == '':
        lines = lines[:-1]
    return lines


def marked_text(text, pos):
    ln, col = pos
    lines = editor_lines(text)
    if ln > len(lines):
        lines.append('')
    line = lines[ln - 1]
    lines[ln - 1] = line[:col] + MARK + line[col:]
    return '\n'.join(lines)


# ---------------------------------------------------------------------------------------------
# result shape checks
# ---------------------------------------------------------------------------------------------

def check_lint_result(res, pinfo):
    if type(res) is not list:
        return 'lint result is %s, not list' % type(res).__name__
    for t in res:
        if type(t) is not tuple or len(t) != 5:
            return 'lint entry is not a 5-tuple: %r' % (t,)
        if not isinstance(t[0], str) or not isinstance(t[1], str):
            return 'lint entry code/message not str: %r' % (t[:4],)
        if t[0] != 'E01' and not (type(t[2]) is int and type(t[3]) is int):
            return 'lint entry position not ints: %r' % (t[:4],)
    e01 = [t for t in res if t[0] == 'E01']
    if pinfo[0] == 'syntax':
        want = [('E01',) + tuple(pinfo[1]) + (None,)]
        if res != want:
            return 'text does not parse: expected exactly %r, got %r' % (want, [t[:4] for t in res[:5]])
    elif pinfo[0] == 'ok':
        if e01:
            return 'text parses but lint reports %r' % (e01[:2],)
    return None


def _is_loc(d):
    if type(d) is not dict or set(d) != {'loc', 'file'}:
        return False
    loc = d['loc']
    if not (isinstance(loc, (tuple, list)) and len(loc) == 2 and all(type(x) is int for x in loc)):
        return False
    return d['file'] is None or isinstance(d['file'], str)


def check_location_result(res):
    if type(res) is not list:
        return 'location result is %s, not list' % type(res).__name__
    for r in res:
        if type(r) is list:
            if not r or not all(_is_loc(x) for x in r):
                return 'location alternative list malformed: %r' % (r,)
        elif not _is_loc(r):
            return 'location entry malformed: %r' % (r,)
    return None


def check_assist_result(res):
    if type(res) is not tuple or len(res) != 2:
        return 'assist result is not a pair: %r' % (type(res).__name__,)
    prefix, names = res
    if not isinstance(prefix, str):
        return 'assist prefix is not str: %r' % (prefix,)
    if type(names) is not list or not all(isinstance(n, str) for n in names):
        return 'assist proposals are not a list of str'
    if names != sorted(names):
        return 'assist proposals are not sorted'
    return None


# ---------------------------------------------------------------------------------------------
# one guarded API call
# ---------------------------------------------------------------------------------------------

class Runner(object):
    def __init__(self, repo):
        self.repo = os.path.realpath(repo)
        self.failures = {}      # signature -> smallest failing case
        self.fail_counts = {}
        self.calls = 0
        self.hist = {}
        self.nontrivial = 0
        self.seen = set()
        self.root = None
        self.timeouts = 0
        self.cpu_limit = CALL_CPU_LIMIT
        self.inputs = {}        # signature -> (api, text, pos, filename) of the smallest failing input
        signal.signal(signal.SIGPROF, _on_alarm)

    def h(self, name, key, n=1):
        d = self.hist.setdefault(name, {})
        d[key] = d.get(key, 0) + n

    def signature(self, exc):
        """(exception class, innermost supp frame file, line, function).  For RecursionError the
        frame where the stack happened to overflow is arbitrary, so the signature names the
        recursion cycle instead: the set of supp functions among the last frames."""
        tb = traceback.extract_tb(exc.__traceback__)
        frames = []
        for fr in tb:
            fn = os.path.realpath(fr.filename)
            if fn.startswith(self.repo + os.sep):
                frames.append((os.path.relpath(fn, self.repo), fr.lineno, fr.name))
        if not frames:
            return [type(exc).__name__, '?', 0, '?']
        if isinstance(exc, RecursionError):
            last = frames[-60:]
            files = sorted(set(f[0] for f in last))
            return [type(exc).__name__, '+'.join(files), 0, '+'.join(sorted(set(f[2] for f in last)))]
        inner = frames[-1]
        return [type(exc).__name__, inner[0], inner[1], inner[2]]

    def record(self, sig, case, detail, inp=None):
        key = json.dumps(sig)
        self.fail_counts[key] = self.fail_counts.get(key, 0) + 1
        size = len(inp[1]) if inp else len(case.get('source') or '')
        size += sum(len(v) for v in (case.get('files') or {}).values())
        old = self.failures.get(key)
        if old is None or size < old['size']:
            self.failures[key] = {'sig': sig, 'size': size, 'case': case, 'detail': detail[:600]}
            if inp:
                self.inputs[key] = inp

    def classify(self, api, project, text, pos, filename, pinfo, limit):
        """One guarded call judged by the oracle: (status, signature or None, detail, result kind)."""
        from supp.linter import lint
        from supp.assistant import assist, location
        signal.setitimer(signal.ITIMER_PROF, limit)
        try:
            try:
                if api == 'lint':
                    res = lint(project, text, filename)
                elif api == 'assist':
                    res = assist(project, text, tuple(pos), filename)
                else:
                    res = location(project, text, tuple(pos), filename)
            finally:
                signal.setitimer(signal.ITIMER_PROF, 0)
        except CallTimeout:
            return ('timeout', ['Timeout', api, 0, loop_nesting_bucket(text)],
                    'no answer within %.0f s of CPU time (loop nesting of the text: %s)' % (limit, loop_nesting(text)), None)
        except SyntaxError as e:
            if api != 'lint' and pinfo[0] == 'syntax':
                return ('ok', None, '', 'SyntaxError(allowed)')
            return ('error', self.signature(e), 'SyntaxError although %s: %s' % (
                'lint must not raise' if api == 'lint' else 'the cursor-marked text parses', e), None)
        except RecursionError as e:
            if pinfo[0] == 'other':
                return ('excused', None, '', 'RecursionError(parser too)')
            if pinfo[0] == 'ok' and pinfo[1] * FRAMES_PER_LEVEL + 100 >= sys.getrecursionlimit():
                return ('excused', None, '', 'RecursionError(nesting %d)' % pinfo[1])
            sig = self.signature(e)
            sig[2] = depth_class(text)      # a stack-depth failure on a small text is never one of the long-scope findings
            return ('error', sig, 'RecursionError (ast nesting %r, limit %d, input class %s)' % (pinfo[1], sys.getrecursionlimit(), sig[2]), None)
        except Exception as e:
            if pinfo[0] == 'other':
                return ('excused', None, '', 'out-of-domain')
            return ('error', self.signature(e), '%s: %s' % (type(e).__name__, str(e)[:300]), None)
        if api == 'lint':
            bad = check_lint_result(res, pinfo)
            kind = 'E01' if pinfo[0] == 'syntax' else 'n=%s' % min(len(res), 3)
        elif api == 'assist':
            bad = check_assist_result(res)
            kind = 'empty' if (bad is None and not res[1]) else 'proposals'
        else:
            bad = check_location_result(res)
            kind = 'empty' if not res else 'locs'
        if bad:
            return ('malformed', ['Malformed', api, 0, bad.split(':')[0][:40]], bad, None)
        return ('ok', None, '', kind)

    def call(self, api, project, text, pos, filename, case, pinfo):
        """api in lint/assist/location.  pinfo = parse_info of the text the API parses
        (the text itself for lint, the cursor-marked text for the other two)."""
        self.calls += 1
        self.h('api', api)
        self.h('parse', api + ':' + pinfo[0])
        case = dict(case, api=api, pos=list(pos) if pos else None)
        inp = (api, text, tuple(pos) if pos else None, filename, self.root)
        limit = self.cpu_limit
        if self.timeouts >= 2 or _shared_timeouts() >= SLOW_AFTER:
            limit = min(limit, SHORT_CPU_LIMIT)
        status, sig, detail, kind = self.classify(api, project, text, pos, filename, pinfo, limit)
        if status == 'timeout':
            self.timeouts += 1
            _shared_timeouts(1)
        if sig is not None:
            self.record(sig, case, detail, inp)
            return status
        self.h('outcome', api + ':' + kind)
        if status == 'ok' and kind not in ('empty', 'SyntaxError(allowed)'):
            key = hash((api, text, tuple(pos) if pos else None))
            if key not in self.seen:
                self.seen.add(key)
                self.nontrivial += 1
        return status

    def probe(self, api, project, text, pos, filename):
        """Signature of the failure of one call, or None."""
        if api == 'lint':
            pinfo = parse_info(text, filename or '<string>')
        else:
            pinfo = parse_info(marked_text(text, pos), filename or '<string>')
        return self.classify(api, project, text, pos, filename, pinfo, min(10.0, self.cpu_limit))[1]

    def shrink_all(self, budget=12.0):
        """Line-based reduction (ddmin over chunks of lines, the cursor line is kept) of the
        recorded failing inputs; the failure signature must stay exactly the same."""
        t_end = time.time() + budget
        for key, (api, text, pos, filename, root) in list(self.inputs.items()):
            f = self.failures[key]
            sig = f['sig']
            if sig[0] == 'Timeout' or len(text) < 160 or time.time() > t_end:
                continue
            project = new_project(root)
            if self.probe(api, project, text, pos, filename) != sig:
                continue
            lines = text.split('\n')
            cur = pos[0] - 1 if pos else None
            n = len(lines)
            size = max(1, n // 2)
            t_sig = time.time() + budget / 3.0
            while size >= 1 and time.time() < min(t_end, t_sig):
                i = 0
                changed = False
                while i < len(lines) and time.time() < min(t_end, t_sig):
                    j = min(len(lines), i + size)
                    if cur is not None and i <= cur < j:
                        # keep the cursor line: try the part before and after it
                        j = cur
                        if j <= i:
                            i = cur + 1
                            continue
                    cand = lines[:i] + lines[j:]
                    cpos = None
                    if pos:
                        cpos = (pos[0] - (j - i), pos[1]) if cur >= j else tuple(pos)
                    if cand and self.probe(api, project, '\n'.join(cand), cpos, filename) == sig:
                        lines = cand
                        if pos:
                            pos = cpos
                            cur = pos[0] - 1
                        changed = True
                    else:
                        i = j if j > i else i + 1
                if size == 1 and not changed:
                    break
                size = size // 2 if not changed or size > 1 else 1
                if size == 0:
                    break
            new = '\n'.join(lines)
            if len(new) < len(text):
                case = dict(f['case'])
                case['source'] = new
                case['pos'] = list(pos) if pos else None
                case['shrunk_from'] = len(text)
                if case.get('kind') == 'file':
                    case['mutation'] = str(case.get('mutation')) + '+shrunk'
                f['case'] = case
                f['size'] = len(new) + sum(len(v) for v in (case.get('files') or {}).values())

# ---------------------------------------------------------------------------------------------
# positions and typing-state mutations
# ---------------------------------------------------------------------------------------------

IDENT = re.compile(r'[A-Za-z_][A-Za-z_0-9]*')


def interesting_positions(lines, rng, n):
    """Sample of (ln, col) biased to identifier ends, after dots, import lines."""
    cands_ident, cands_dot, cands_import = [], [], []
    idxs = list(range(len(lines)))
    rng.shuffle(idxs)
    for i in idxs[:max(40, n * 3)]:
        line = lines[i]
        s = line.lstrip()
        is_imp = s.startswith('import ') or s.startswith('from ')
        for m in IDENT.finditer(line):
            if keyword.iskeyword(m.group(0)):
                continue
            (cands_import if is_imp else cands_ident).append((i + 1, m.end()))
            if m.end() - m.start() > 2:
                (cands_import if is_imp else cands_ident).append((i + 1, m.start() + 1 + (m.end() - m.start()) // 2))
        for m in re.finditer(r'\.', line):
            cands_dot.append((i + 1, m.end()))
    out = []
    for cands, share in ((cands_ident, 0.45), (cands_dot, 0.25), (cands_import, 0.2)):
        rng.shuffle(cands)
        out.extend(cands[:max(1, int(n * share))])
    while len(out) < n:
        i = rng.randrange(len(lines))
        out.append((i + 1, rng.randint(0, len(lines[i]))))
    # the end-of-file cursor (line after the final newline)
    out.append((len(lines) + 1, 0) if rng.random() < 0.5 else (len(lines), len(lines[-1])))
    seen = set()
    res = []
    for p in out:
        if p not in seen:
            seen.add(p)
            res.append(p)
    return res[:n + 1]


ESCAPEES = ('return', 'yield', 'break', 'continue', 'await', 'raise', 'nonlocal', 'global')


def mutations(text, rng, n):
    """Typing states of a file: list of (kind, new_text, position)."""
    lines = text.split('\n')
    out = []
    nl = len(lines)
    if nl == 0:
        return out
    kinds = ['truncline', 'dot', 'delline', 'truncfile', 'escape', 'escape_cls', 'halfimport', 'truncline', 'dot', 'escape_nested', 'blankend', 'lineend']
    tries = 0
    while len(out) < n and tries < n * 6:
        tries += 1
        kind = kinds[(len(out) + tries) % len(kinds)]
        i = rng.randrange(nl)
        line = lines[i]
        if kind == 'truncline':
            ids = [m.end() for m in IDENT.finditer(line)]
            col = rng.choice(ids) if ids and rng.random() < 0.7 else rng.randint(0, len(line))
            new = lines[:i] + [line[:col]] + lines[i + 1:]
            out.append((kind, '\n'.join(new), (i + 1, col)))
        elif kind == 'dot':
            ids = [m.end() for m in IDENT.finditer(line) if not keyword.iskeyword(m.group(0))]
            if not ids:
                continue
            col = rng.choice(ids)
            tail = '' if rng.random() < 0.5 else line[col:]
            new = lines[:i] + [line[:col] + '.' + tail] + lines[i + 1:]
            out.append((kind, '\n'.join(new), (i + 1, col + 1)))
        elif kind == 'delline':
            if nl < 2:
                continue
            new = lines[:i] + lines[i + 1:]
            j = min(len(new) - 1, max(0, i + rng.randint(-1, 2)))
            ids = [m.end() for m in IDENT.finditer(new[j])]
            col = rng.choice(ids) if ids else len(new[j])
            out.append((kind, '\n'.join(new), (j + 1, col)))
        elif kind == 'truncfile':
            ids = [m.end() for m in IDENT.finditer(line)]
            col = rng.choice(ids) if ids and rng.random() < 0.7 else rng.randint(0, len(line))
            new = lines[:i] + [line[:col]]
            out.append((kind, '\n'.join(new), (i + 1, col)))
        elif kind in ('escape', 'escape_cls'):
            cand = [k for k in range(nl) if lines[k].lstrip().split(' ')[0].rstrip(':') in ESCAPEES
                    and not lines[k].rstrip().endswith(('(', '[', '{', ',', '\\'))]
            if not cand:
                continue
            k = rng.choice(cand)
            stmt = lines[k].strip()
            base = lines[:k] + lines[k + 1:] if rng.random() < 0.5 else list(lines)
            if base and base[-1] != '':
                base = base + ['']
            if kind == 'escape':
                new = base[:-1] + [stmt, '']
                ln = len(new) - 1
                col = len(stmt)
            else:
                new = base[:-1] + ['class _Moved:', '    ' + stmt, '']
                ln = len(new) - 1
                col = 4 + len(stmt)
            out.append((kind, '\n'.join(new), (ln, col)))
        elif kind == 'lineend':
            # the same (cut) buffer saved with other line endings: lone CR, CRLF, a mix (seeded C08-r7-1)
            k = min(i, 60)
            if '\r' in text or any('\n' in l for l in lines[:k + 1]):
                continue
            sep = rng.choice(['\r', '\r\n', None])
            new = lines[:k + 1]
            if not new[-1].strip():
                continue
            joined = ''.join(l + (sep or rng.choice(['\r', '\n', '\r\n'])) for l in new[:-1]) + new[-1]
            out.append((kind, joined, (k + 1, rng.choice([len(new[-1]), len(new[-1]) // 2]))))
        elif kind == 'blankend':
            # Enter typed after a line at the end of the (cut) file: the last line is indentation only
            cand = [k for k in range(nl) if lines[k].rstrip().endswith(':') and not lines[k].lstrip().startswith('#')]
            k = rng.choice(cand) if cand and rng.random() < 0.8 else i
            l = lines[k]
            ind = l[:len(l) - len(l.lstrip())] + ('    ' if l.rstrip().endswith(':') else '')
            new = lines[:k + 1] + [ind]
            out.append((kind, '\n'.join(new), (k + 2, rng.choice([len(ind), len(ind), 0, len(ind) // 2]))))
        elif kind == 'escape_nested':
            # the statement stays where it is but a new scope is typed around it (the loop body /
            # function body being wrapped into a helper def, class or lambda-like one-liner), or it
            # is duplicated into the def / class that follows it
            cand = [k for k in range(nl) if lines[k].lstrip().split(' ')[0].rstrip(':') in ESCAPEES
                    and not lines[k].rstrip().endswith(('(', '[', '{', ',', '\\'))]
            if not cand:
                continue
            k = rng.choice(cand)
            l = lines[k]
            ind = l[:len(l) - len(l.lstrip())]
            stmt = l.strip()
            form = rng.randrange(6)
            if form == 0:
                wrapped = [ind + 'def _helper():', ind + '    ' + stmt]
            elif form == 1:
                wrapped = [ind + 'class _Helper:', ind + '    ' + stmt]
            elif form == 2:
                wrapped = [ind + 'async def _helper(self, *a):', ind + '    x = lambda: 0', ind + '    ' + stmt, ind + '_helper()']
            elif form == 3:
                wrapped = [ind + 'def _helper():', ind + '    class _Inner:', ind + '        ' + stmt, ind + '    return _Inner']
            elif form == 4:
                wrapped = [ind + 'for _i in ():', ind + '    def _helper(): ' + stmt, ind + '    class _H: ' + stmt]
            else:
                wrapped = [l, ind + 'def _helper(): ' + stmt]
            new = lines[:k] + wrapped + lines[k + 1:]
            j = k + min(len(wrapped) - 1, 1 + (form in (2, 3)))
            out.append((kind, '\n'.join(new), (j + 1, len(new[j]))))
        elif kind == 'halfimport':
            cand = [k for k in range(nl) if lines[k].lstrip().startswith(('import ', 'from '))]
            if not cand:
                continue
            k = rng.choice(cand)
            l = lines[k]
            col = rng.randint(len(l) - len(l.lstrip()) + 4, len(l))
            variant = rng.randrange(3)
            if variant == 0:
                newl = l[:col]
            elif variant == 1:
                newl = l[:col] + 'zz' + l[col:]
                col += 1
            else:
                newl = l
            new = lines[:k] + [newl] + lines[k + 1:]
            out.append((kind, '\n'.join(new), (k + 1, col)))
    return out


def clamp_pos(text, pos):
    lines = editor_lines(text)
    ln, col = pos
    ln = max(1, min(ln, len(lines) + 1))
    if ln <= len(lines):
        col = max(0, min(col, len(lines[ln - 1])))
    else:
        col = 0
    return (ln, col)


# ---------------------------------------------------------------------------------------------
# jobs
# ---------------------------------------------------------------------------------------------

def new_project(root):
    from supp.project import Project
    return Project([root])


def run_calls(R, project, text, positions, filename, case, apis=('assist', 'location'), do_lint=True):
    slow = 0
    if do_lint:
        slow += R.call('lint', project, text, None, filename, case, parse_info(text, filename or '<string>')) == 'timeout'
    for pos in positions:
        pos = clamp_pos(text, pos)
        pinfo = parse_info(marked_text(text, pos), filename or '<string>')
        for api in apis:
            slow += R.call(api, project, text, pos, filename, case, pinfo) == 'timeout'
        if slow >= 2:
            # two calls on this text already exceeded the deadline: recorded as failures, do not
            # spend the deadline again on every remaining position
            R.h('outcome', 'text abandoned after 2 time-outs')
            break


def job_file(R, job, tmp):
    """A real file: lint, sampled positions, typing-state mutations."""
    path = job['path']
    try:
        text = open(path, encoding='utf8').read()
    except (UnicodeDecodeError, OSError):
        R.h('skipped', 'undecodable')
        return
    rng = random.Random(job['seed'])
    R.root = tmp
    project = new_project(tmp)
    lines = editor_lines(text)
    base = {'kind': 'file', 'path': path, 'seed': job['seed'], 'npos': job['npos'], 'nmut': job['nmut'], 'extra_pos': job.get('extra_pos', 0)}
    R.h('input', 'file')
    run_calls(R, project, text, interesting_positions(lines, rng, job['npos']), path, dict(base, mutation='none'))
    nofile = job.get('nofile', 3)
    if nofile:
        # the same text as an unsaved buffer: filename=None, fresh project
        R.h('input', 'file:unsaved')
        case = dict(base, mutation='none', unsaved=True)
        if len(text) <= 3000:
            case['source'] = text
        run_calls(R, new_project(tmp), text, interesting_positions(lines, rng, nofile), None, case)
    for kind, new, pos in mutations(text, rng, job['nmut']):
        R.h('input', 'mut:' + kind)
        case = dict(base, mutation=kind)
        if len(new) <= 3000:
            case['source'] = new
        else:
            case['mutated_sha'] = hash_text(new)
        case['mutpos'] = list(pos)
        poss = [pos]
        if job.get('extra_pos'):
            poss += interesting_positions(editor_lines(new), rng, job['extra_pos'])
        run_calls(R, project, new, poss, path, case)


def hash_text(s):
    import hashlib
    return hashlib.sha1(s.encode('utf8', 'replace')).hexdigest()[:16]


def job_text(R, job, tmp):
    """A generated / hand-written program, possibly with sibling project modules.
    positions: 'all' | list of [ln, col] | int (sample size)."""
    root = os.path.join(tmp, 'p%d' % R.calls)
    os.makedirs(root, exist_ok=True)
    for name, content in (job.get('files') or {}).items():
        p = os.path.join(root, name)
        os.makedirs(os.path.dirname(p), exist_ok=True)
        with open(p, 'w') as f:
            f.write(content)
    fn = job.get('filename', 'main.py')
    filename = os.path.join(root, fn) if fn else None        # None: an unsaved buffer
    text = job['source']
    R.root = root
    R.cpu_limit = float(job.get('cpu_limit') or CALL_CPU_LIMIT)
    project = new_project(root)
    lines = editor_lines(text)
    spec = job.get('positions', 'all')
    if spec == 'all':
        positions = [(i + 1, c) for i, l in enumerate(lines) for c in range(len(l) + 1)]
        positions.append((len(lines) + 1, 0))
    elif isinstance(spec, int):
        positions = interesting_positions(lines, random.Random(job.get('seed', 0)), spec)
    else:
        positions = [tuple(p) for p in spec]
    case = {'kind': 'text', 'source': text, 'files': job.get('files') or {}, 'filename': fn,
            'tag': job.get('tag', '')}
    R.h('input', 'text:' + job.get('tag', 'gen'))
    try:
        run_calls(R, project, text, positions, filename, case, apis=tuple(job.get('apis') or ('assist', 'location')),
                  do_lint=job.get('lint', True))
        if job.get('nofile') and filename is not None:
            # the same text as an unsaved buffer (filename=None), fresh project
            R.h('input', 'text:unsaved')
            sub = positions if len(positions) <= 40 else random.Random(len(text)).sample(positions, 40)
            run_calls(R, new_project(root), text, sub, None, dict(case, filename=None),
                      apis=tuple(job.get('apis') or ('assist', 'location')), do_lint=job.get('lint', True))
    finally:
        R.cpu_limit = CALL_CPU_LIMIT


def run_jobs(jobs, repo, progress=None):
    if sys.path[0] != repo:
        sys.path.insert(0, repo)
    import logging
    logging.disable(logging.CRITICAL)
    import supp
    real = os.path.dirname(os.path.dirname(os.path.abspath(supp.__file__)))
    if os.path.realpath(real) != os.path.realpath(repo):
        raise RuntimeError('supp imported from %s, expected %s' % (real, repo))
    R = Runner(repo)
    tmp = tempfile.mkdtemp(prefix='c08w_')
    cwd = os.path.join(tmp, 'cwdpkg', 'sub')
    os.makedirs(cwd)
    for d in (os.path.dirname(cwd), cwd):
        with open(os.path.join(d, '__init__.py'), 'w') as f:
            f.write('x = 1\n')
    old_cwd = os.getcwd()
    os.chdir(cwd)
    try:
        for k, job in enumerate(jobs):
            if progress:
                with open(progress, 'w') as f:
                    f.write(str(k))
            if _shared_timeouts() >= STOP_AFTER:
                R.h('skipped', 'jobs skipped after %d time-outs in this run' % STOP_AFTER, len(jobs) - k)
                break
            if job['kind'] == 'file':
                job_file(R, job, tmp)
            else:
                job_text(R, job, tmp)
        if progress:
            with open(progress, 'w') as f:
                f.write(str(len(jobs) - 1))
        R.shrink_all()
    finally:
        import shutil
        os.chdir(old_cwd)
        shutil.rmtree(tmp, ignore_errors=True)
    return {'calls': R.calls, 'nontrivial': R.nontrivial, 'hist': R.hist,
            'failures': list(R.failures.values()), 'fail_counts': R.fail_counts}




def worker_main(argv):
    jobs = json.load(open(argv[0]))
    repo = os.environ.get('SUPP_REPO', '/repo')
    res = run_jobs(jobs, repo, progress=argv[1] + '.progress')
    with open(argv[1], 'w') as f:
        json.dump(res, f)

# ---------------------------------------------------------------------------------------------
# generators for the exploration (rich grammar, valid and nearly-valid programs)
# ---------------------------------------------------------------------------------------------

class ProgGen(object):
    """Random small programs over the constructs the visitors of nast.py distinguish, with the
    shapes that broke them: attribute/subscript/starred targets everywhere, return/yield/break
    at any level, cyclic classes/functions/assignments, imports of sibling / unknown modules."""
    NAMES = ['a', 'b', 'c', 'x', 'y', 'f', 'g', 'A', 'B', 'C', 'self', 'locals', 'm1', 'm2', 'os', 'sys', 'len', 'super']
    ATTRS = ['a', 'b', 'x', 'y', 'path', 'f', 'A', 'B', 'm1']
    MODS = ['m1', 'm2', 'm3', 'os', 'sys', 'os.path', 'nosuch', 'pkg', 'pkg.sub', 'collections', '_thread',
            'm1.x', 'xml.dom', 'json']

    def __init__(self, rng):
        self.r = rng

    def name(self):
        return self.r.choice(self.NAMES)

    def expr(self, d=0):
        r = self.r
        k = r.random()
        if d > 3 or k < 0.3:
            return r.choice([self.name(), self.name(), '1', "''", 'None', 'object', '[]'])
        if k < 0.5:
            return '%s.%s' % (self.expr(d + 1), r.choice(self.ATTRS))
        if k < 0.68:
            args = ', '.join(self.expr(d + 2) for _ in range(r.randint(0, 2)))
            if r.random() < 0.15:
                args = (args + ', ' if args else '') + r.choice(['*%s' % self.name(), 'k=%s' % self.expr(d + 2), '**%s' % self.name()])
            return '%s(%s)' % (self.expr(d + 1), args)
        if k < 0.74:
            return '[%s for %s in %s%s]' % (self.expr(d + 2), self.target(d + 2), self.expr(d + 2),
                                             ' if %s' % self.expr(d + 2) if r.random() < 0.3 else '')
        if k < 0.78:
            return '{%s: %s for %s in %s}' % (self.expr(d + 2), self.expr(d + 2), self.target(d + 2), self.expr(d + 2))
        if k < 0.82:
            if r.random() < 0.4:
                return 'lambda self%s: %s' % (r.choice(['', '', ', other', ', *a', ', x=self']),
                                              r.choice(['self.%s' % r.choice(self.ATTRS), 'self', 'self.%s()' % r.choice(self.ATTRS),
                                                        'self.%s.%s' % (r.choice(self.ATTRS), r.choice(self.ATTRS)), self.expr(d + 2)]))
            return 'lambda %s: %s' % (r.choice(['', 'a', 'a, b=1', '*a, **k', 'a, /, b', 'a, *, k=x']), self.expr(d + 2))
        if k < 0.85:
            return '(%s := %s)' % (r.choice(['a', 'b', 'x', 'locals']), self.expr(d + 2))
        if k < 0.88:
            return '%s[%s]' % (self.expr(d + 1), self.expr(d + 2))
        if k < 0.91:
            return '%s %s %s' % (self.expr(d + 1), r.choice(['+', 'and', 'or', '==', 'in', 'is not']), self.expr(d + 1))
        if k < 0.93:
            return '%s if %s else %s' % (self.expr(d + 2), self.expr(d + 2), self.expr(d + 2))
        if k < 0.95:
            return r.choice(['(yield)', '(yield %s)' % self.name(), '(await %s)' % self.name(), '(yield from %s)' % self.name()])
        if k < 0.97:
            return 'f"{%s}"' % self.name()
        return r.choice(['super()', 'super().%s' % r.choice(self.ATTRS), 'locals()', 'type(%s)' % self.name(),
                         '(%s, *%s)' % (self.name(), self.name())])

    def target(self, d=0):
        r = self.r
        k = r.random()
        if d > 2 or k < 0.45:
            return r.choice(['a', 'b', 'x', 'y', 'A', 'B', 'locals', 'self'])
        if k < 0.65:
            return '%s.%s' % (r.choice(['self', 'a', 'x', 'A', 'f()']), r.choice(self.ATTRS))
        if k < 0.75:
            return '%s[%s]' % (self.name(), self.expr(3))
        if k < 0.9:
            return '(%s, %s)' % (self.target(d + 1), self.target(d + 1))
        if k < 0.95:
            return '[%s, *%s]' % (self.target(d + 1), self.target(d + 2))
        return '*%s' % r.choice(['a', 'b'])

    def block(self, ind, depth, n=None):
        out = []
        for _ in range(n or self.r.randint(1, 3)):
            out.extend(self.stmt(ind, depth))
        return out

    def stmt(self, ind, depth):
        r = self.r
        p = '    ' * ind
        k = r.random()
        if depth > 2:
            k *= 0.55
        if k < 0.16:
            t = self.target()
            if t.startswith('*'):
                t = t + ','
            return [p + '%s = %s' % (t, self.expr())]
        if k < 0.2:
            return [p + '%s = %s = %s' % (self.target(1), self.target(1), self.expr())]
        if k < 0.24:
            if r.random() < 0.15:
                return [p + 'type %s%s = %s' % (r.choice(['X', 'A', 'a']), r.choice(['', '[T]', '[T: %s]' % self.name()]), self.expr())]
            return [p + r.choice(['%s += %s', '%s: int = %s', '%s: %s']) % (r.choice(['a', 'x', 'self.a', 'a[0]']), self.expr())]
        if k < 0.32:
            return [p + self.expr()]
        if k < 0.38:
            return [p + r.choice(['return', 'return %s' % self.expr(), 'yield %s' % self.expr(), 'break', 'continue',
                                  'pass', 'raise %s' % self.expr(), 'del %s' % self.target(1), 'global %s' % r.choice(['a', 'x', 'A']),
                                  'nonlocal %s' % r.choice(['a', 'x']), 'assert %s' % self.expr(), 'await %s' % self.name()])]
        if k < 0.46:
            m = r.choice(self.MODS)
            form = r.random()
            if form < 0.3:
                return [p + 'import %s%s' % (m, r.choice(['', '', ' as %s' % self.name()]))]
            if form < 0.4:
                return [p + 'import %s, %s' % (m, r.choice(self.MODS))]
            if form < 0.75:
                return [p + 'from %s import %s%s' % (m, r.choice(['a', 'x', 'A', 'B', 'f', 'path', 'nosuch', '*']),
                                                     r.choice(['', '', ' as %s' % self.name()]))]
            return [p + 'from %s%s import %s' % ('.' * r.randint(1, 2), r.choice(['', 'sub', 'm1', 'nosuch']),
                                                 r.choice(['a', 'x', 'A', '*', 'sub']))]
        if k < 0.55:
            return [p + 'if %s:' % self.expr()] + self.block(ind + 1, depth + 1) + \
                ([p + 'elif %s:' % self.expr()] + self.block(ind + 1, depth + 1) if r.random() < 0.2 else []) + \
                ([p + 'else:'] + self.block(ind + 1, depth + 1) if r.random() < 0.5 else [])
        if k < 0.63:
            return [p + '%sfor %s in %s:' % (r.choice(['', '', '', 'async ']), self.target(), self.expr())] + \
                self.block(ind + 1, depth + 1) + ([p + 'else:'] + self.block(ind + 1, depth + 1, 1) if r.random() < 0.2 else [])
        if k < 0.68:
            return [p + 'while %s:' % self.expr()] + self.block(ind + 1, depth + 1) + \
                ([p + 'else:'] + self.block(ind + 1, depth + 1, 1) if r.random() < 0.2 else [])
        if k < 0.74:
            out = [p + 'try:'] + self.block(ind + 1, depth + 1)
            for _ in range(r.randint(0, 2)):
                out += [p + r.choice(['except:', 'except %s:' % self.expr(), 'except %s as %s:' % (self.expr(), r.choice(['a', 'e', 'x']))])]
                out += self.block(ind + 1, depth + 1, 1)
            if len(out) > 2 and r.random() < 0.3:
                out += [p + 'else:'] + self.block(ind + 1, depth + 1, 1)
            if len(out) == 2 or r.random() < 0.3:
                out += [p + 'finally:'] + self.block(ind + 1, depth + 1, 1)
            return out
        if k < 0.8:
            items = ', '.join('%s%s' % (self.expr(), r.choice(['', ' as %s' % self.target()])) for _ in range(r.randint(1, 2)))
            return [p + '%swith %s:' % (r.choice(['', '', 'async ']), items)] + self.block(ind + 1, depth + 1)
        if k < 0.9:
            deco = [p + '@%s' % r.choice(['property', 'staticmethod', 'classmethod', self.expr(2), 'a.setter'])] if r.random() < 0.3 else []
            args = r.choice(['', 'self', 'self, a', 'a, b=x', '*a, **k', 'a, /, b', 'self, *, k=a', 'a: x = 1', 'cls'])
            tps = r.choice(['', '', '', '', '[T]', '[T: %s]' % self.name(), '[T: (%s, %s)]' % (self.name(), self.expr(2)), '[*Ts, **P]',
                            '[T: %s.%s, U]' % (self.name(), r.choice(self.ATTRS))])
            return deco + [p + '%sdef %s%s(%s)%s:' % (r.choice(['', '', '', 'async ']), r.choice(['f', 'g', 'a', 'x', 'A']), tps, args,
                                                      r.choice(['', '', ' -> %s' % self.name()]))] + self.block(ind + 1, depth + 1)
        if k < 0.97:
            bases = ', '.join(r.choice(['A', 'B', 'C', 'object', 'a', 'x', 'm1.A', 'f()', 'os', 'metaclass=%s' % self.name()])
                              for _ in range(r.randint(0, 2)))
            body = self.block(ind + 1, depth + 1)
            q = p + '    '
            for _ in range(r.choice([0, 0, 1, 1, 2])):
                # lambdas written directly in the class body: properties, sort keys, callbacks
                at, at2 = r.choice(self.ATTRS), r.choice(self.ATTRS)
                body.insert(r.randint(0, len(body)), q + r.choice([
                    '%s = property(lambda self: self.%s)' % (at2, at),
                    '%s = lambda self: self.%s' % (at2, at),
                    '__lt__ = lambda self, other: self.%s < other.%s' % (at, at),
                    '%s = staticmethod(lambda x: x.%s)' % (at2, at),
                    '%s = classmethod(lambda cls: cls.%s)' % (at2, at),
                    '%s = lambda self, *a: self.%s(*a)' % (at2, at),
                    '%s = property(lambda self: self.%s, lambda self, v: setattr(self, "%s", v))' % (at2, at, at),
                    '%s = sorted(%s, key=lambda self: self.%s)' % (at2, self.name(), at),
                    '%s = lambda self=%s: self.%s' % (at2, self.name(), at),
                    '%s = lambda: lambda self: self.%s' % (at2, at)]))
            tps = r.choice(['', '', '', '', '', '[T]', '[T: %s]' % self.name(), '[T: (%s, %s), *Ts]' % (self.name(), self.name())])
            if r.random() < 0.25:
                # the base is bound on two paths to values of different kinds
                bn = r.choice(['Base', 'x', 'B'])
                a1, a2 = [r.choice(['A', 'B', 'A()', 'f', 'f()', 'm1', 'm1.A', 'None', 'x', 'a', 'object', 'C()']) for _ in (0, 1)]
                pre = r.choice([[p + 'if %s:' % self.name(), p + '    %s = %s' % (bn, a1), p + 'else:', p + '    %s = %s' % (bn, a2)],
                                [p + 'try:', p + '    from nosuch import %s' % bn, p + 'except ImportError:', p + '    %s = %s' % (bn, a1)],
                                [p + '%s = %s' % (bn, a1), p + 'while %s:' % self.name(), p + '    %s = %s' % (bn, a2)]])
                cn = r.choice(['A', 'B', 'C'])
                body.append(q + 'def run(self): return self.%s' % r.choice(self.ATTRS))
                return pre + [p + 'class %s%s(%s%s):' % (cn, tps, bn, r.choice(['', '', ', B', ', object']))] + body + \
                    [p + r.choice(['%s.%s' % (cn, r.choice(self.ATTRS)), '%s().%s' % (cn, r.choice(self.ATTRS)), '%s().run().%s' % (cn, r.choice(self.ATTRS))])]
            return [p + 'class %s%s%s:' % (r.choice(['A', 'B', 'C', 'a']), tps, '(%s)' % bases if bases or r.random() < 0.2 else '')] + body
        return [p + 'match %s:' % self.name(), p + '    case %s:' % r.choice(['[a, b]', '{"k": x}', 'A(a=y)', 'x if x else y', '_', 'a.b']),
                p + '        ' + self.expr()]

    def module(self, n=None):
        return '\n'.join(self.block(0, 0, n or self.r.randint(2, 7))) + '\n'


def gen_nested_loops(rng, depth=None):
    """depth nested for/while loops whose bodies start with a few branching statements that carry
    names from level to level (if/else, if/elif, try/except, with, comprehension), a use of every
    level's names after the innermost loop and after each loop, and a final read."""
    depth = depth or rng.randint(3, 6)
    out = ['x0 = [[]]']
    for i in range(depth):
        ind = '    ' * i
        if rng.random() < 0.7:
            out.append(ind + 'for i%d in x%d:' % (i, i))
        else:
            out.append(ind + 'while x%d:' % i)
            out.append(ind + '    i%d = x%d' % (i, i))
        for _ in range(rng.randint(1, 3)):
            k = rng.random()
            b = ind + '    '
            if k < 0.5:
                out += [b + 'if x%d:' % i, b + '    x%d = i%d' % (i + 1, i), b + 'else:', b + '    x%d = x%d' % (i + 1, i)]
            elif k < 0.65:
                out += [b + 'if i%d:' % i, b + '    x%d = i%d' % (i + 1, i), b + 'elif x%d:' % i, b + '    x%d = x%d' % (i + 1, i),
                        b + 'else:', b + '    x%d = y%d = 0' % (i + 1, i)]
            elif k < 0.8:
                out += [b + 'try:', b + '    x%d = i%d.a' % (i + 1, i), b + 'except E as e%d:' % i, b + '    x%d = x%d' % (i + 1, i)]
            elif k < 0.9:
                out += [b + 'with x%d as x%d:' % (i, i + 1), b + '    if i%d: x%d = [j for j in x%d if j]' % (i, i + 1, i)]
            else:
                out += [b + 'if x%d: continue' % i, b + 'x%d = x%d if i%d else i%d' % (i + 1, i, i, i)]
    out.append('    ' * depth + 'y = x%d' % depth)
    for i in reversed(range(depth)):
        out.append('    ' * (i + 1) + 'z%d = y' % i)
        if rng.random() < 0.3:
            out.append('    ' * i + 'else:')
            out.append('    ' * (i + 1) + 'y = x%d' % i)
    out.append('y')
    src = '\n'.join(out) + '\n'
    last = len(out)
    inner = depth + 1 + sum(1 for _ in ())     # some line inside; positions are refined by the caller
    return src, [[last, 1]]


ESCAPE_STMTS = ['break', 'continue', 'return', 'return a', 'yield', 'yield a', 'a = yield', 'await a', 'yield from a', 'raise',
                'nonlocal a', 'global a', 'a = (yield)', 'return (yield)', 'b = await a']
ESCAPE_CTX = ['for a in b:', 'while a:', 'def f():', 'async def f(self):', 'class A:', 'class A(B):', 'with a as b:', 'try:', 'if a:',
              'async for a in b:', 'else:', 'finally:', 'except E as e:', 'match a:\n{i}    case b:', 'for a in b:\n{i}    pass\n{i}else:',
              'f = lambda: 0\n{i}def g(x=lambda: a):', '@a\n{i}def f():', 'while a:\n{i}    pass\n{i}else:']


def gen_escape_program(rng):
    """A control statement (break / continue / return / yield / await / nonlocal / ...) below a random
    chain of 1-4 enclosing constructs: loops, defs, classes, with, try parts, if, match - the typing
    states 'statement moved outside (or into) its construct' that ast.parse accepts."""
    depth = rng.randint(1, 4)
    out = []
    ind = ''
    opened = []
    for d in range(depth):
        c = rng.choice(ESCAPE_CTX)
        if c in ('else:', 'finally:', 'except E as e:'):
            out.append(ind + 'try:')
            out.append(ind + '    ' + rng.choice(ESCAPE_STMTS + ['pass', 'a = 1']))
            if c == 'else:':
                out.append(ind + 'except E:')
                out.append(ind + '    pass')
        elif c == 'try:':
            opened.append(ind)
        out.extend((ind + c.replace('{i}', ind)).split('\n'))
        if rng.random() < 0.4:
            out.append(ind + '    ' + rng.choice(['a = b', 'b = a.x', 'a.b = 1', 'import m1', 'x = [a for a in b]']))
        ind += '    ' if 'case b:' not in c else '        '
    out.append(ind + rng.choice(ESCAPE_STMTS))
    if rng.random() < 0.5:
        out.append(ind + rng.choice(['a.x', 'b = a', 'f()']))
    # close open try statements
    for i in reversed(opened):
        out.append(i + rng.choice(['finally:', 'except E:']))
        out.append(i + '    ' + rng.choice(ESCAPE_STMTS + ['pass']))
    out.append(rng.choice(['a', 'f().x', 'A().a', 'b.x', 'f']))
    src = '\n'.join(out) + '\n'
    return src


def escape_jobs(rng, n):
    jobs = []
    tries = 0
    while len(jobs) < n and tries < n * 5:
        tries += 1
        src = gen_escape_program(rng)
        try:
            ast.parse(src)
        except (SyntaxError, ValueError, RecursionError):
            continue            # only typing states the parser accepts: the analysis has to cope with them
        lines = src.split('\n')
        cand = [(ln, m.end()) for ln, l in enumerate(lines, 1) for m in IDENT.finditer(l) if not keyword.iskeyword(m.group(0))]
        rng.shuffle(cand)
        jobs.append({'kind': 'text', 'source': src, 'files': CYCLE_FILES[0], 'positions': [list(c) for c in cand[:6]] + [[len(lines) - 1, len(lines[-2])]],
                     'tag': 'escape-gen', 'filename': 'main.py', 'cpu_limit': 10})
    return jobs


def nested_loop_jobs(rng, n):
    jobs = []
    for i in range(n):
        src, poss = gen_nested_loops(rng, depth=3 + i % 4)
        lines = src.split('\n')
        # besides the final read: the read of the innermost level and one more identifier end
        for ln, l in enumerate(lines, 1):
            if l.strip().startswith('y = x'):
                poss.append([ln, len(l)])
                break
        cand = [(ln, m.end()) for ln, l in enumerate(lines, 1) for m in IDENT.finditer(l) if not keyword.iskeyword(m.group(0))]
        poss.append(list(rng.choice(cand)))
        jobs.append({'kind': 'text', 'source': src, 'files': {}, 'positions': poss, 'tag': 'nested-loops', 'filename': 'main.py',
                     'cpu_limit': NESTED_LOOP_CPU_LIMIT})
    return jobs


# deadline for the nested-loop family: the unmodified tree needs < 0.3 s of CPU for every call on it
NESTED_LOOP_CPU_LIMIT = 10


def gen_project_files(rng):
    """Sibling modules of a generated program: valid Python, import / star-import / inheritance
    cycles among m1, m2, m3 and a package with relative imports."""
    g = ProgGen(rng)
    files = {}
    cyc = rng.random()
    for k, other in (('m1', 'm2'), ('m2', 'm3' if cyc < 0.3 else 'm1'), ('m3', 'm1')):
        body = []
        form = rng.random()
        if form < 0.3:
            body.append('from %s import *' % other)
        elif form < 0.6:
            nm = rng.choice(['x', 'A', 'B', 'a', 'f'])
            body.append('from %s import %s%s' % (other, nm, rng.choice(['', '', ' as %s' % rng.choice(['x', 'A', 'a', 'f'])])))
            if rng.random() < 0.4:
                # re-export round the cycle under changing names
                body.append('from %s import %s as %s' % (other, rng.choice(['x', 'a']), rng.choice(['x', 'a'])))
        elif form < 0.8:
            body.append('import %s' % other)
        body.append('class %s(%s): %s = 1' % (rng.choice(['A', 'B']), rng.choice(['A', 'B', 'object', other + '.A', 'x']), rng.choice(['a', 'b'])))
        body.append('def f(): return %s' % rng.choice(['f()', 'A()', 'x', other + '.f()' if form >= 0.6 and form < 0.8 else 'a']))
        body.append('%s = %s' % (rng.choice(['x', 'a']), rng.choice(['x', 'a', 'A', 'A()', 'f()', 'f', '1'])))
        for _ in range(rng.randint(0, 3)):
            src = '\n'.join(g.stmt(0, 1))
            try:
                ast.parse(src)
            except (SyntaxError, ValueError, RecursionError):
                continue
            body.append(src)
        files[k + '.py'] = '\n'.join(body) + '\n'
    files['pkg/__init__.py'] = rng.choice(['from . import sub\n', 'from .sub import *\n', 'x = 1\n', 'from pkg.sub import A\n'])
    files['pkg/sub.py'] = rng.choice(['from . import x\nclass A: a = x\n', 'from .. import m1\n', 'from pkg import *\nclass A(A): pass\n',
                                      'import pkg\nA = pkg.A\n'])
    return files


SPECIAL_CASES = [
    # (tag, source with | for the cursor, apis)
    ('builtin', 'len|(x)\n'), ('builtin', 'x = le|n\n'), ('builtin', 'print(len|)\n'), ('builtin', 'object|\n'),
    ('builtin', 'len.|\n'), ('builtin', 'len().|\n'), ('builtin', 'super().|\n'), ('builtin', 'open(x).|\n'),
    ('builtin', 'class A:\n    def f(self):\n        super().|\n'), ('builtin', 'class A:\n    def f(self):\n        super().f|oo\n'),
    ('builtin', 'type(x).|\n'), ('builtin', 'dict().|\n'), ('builtin', 'memoryview().|\n'), ('builtin', 'range().|\n'),
    ('builtin', 'property().|\n'), ('builtin', 'BaseException().|\n'), ('builtin', '__name__.|\n'), ('builtin', '__file__|\n'),
    ('builtin', "''.|\n"), ('builtin', "''.join|\n"), ('builtin', '(1).|\n'), ('builtin', 'None.|\n'), ('builtin', 'b"".|\n'),
    ('builtin', 'locals = 1\nlocals|\n'), ('builtin', 'if x:\n    locals = 1\nlocals()\nlocals|\n'),
    ('builtin', 'def f():\n    locals()\n    x = 1\nf|\n'),
    ('compiled', 'import sys|\n'), ('compiled', 'import sys\nsys|\n'), ('compiled', 'import sys\nsys.|\n'), ('compiled', 'import sys\nsys.pa|th\n'),
    ('compiled', 'import sys\nsys.path.|\n'), ('compiled', 'from sys import pa|th\n'), ('compiled', 'from sys import |\n'),
    ('compiled', 'import _thread|\n'), ('compiled', 'import _thread\n_thread.LockType().|\n'), ('compiled', 'import time\ntime.struct_time().|\n'),
    ('compiled', 'from time import sleep\nsleep|\n'), ('compiled', 'import os.path|\n'), ('compiled', 'import os.pa|th\n'),
    ('compiled', 'import os.path\nos|\n'), ('compiled', 'import os.path\nos.|\n'), ('compiled', 'import os.path\nos.path|\n'),
    ('compiled', 'import os.path\nos.path.|\n'), ('compiled', 'import os.path as p\np|\n'), ('compiled', 'import os.path\nclass A(os): pass\nA.|\n'),
    ('compiled', 'import itertools\nitertools.chain().|\n'), ('compiled', 'import math\nmath.pi.|\n'), ('compiled', 'import builtins\nbuiltins.|\n'),
    ('compiled', 'import select\nselect.|\n'), ('compiled', 'import zlib|\n'), ('compiled', 'import array\narray.array|\n'),
    ('unknown', 'import nosuch|mod\n'), ('unknown', 'import nosuchmod|\n'), ('unknown', 'import nosuchmod\nnosuchmod|\n'), ('unknown', 'import nosuchmod\nnosuchmod.|\n'),
    ('unknown', 'import nosuch.sub|\n'), ('unknown', 'import nosuch.sub\nnosuch.sub.|\n'), ('unknown', 'from nosuch import fo|\n'), ('unknown', 'from nosuch import foo\nfoo|\n'),
    ('unknown', 'from nosuch import foo\nfoo.|\n'), ('unknown', 'from nosuch.|\n'), ('unknown', 'from nosuch.sub import |\n'), ('unknown', 'from nosuch import *\nx|\n'),
    ('unknown', 'from os import nosuch|\n'), ('unknown', 'from os import nosuch\nnosuch.|\n'), ('unknown', 'import os.nosuch|\n'), ('unknown', 'import os.nosuch\nos.nosuch.|\n'),
    ('halftyped', 'import |\n'), ('halftyped', 'import o|\n'), ('halftyped', 'import os.|\n'), ('halftyped', 'import os.pa|\n'), ('halftyped', 'import os, |\n'),
    ('halftyped', 'import os as |\n'), ('halftyped', 'from |\n'), ('halftyped', 'from o|\n'), ('halftyped', 'from os|\n'), ('halftyped', 'from os |\n'),
    ('halftyped', 'from os.|\n'), ('halftyped', 'from os i|\n'), ('halftyped', 'from os import |\n'), ('halftyped', 'from os import pa|\n'),
    ('halftyped', 'from os import path, |\n'), ('halftyped', 'from os import (|\n'), ('halftyped', 'from os import (path,|\n'), ('halftyped', 'from os import (path,\n  se|)\n'),
    ('halftyped', 'from os import path as |\n'), ('halftyped', 'from . import |\n'), ('halftyped', 'from .|\n'), ('halftyped', 'from ..|\n'), ('halftyped', 'from .. import |\n'),
    ('halftyped', 'from .m|\n'), ('halftyped', 'from .m1 import |\n'), ('halftyped', 'from .m1 import x|\n'), ('halftyped', 'from . import m1|\n'), ('halftyped', 'from . import m1\nm1.|\n'),
    ('halftyped', 'from .nosuch import x\nx.|\n'), ('halftyped', 'from . import *\n'), ('halftyped', 'from ... import x|\n'), ('halftyped', 'from .pkg.sub import A|\n'),
    ('halftyped', 'from m1 import |\n'), ('halftyped', 'from m1 import x|\n'), ('halftyped', 'from m1 import *\nx|\n'), ('halftyped', 'import m1\nm1.|\n'), ('halftyped', 'import m1\nm1.x.|\n'),
    ('halftyped', 'from pkg import |\n'), ('halftyped', 'from pkg.|\n'), ('halftyped', 'from pkg.sub import |\n'), ('halftyped', 'import pkg.sub\npkg.|\n'), ('halftyped', 'import pkg.sub\npkg.sub.|\n'),
    ('halftyped', '    from |\n'), ('halftyped', 'def f():\n    from os import |\n'), ('halftyped', 'x = """\nfrom the os.|\n"""\n'), ('halftyped', '# from os.|\n'),
    ('halftyped', 'from os import path; from |\n'), ('halftyped', 'from\tos.|\n'), ('halftyped', 'from os.path import(|\n'), ('halftyped', 'from os import path\\\n  , |\n'),
    ('lambda', 'class Q:\n    def __init__(self):\n        self._name = "q"\n    name = property(lambda self: self.|_name)\n'),
    ('lambda', 'class Q:\n    def __init__(self):\n        self._name = "q"\n    name = property(lambda self: self._na|me)\n'),
    ('lambda', 'class Q:\n    _name = "q"\n    name = property(lambda self: self|)\n'), ('lambda', 'class Q:\n    name = property(lambda se|lf: self)\n'),
    ('lambda', 'class R:\n    rank = 0\n    key = lambda self: self.|rank\n'), ('lambda', 'class R:\n    rank = 0\n    key = lambda self: self.rank|\n'),
    ('lambda', 'class R:\n    rank = 0\n    __lt__ = lambda self, other: self.rank < other.|rank\n'), ('lambda', 'class R:\n    rank = 0\n    key = lambda self: self.rank.|\n'),
    ('lambda', 'class R:\n    rank = 0\n    key = lambda self: self.|\n'), ('lambda', 'class R:\n    rank = 0\n    key = lambda self: self.\n    other = 1\nR().key|\n'),
    ('lambda', 'class R:\n    rank = 0\n    key = lambda self: self.rank\nR().key.|\n'), ('lambda', 'class R:\n    rank = 0\n    key = lambda self: self.rank\nR().key().|\n'),
    ('lambda', 'class R:\n    rank = 0\n    name = property(lambda self: self.rank)\nR().name.|\n'), ('lambda', 'class R:\n    rank = 0\n    name = property(lambda self: self.rank)\nR().na|me\n'),
    ('lambda', 'class R:\n    rank = 0\n    cb = staticmethod(lambda x: x.|rank)\n'), ('lambda', 'class R:\n    rank = 0\n    cm = classmethod(lambda cls: cls.|rank)\n'),
    ('lambda', 'class R:\n    rank = 0\n    f = lambda self, *a, **k: self.|rank\n'), ('lambda', 'class R:\n    rank = 0\n    f = lambda self=None: self.|rank\n'),
    ('lambda', 'class R:\n    rank = 0\n    f = lambda: lambda self: self.|rank\n'), ('lambda', 'class R:\n    rank = 0\n    class S:\n        f = lambda self: self.|rank\n'),
    ('lambda', 'class R:\n    rank = 0\n    def m(self):\n        return lambda x: x.|rank\n'), ('lambda', 'class R:\n    rank = 0\n    def m(self):\n        return lambda: self.|rank\n'),
    ('lambda', 'class R:\n    rank = 0\n    items = sorted([], key=lambda self: self.|rank)\n'), ('lambda', 'class R:\n    rank = 0\n    xs = [lambda self: self.|rank for i in y]\n'),
    ('lambda', 'class R:\n    rank = 0\n    @property\n    def p(self): return (lambda s: s.|rank)(self)\n'), ('lambda', 'key = lambda self: self.|name\n'),
    ('lambda', 'class R(B):\n    f = lambda self: super().|\n'), ('lambda', 'class R:\n    rank = 0\n    f = lambda self: (yield self.|rank)\n'),
    ('lambda', 'class R:\n    rank = 0\n    async def m(self):\n        await self.|rank\n'), ('lambda', 'class R:\n    rank = 0\n    @classmethod\n    def m(cls): cls.|rank\n'),
    ('lambda', 'class R:\n    rank = 0\n    @staticmethod\n    def m(x): x.|rank\n'), ('lambda', 'class R:\n    rank = 0\n    @a.b\n    def m(self): self.|rank\n'),
    ('escape', 'for a in b:\n    def f():\n        break\na|\n'), ('escape', 'while a:\n    class A:\n        break\nA.|\n'),
    ('escape', 'for a in b:\n    def f():\n        continue\n    f|\n'), ('escape', 'for a in b:\n    class A:\n        continue\n    a|\n'),
    ('escape', 'for a in b:\n    x = 1\n    def f(): break\n    x|\nx.|\n'), ('escape', 'def g():\n    for a in b:\n        def f():\n            break\n        a|\n    return a\n'),
    ('escape', 'for a in b:\n    for c in a:\n        class A:\n            def m(self):\n                break\n        c|\n'), ('escape', 'while a:\n    f = lambda: 0\n    def g(): break\n    g|\n'),
    ('escape', 'for a in b:\n    async def f():\n        await a\n        break\n    else:\n        continue\na|\n'), ('escape', 'for a in b:\n    pass\nelse:\n    break\na|\n'),
    ('escape', 'class A:\n    for a in b:\n        def f(self):\n            break\n    a|\nA.|\n'), ('escape', 'for a in b:\n    try:\n        def f(): break\n    finally:\n        class B: continue\na|\n'),
    ('escape', 'for a in b:\n    with a as c:\n        def f():\n            return\n            break\n    c|\n'), ('escape', 'break\ncontinue\nfor a in b:\n    def f():\n        for c in a:\n            def g(): break\n            break\n        break\na|\n'),
    ('escape', 'def f():\n    class A:\n        return 1\n        yield\n    return A|\n'), ('escape', 'class A:\n    yield\n    await x\n    x = (yield)\nA.|\n'),
    ('escape', 'lambda: (yield)\nx = [(yield) for a in b]\nx|\n'), ('escape', 'def f():\n    nonlocal a\n    global b\nnonlocal c\nf|\n'),
    ('typeparam', 'def f[T: in|t](x: T): pass\n'), ('typeparam', 'def f[T: int|](x: T): pass\n'), ('typeparam', 'def f[T|: int](x: T): pass\n'),
    ('typeparam', 'def f[T](x: T|): pass\n'), ('typeparam', 'class A[T: (int, st|r)]: pass\n'), ('typeparam', 'class A[T: m1.|A](m1.A): pass\n'),
    ('typeparam', 'type X[T: in|t] = list[T]\n'), ('typeparam', 'type X = in|t\n'), ('typeparam', 'def f[*Ts, **P](x: T|s): pass\n'),
    ('typeparam', 'class A[T]:\n    x: T|\n    def m[U: T|](self): pass\n'), ('typeparam', 'async def f[T: a.|b](): pass\n'), ('typeparam', 'def f[T: int](x): return T|\n'),
    ('sameline', 'for i in y: print(a|b); ab = 1\n'), ('sameline', 'while c: u|v; uv = 2\n'), ('sameline', 'f = lambda: g|g; gg = 1\n'),
    ('sameline', 'def f(): return g|h; gh = 1\n'), ('sameline', 'def f(): return gh|\ngh = 1\n'), ('sameline', 'ab = 1; a|b\n'), ('sameline', 'for i in y: a|b.x; ab = z\n'),
    ('sameline', 'class A: f = lambda s: B|; B = 1\n'), ('sameline', 'while c: (u|v, uv); uv = 2; uv = 3\n'), ('sameline', 'if c: p = 1\nelse: p = 2\nfor i in y: print(p|, q); p = 3; q = 4\n'),
    ('cycle', 'a = b\nb = a\na.|\n'), ('cycle', 'x = x.y\nx.|\n'), ('cycle', 'while c:\n    a = b\n    b = a\na.|\n'), ('cycle', 'for i in j:\n    x = x.y\nx|\n'),
    ('cycle', 'def f(): return g()\ndef g(): return f()\nf().|\n'), ('cycle', 'def f(): return f\nf()()().|\n'), ('cycle', 'def f(): return f()\nf|\n'),
    ('cycle', 'class A(A): pass\nA.|\n'), ('cycle', 'class A(A): pass\nA().|\n'), ('cycle', 'class B: pass\nclass A(B): pass\nclass B(A): pass\nA().|\n'),
    ('cycle', 'class B: pass\nfor i in x:\n    class A(B): pass\n    class B(A): pass\nA.|\n'), ('cycle', 'class B: pass\nfor i in x:\n    class A(B): pass\n    class B(A): pass\nA().|\n'),
    ('cycle', 'class B: pass\nwhile x:\n    class A(B): a = 1\n    class B(A): b = 1\nB().a|\n'),
    ('cycle', 'class A:\n    def f(self):\n        self.x = self.x\n        self.x.|\n'), ('cycle', 'class A:\n    def f(self):\n        self.x = self.y\n        self.y = self.x\n        self.y.|\n'),
    ('cycle', 'class A:\n    def f(self):\n        self.x = self\n        self.x.x.x|\n'), ('cycle', 'class A:\n    x = property(lambda self: self.x)\nA().x.|\n'),
    ('cycle', 'class A:\n    @property\n    def x(self): return self.x\nA().x.|\n'), ('cycle', 'class A:\n    @property\n    def x(self): return A().x\nA().x|\n'),
    ('cycle', 'from m1 import x\nx|\n'), ('cycle', 'from m1 import x\nx.|\n'), ('cycle', 'from m1 import A\nA.|\n'), ('cycle', 'from m1 import A\nA().|\n'), ('cycle', 'from m1 import A\nA().a|\n'),
    ('cycle', 'from m1 import *\nA().|\n'), ('cycle', 'import m1\nm1.A.|\n'), ('cycle', 'import m1\nclass Z(m1.A): pass\nZ().a|\n'), ('cycle', 'from m1 import f\nf().|\n'), ('cycle', 'from m1 import f\nf()|\n'),
]

CYCLE_FILES = [
    {'m1.py': 'from m2 import x\nfrom m2 import A as B\nclass A(B): a = 1\ndef f(): return g()\nfrom m2 import g\n',
     'm2.py': 'from m1 import x\nfrom m1 import A as B\nclass A(B): b = 1\ndef g(): return f()\nfrom m1 import f\n'},
    {'m1.py': 'from m2 import *\nclass A(B): a = 1\nx = y\ndef f(): return B()\n',
     'm2.py': 'from m1 import *\nclass B(A): b = 1\ny = x\n'},
    {'m1.py': 'import m2\nclass A(m2.A): a = 1\nx = m2.x\ndef f(): return m2.f()\n',
     'm2.py': 'import m3\nclass A(m3.A): a = 1\nx = m3.x\ndef f(): return m3.f()\n',
     'm3.py': 'import m1\nclass A(m1.A): a = 1\nx = m1.x\ndef f(): return m1.f()\n'},
    {'m1.py': 'from m1 import x\nfrom m1 import *\nimport m1\nclass A(m1.A): pass\n'},
    # re-export cycles: a renaming 3-cycle and the try/except ImportError pair CPython really imports
    {'m1.py': 'from m2 import y as x\nfrom m2 import B as A\nfrom m2 import g as f\n', 'm2.py': 'from m3 import z as y\nfrom m3 import C as B\nfrom m3 import h as g\n',
     'm3.py': 'from m1 import x as z\nfrom m1 import A as C\nfrom m1 import f as h\n'},
    {'m1.py': 'try:\n    from m2 import x, A, f\nexcept ImportError:\n    x = None\n', 'm2.py': 'try:\n    from m1 import x, A, f\nexcept ImportError:\n    x = None\n'},
    {'m1.py': 'x = 1\nclass A: a = 1\ndef f(): return A()\n', 'pkg/__init__.py': 'from .sub import *\n', 'pkg/sub.py': 'from . import *\nfrom .. import m1\nclass A: pass\n'},
]


def altbase_templates():
    """Classes whose base is a name bound on two paths to values of different kinds; cursor on the
    class, on an instance, on self inside a method and on the result of a method."""
    pre = 'class P:\n    def hello(self): return 1\nclass F:\n    def world(self): return 2\ndef fn(): return P\nimport m1\n'
    alts = [('F', 'P'), ('F', 'P()'), ('P', 'fn'), ('P', 'm1'), ('P', 'None'), ('P', 'nosuch'), ('Impl', 'P'), ('P()', 'F()'),
            ('fn()', 'm1.A'), ('Impl', 'Impl2')]
    out = []
    for a1, a2 in alts:
        base = pre + 'if x:\n    Impl = F\nelse:\n    Impl = P\nif y:\n    Impl2 = P()\nelse:\n    Impl2 = Impl\n'
        base += 'if z:\n    Base = %s\nelse:\n    Base = %s\n' % (a1, a2)
        cls = 'class W(Base):\n    def run(self):\n        self.count = 1\n        return self.%s\n'
        out += [base + cls % 'hel|lo', base + cls % '|', base + cls % 'count' + 'W.|\n', base + cls % 'count' + 'W().|\n',
                base + cls % 'count' + 'W().hel|lo\n', base + cls % 'count' + 'W().run().|\n']
    out.append(pre + 'try:\n    from accel_does_not_exist import Base\nexcept ImportError:\n    Base = P\nclass W(Base):\n    def run(self):\n        return self.|\n')
    out.append(pre + 'try:\n    from accel_does_not_exist import Base\nexcept ImportError:\n    Base = P()\nclass W(Base, F):\n    pass\nW().|\n')
    out.append(pre + 'for i in x:\n    Base = P\n    Base = [Base, F][0]\nclass W(Base): pass\nW.|\n')
    return [('altbase', t) for t in out]


def blankend_templates():
    """The state right after typing a block opener + Enter at the end of a file: the last line is
    only indentation, there is no trailing newline, the cursor stands behind (or inside, or before)
    that indentation.  The cursor-marked text parses, so no SyntaxError may escape."""
    heads = ['def f():', 'if x:', 'class A:', 'for a in b:', 'while a:', 'try:', 'with a as b:', 'async def f(self):',
             'x = 1\nif x:\n    pass\nelse:', 'class A:\n    def m(self):', 'def f():\n    for a in b:\n        if a:',
             'try:\n    pass\nexcept E as e:', 'class A:\n    x = 1\n    def m(self):\n        return self.x\n    def n(self):',
             'import os\ndef f(a, b=os.path):', 'def f():\n    x = 1', 'x = [\n    1,\n]\nif x:']
    out = []
    for h in heads:
        depth = (len(h.split('\n')[-1]) - len(h.split('\n')[-1].lstrip())) // 4 + (1 if h.rstrip().endswith(':') else 0)
        ind = '    ' * max(depth, 1)
        out.append(h + '\n' + ind + '|')                       # cursor behind the indentation
        out.append(h + '\n' + ind[:-2] + '|' + ind[-2:])       # inside it
        out.append(h + '\n|' + ind)                            # before it
        out.append(h + '\n' + ind + '|\n')                    # the same with a trailing newline
        out.append(h + '\n' + '\t' * max(depth, 1) + '|')     # tab indentation
        out.append(h + '\n' + ind + '\n' + ind + '|')         # two blank lines
        out.append(h + '\n' + ind + 'se|')                     # first characters of the statement typed
        out.append(h + '\r\n' + ind + '|')                    # CRLF buffer
    out.append('   |')
    out.append('\n   |')
    out.append('x = 1\n\n\n    |')
    return [('blankend', t) for t in out]


SPECIAL_CASES = SPECIAL_CASES + altbase_templates() + blankend_templates()


def cursor_case(src):
    i = src.index('|')
    pre = src[:i]
    return src[:i] + src[i + 1:], [pre.count('\n') + 1, len(pre) - (pre.rfind('\n') + 1)]


# ---------------------------------------------------------------------------------------------
# (I) correspondence: Model/Eval.v against evaluator.py / name.py / scope.py on dumped graphs
# ---------------------------------------------------------------------------------------------

class Unsupported(Exception):
    """The dumped structure is outside what Model/Eval.v describes (fail closed)."""


class IGen(object):
    """Small projects in the fragment the model covers: assignments, single/multi-return functions,
    classes with bases and per-definition unique attribute names, methods using self, loops and
    branches (loop-carried redefinitions -> MultiName alternatives), imports between 2-3 modules
    (cycles included).  No decorators, no attribute assignments, no dotted imports."""

    def __init__(self, rng):
        self.r = rng
        self.k = 0          # class-definition counter -> unique attribute names
        self.attrs = []
        self.targeted = []  # queries aimed at the alternative-base classes of the main module
        self.alt_bias = 0.0

    VARS = ['v0', 'v1', 'v2', 'v3']
    FUNCS = ['f0', 'f1', 'f2']
    CLASSES = ['C0', 'C1', 'C2']

    def name(self, in_method=False):
        pool = self.VARS + self.FUNCS + self.CLASSES + self.mods
        if self.defined and self.r.random() < 0.85:
            pool = self.defined
        if in_method and self.r.random() < 0.5:
            return 'self'
        return self.r.choice(pool)

    def attr(self):
        if self.attrs and self.r.random() < 0.8:
            return self.r.choice(self.attrs)
        return self.r.choice(self.VARS + self.FUNCS + self.CLASSES)

    def expr(self, d=0, in_method=False):
        r = self.r
        k = r.random()
        if d >= 3 or k < 0.35:
            return r.choice([self.name(in_method), self.name(in_method), self.name(in_method), self.name(in_method), '(1)', 'object'])
        if k < 0.65:
            return '%s.%s' % (self.expr(d + 1, in_method), self.attr())
        return '%s()' % self.expr(d + 1, in_method)

    def simple(self, ind, in_class=False):
        r = self.r
        p = '    ' * ind
        k = r.random()
        if k < 0.4:
            v = r.choice(self.VARS)
            out = [p + '%s = %s' % (v, self.expr())]
            self.defined.append(v)
            return out
        if k < 0.65:
            nret = r.choice([0, 1, 1, 1, 1, 2])
            f = r.choice(self.FUNCS)
            self.defined.append(f)      # recursion: the function may name itself
            body = [p + '    return %s' % self.expr() for _ in range(nret)] or [p + '    pass']
            if nret and r.random() < 0.1:
                body[0] = p + '    return'
            return [p + 'def %s():' % f] + body
        self.k += 1
        a, m = 'a%d' % self.k, 'm%d' % self.k
        nb = r.choice([0, 1, 1, 1, 2])
        bases = ', '.join(r.choice([self.name(), self.name(), r.choice(self.CLASSES), 'object'] +
                                   [x + '.' + r.choice(self.CLASSES) for x in self.mods])
                          for _ in range(nb))
        c = r.choice(self.CLASSES)
        out = [p + 'class %s%s:' % (c, '(%s)' % bases if bases else '')]
        out.append(p + '    %s = %s' % (a, self.expr()))
        self.defined.append(c)
        self.attrs += [a, m]
        if r.random() < 0.7:
            out.append(p + '    def %s(self):' % m)
            out.append(p + '        return %s' % self.expr(0, True))
        return out

    def alt_base(self, ind):
        """A class statement whose base expression has several alternative values of different
        kinds (class / instance / function / module / multiply bound name / None / undefined),
        bound by if/else or by a try/except import fall-back; queries on the class, on an instance
        and through self in a method."""
        r = self.r
        p = '    ' * ind
        out = []
        self.k += 1
        k1 = self.k
        self.k += 1
        k2 = self.k
        self.k += 1
        k3 = self.k
        c1, c2, t = r.sample(self.CLASSES, 3) if len(self.CLASSES) >= 3 else (self.CLASSES * 3)[:3]
        out += [p + 'class %s:' % c1, p + '    a%d = (1)' % k1, p + '    def m%d(self):' % k1, p + '        return self.a%d' % k1]
        out += [p + 'class %s(object):' % c2, p + '    a%d = %s' % (k2, c1)]
        f = r.choice(self.FUNCS)
        out += [p + 'def %s():' % f, p + '    return %s' % r.choice([c1, c1 + '()', c2])]
        self.defined += [c1, c2, f]
        self.attrs += ['a%d' % k1, 'm%d' % k1, 'a%d' % k2]

        def alt():
            kind = r.choice(['class', 'class', 'instance', 'function', 'module', 'multi', 'none', 'undefined', 'call', 'attr'])
            if kind == 'class':
                return [], r.choice([c1, c2])
            if kind == 'instance':
                return [], r.choice([c1, c2]) + '()'
            if kind == 'function':
                return [], f
            if kind == 'module':
                return [], (r.choice(self.mods) if self.mods else 'object')
            if kind == 'none':
                return [], r.choice(['None', '(1)', 'object'])
            if kind == 'undefined':
                return [], 'nosuch'
            if kind == 'call':
                return [], f + '()'
            if kind == 'attr':
                return [], '%s.a%d' % (c2, k2)
            w = r.choice(self.VARS)
            return [p + 'if v0:', p + '    %s = %s' % (w, r.choice([c1, c2])), p + 'else:', p + '    %s = %s' % (w, r.choice([c1 + '()', c2, f, '(1)']))], w

        b = r.choice(self.VARS)
        pre1, a1 = alt()
        pre2, a2 = alt()
        out += pre1 + pre2
        form = r.random()
        if form < 0.5:
            out += [p + 'if v1:', p + '    %s = %s' % (b, a1), p + 'else:', p + '    %s = %s' % (b, a2)]
        elif form < 0.8:
            out += [p + 'try:', p + '    from nosuchmod import %s' % b, p + 'except ImportError:', p + '    %s = %s' % (b, a1)]
            if r.random() < 0.5:
                out += [p + 'if v1:', p + '    %s = %s' % (b, a2)]
        else:
            out += [p + '%s = %s' % (b, a1), p + 'for _i in ():', p + '    %s = %s' % (b, a2)]
        extra = r.choice(['', '', ', ' + c2, ', object'])
        out += [p + 'class %s(%s%s):' % (t, b, extra), p + '    a%d = %s' % (k3, r.choice(['(1)', c1, b])),
                p + '    def m%d(self):' % k3, p + '        return self.%s' % r.choice(['a%d' % k1, 'a%d' % k2, 'a%d' % k3, 'm%d()' % k1])]
        self.defined += [b, t]
        self.attrs += ['a%d' % k3, 'm%d' % k3]
        self.targeted += ['%s.a%d' % (t, k1), '%s().a%d' % (t, k1), '%s().m%d()' % (t, k3), '%s().m%d()' % (t, k1), '%s.a%d' % (t, k2),
                          '%s().a%d' % (t, k3), '%s()' % t, b, '%s()' % b]
        return out

    def stmts(self, ind, depth, n):
        r = self.r
        out = []
        for _ in range(n):
            k = r.random()
            p = '    ' * ind
            if depth < 2 and k < 0.05 + self.alt_bias:
                out += self.alt_base(ind)
            elif depth < 2 and k < 0.12:
                out += [p + 'for _i in ():'] + self.stmts(ind + 1, depth + 1, r.randint(1, 3))
            elif depth < 2 and k < 0.2:
                out += [p + 'while v0:'] + self.stmts(ind + 1, depth + 1, r.randint(1, 3))
            elif depth < 2 and k < 0.3:
                out += [p + 'if v1:'] + self.stmts(ind + 1, depth + 1, r.randint(1, 2)) + [p + 'else:'] + self.stmts(ind + 1, depth + 1, r.randint(1, 2))
            else:
                out += self.simple(ind)
        return out

    def imports(self, me, others):
        r = self.r
        out = []
        self.mods = []
        self.defined = []
        for o in others:
            k = r.random()
            if k < 0.3:
                out.append('import %s' % o)
                self.mods.append(o)
                self.defined.append(o)
            elif k < 0.7:
                nm = r.choice(self.VARS + self.FUNCS + self.CLASSES + ['nosuch'])
                if r.random() < 0.3:
                    # re-export under another name (renaming cycles across modules)
                    nm2 = r.choice(self.VARS + self.FUNCS + self.CLASSES)
                    out.append('from %s import %s as %s' % (o, nm, nm2))
                    nm = nm2
                else:
                    out.append('from %s import %s' % (o, nm))
                self.defined.append(nm)
            elif k < 0.8:
                out.append('from %s import *' % o)
        return out

    def project(self):
        r = self.r
        nmod = r.choice([0, 1, 2, 2, 3])
        names = ['m%d' % (i + 1) for i in range(nmod)]
        files = {}
        for nm in names:
            others = [o for o in names if o != nm and r.random() < 0.8]
            if r.random() < 0.2:
                others.append('main')
            body = self.imports(nm, others) + self.stmts(0, 0, r.randint(1, 4))
            files[nm + '.py'] = '\n'.join(body) + '\n'
        self.targeted = []
        self.alt_bias = r.choice([0.0, 0.0, 0.25])
        body = self.imports('main', [o for o in names if r.random() < 0.9]) + self.stmts(0, 0, r.randint(2, 6))
        queries = [self.expr(0) for _ in range(r.randint(3, 6))]
        r.shuffle(self.targeted)
        queries += self.targeted[:6]
        src = '\n'.join(body + queries) + '\n'
        return files, src, len(queries)


class Dumper(object):
    """Walks the structures supp built for one analysed project exactly along the edges the
    evaluator follows and prints them as a Model.Eval.graph.  Reads: flow.names_at, value_node,
    ImportedName.resolve, valid_names, FuncScope.returns, ClassScope._bases / locals / flow.names,
    ArgumentName.idx / func.parent, module _attrs.  Anything else raises Unsupported."""

    def __init__(self, project):
        from supp.evaluator import EvalCtx
        self.ctx = EvalCtx(project)
        self.ids = {}
        self.keep = []
        self.terms = []
        self.idents = {}
        self.none_id = None

    def ident(self, s):
        if s not in self.idents:
            self.idents[s] = len(self.idents) + 1
        return '%d%%N' % self.idents[s]

    def opt(self, obj):
        return 'None' if obj is None else '(Some %d)' % self.node(obj)

    def table(self, items):
        return '[' + '; '.join('(%s, %d)' % (self.ident(k), self.node(v)) for k, v in items) + ']'

    def node(self, obj):
        import ast as _ast
        from supp import name as N, scope as S
        from supp.module import SourceModule, ImportedModule
        from supp.util import np
        if obj is None:
            if self.none_id is None:
                self.none_id = len(self.terms)
                self.terms.append('NOther')
            return self.none_id
        key = id(obj)
        if key in self.ids:
            return self.ids[key]
        idx = len(self.terms)
        self.ids[key] = idx
        self.keep.append(obj)
        self.terms.append(None)
        t = type(obj)
        if t is _ast.Name:
            if not hasattr(obj, 'flow'):
                nm = None       # a read the analysis did not visit: evaluate answers None (F69)
            else:
                nm = obj.flow.names_at(np(obj)).get(obj.id)
            term = 'NRef %s' % self.opt(nm if nm else None)
        elif t is N.AssignedName:
            term = 'NAssigned %d' % self.node(obj.value_node)
        elif t is N.ImportedName:
            target = obj.resolve(self.ctx)
            term = 'NImported %s' % self.opt(target if target else None)
        elif t is _ast.Attribute:
            term = 'NAttr %d %s' % (self.node(obj.value), self.ident(obj.attr))
        elif t is N.MultiName:
            term = 'NMulti [%s]' % '; '.join(str(self.node(n)) for n in obj.valid_names)
        elif t is _ast.Call:
            term = 'NCall %d' % self.node(obj.func)
        elif t is S.FuncScope:
            if isinstance(obj.parent, S.ClassScope) and obj.decorator_list:
                raise Unsupported('decorated method')
            term = 'NFunc [%s]' % '; '.join(str(self.node(r)) for r in obj.returns)
        elif t is S.ClassScope:
            names = obj.flow.names
            locs = [(n, names[n]) for n in sorted(obj.locals) if n in names]
            term = 'NClass [%s] %s' % ('; '.join(str(self.node(b)) for b in obj._bases), self.table(locs))
        elif t is N.ArgumentName:
            if getattr(obj.func, 'decorator_list', None):
                raise Unsupported('parameter of a decorated function')
            if obj.idx == [0] and isinstance(obj.func.parent, S.ClassScope):
                term = 'NArg (Some %d)' % self.node(obj.func.parent)
            else:
                term = 'NArg None'
        elif t is N.RuntimeName:
            term = 'NConst %s' % ('true' if isinstance(obj.value, type) else 'false')
        elif t is _ast.Constant:
            term = 'NConst false'
        elif t is SourceModule:
            term = 'NModule %s' % self.table(sorted(obj._attrs.items()))
        elif t is ImportedModule:
            term = 'NModule []'
        elif isinstance(obj, _ast.AST):
            term = 'NOther'
        else:
            raise Unsupported('object of type %s' % t.__name__)
        self.terms[idx] = term
        return idx

    def graph_term(self):
        return '[' + '; '.join(self.terms) + ']'

    # ---- observed results as Model.Eval values ------------------------------------------------
    def value(self, v):
        from supp import name as N
        from supp.module import SourceModule, ImportedModule
        t = type(v)
        if t is N.ClassObject:
            return 'VAtom (AClass %d)' % self.known(v.scope)
        if t is N.InstanceValue:
            return 'VAtom (AInst %d)' % self.known(v.cls.scope)
        if t is N.FuncObject:
            return 'VAtom (AFunc %d)' % self.known(v.scope)
        if t in (SourceModule, ImportedModule):
            return 'VAtom (AModule %d)' % self.known(v)
        if t is N.RuntimeName:
            return 'VAtom (ARuntime %s)' % ('true' if isinstance(v.value, type) else 'false')
        if t is N.CompositeValue:
            return 'VComp [%s]' % '; '.join(self.value(x) for x in v.values)
        raise Unsupported('value of type %s' % t.__name__)

    def known(self, obj):
        if id(obj) not in self.ids:
            raise Unsupported('result object %r was not reached by the dumper' % (obj,))
        return self.ids[id(obj)]

    def dres(self, r):
        if isinstance(r, list):
            return 'DAlts [%s]' % '; '.join(str(self.known(n)) for n in r)
        return 'DOne %d' % self.known(r)


def dump_flows(scope):
    """The flow graph of one analysed source as a Model.Eval.fgraph plus the scope depth of every flow."""
    from supp import scope as S
    flows = scope._all_flows
    index = {id(f): i for i, f in enumerate(flows)}

    def depth(sc):
        d = 0
        while sc is not None and sc is not scope:
            # class scopes do not take part in name lookup of nested scopes but do nest
            sc = sc.parent
            d += 1
        return d

    def outer_flow(fl):
        ps = fl.scope.parent
        while isinstance(ps, S.ClassScope):
            ps = ps.parent
        if ps is None or not hasattr(ps, 'flow'):
            return None
        return index.get(id(ps.flow))

    terms, depths = [], []
    nloops = 0
    for i, fl in enumerate(flows):
        ps = []
        for p in fl.parents:
            if isinstance(p, S.LoopFlow):
                ps.append('PLoop %d' % index[id(p.parent)])
                nloops += 1
            else:
                ps.append('PDirect %d' % index[id(p)])
        o = None
        if not fl.parents and fl.scope is not scope:
            o = outer_flow(fl)
        own = list(range(len(fl._names)))
        terms.append('{| own := [%s]; parents := [%s]; outer := %s |}' % (
            '; '.join(str(x) for x in own[:3]), '; '.join(ps), 'None' if o is None else '(Some %d)' % o))
        depths.append(depth(fl.scope))
    return '[' + '; '.join(terms) + ']', '[' + '; '.join(str(d) for d in depths) + ']', len(flows), nloops


I_PRELUDE = r'''
Definition atom_eqb (a b : atom) : bool :=
  match a, b with
  | AClass x, AClass y | AInst x, AInst y | AFunc x, AFunc y | AModule x, AModule y => Nat.eqb x y
  | ARuntime x, ARuntime y => Bool.eqb x y
  | _, _ => false
  end.
(* alternatives of a CompositeValue are compared as sets: their order is a set order in the code *)
Fixpoint value_eqb (a b : value) {struct a} : bool :=
  match a, b with
  | VAtom x, VAtom y => atom_eqb x y
  | VComp xs, VComp ys =>
      Nat.eqb (List.length xs) (List.length ys) &&
      forallb (fun x => existsb (value_eqb x) ys) xs &&
      forallb (fun y => existsb (fun x => value_eqb x y) xs) ys
  | _, _ => false
  end.
Inductive obs := ONone | OVal (v : value) | OCrash.
Definition ev_ok (r : result (option value)) (o : obs) : bool :=
  match r, o with
  | Ok None, ONone => true
  | Ok (Some v), OVal w => value_eqb v w
  | _, _ => false
  end.
Definition set_eqb (a b : list nat) : bool :=
  Nat.eqb (List.length a) (List.length b) && forallb (fun x => mem x b) a && forallb (fun x => mem x a) b.
Definition dres_eqb (a b : dres) : bool :=
  match a, b with DOne x, DOne y => Nat.eqb x y | DAlts x, DAlts y => set_eqb x y | _, _ => false end.
Fixpoint dlist_eqb (a b : list dres) : bool :=
  match a, b with
  | [], [] => true
  | x :: r, y :: s => dres_eqb x y && dlist_eqb r s
  | _, _ => false
  end.
Inductive dobs := DList (l : list dres) | DCrash.
Definition de_ok (r : result (list dres)) (o : dobs) : bool :=
  match r, o with Ok l, DList m => dlist_eqb l m | _, _ => false end.
(* one case = one analysed project: graph, queries (node, observed evaluate, observed declarations) *)
Definition check_case (c : graph * list (nat * obs * dobs)) : bool :=
  let g := fst c in
  typed g &&
  forallb (fun q => match q with (n, o, d) =>
     ev_ok (eval (eval_fuel g) cfg_fixed g prog0 n) o &&
     de_ok (decl (decl_fuel g) cfg_fixed g (eval_fuel g) [] n) d end) (snd c).
(* what part of a case fails: 1 typed, 2 evaluate, 3 declarations (for the report) *)
Definition why_case (c : graph * list (nat * obs * dobs)) : list nat :=
  let g := fst c in
  (if typed g then [] else [1]) ++
  flat_map (fun q => match q with (n, o, d) =>
     (if ev_ok (eval (eval_fuel g) cfg_fixed g prog0 n) o then [] else [2; n]) ++
     (if de_ok (decl (decl_fuel g) cfg_fixed g (eval_fuel g) [] n) d then [] else [3; n]) end) (snd c).
Definition branch_tag (c : graph * list (nat * obs * dobs)) : list nat :=
  map (fun q => match q with (n, _, _) =>
     match eval (eval_fuel (fst c)) cfg_fixed (fst c) prog0 n with
     | Ok None => 0 | Ok (Some (VAtom (AClass _))) => 1 | Ok (Some (VAtom (AInst _))) => 2
     | Ok (Some (VAtom (AFunc _))) => 3 | Ok (Some (VAtom (AModule _))) => 4
     | Ok (Some (VAtom (ARuntime _))) => 5 | Ok (Some (VComp _)) => 6 | Err _ => 7 | OutOfFuel => 8 end end) (snd c).
Definition flow_case (c : fgraph * list nat) : bool :=
  flows_wf (snd c) (fst c) &&
  forallb (fun i => match names (names_fuel (fst c)) true (fst c) [] i with Ok _ => true | _ => false end)
          (seq 0 (List.length (fst c))).
(* real files: only the hypothesis of C08_names_total (the unmemoised model is exponential in joins) *)
Definition flow_wf_case (c : fgraph * list nat) : bool := flows_wf (snd c) (fst c).
(* shape level: lint codes given the parse result, location output given the declarations *)
Definition code_of (n : nat) : code := match n with 0 => E01 | 1 => E02 | 2 => E42 | 3 => W01 | _ => W02 end.
Definition lint_case (c : bool * list nat) : bool :=
  let codes := map code_of (snd c) in
  let n01 := List.length (filter (fun k => code_eqb k E01) codes) in
  if fst c then Nat.eqb n01 1 && Nat.eqb (List.length codes) 1 else Nat.eqb n01 0.
Definition out_eqb (a b : loc_out) : bool :=
  match a, b with
  | LOne l c f, LOne l' c' f' => Z.eqb l l' && Z.eqb c c' && match f, f' with Some x, Some y => Nat.eqb x y | None, None => true | _, _ => false end
  | LAlts x, LAlts y => Nat.eqb (List.length x) (List.length y)
  | _, _ => false
  end.
Fixpoint outs_eqb (a b : list loc_out) : bool :=
  match a, b with [], [] => true | x :: r, y :: s => out_eqb x y && outs_eqb r s | _, _ => false end.
Definition loc_case (c : (Z * Z) * list decl_entry * option (list loc_out)) : bool :=
  match c with
  | (cur, entries, Some out) => outs_eqb (format_fixed cur entries) out
  | (_, _, None) => false
  end.
'''


def analyse_project(root, files, src, nq, ctx_h=None):
    """Run the real engines on the query expressions of a generated project, then dump the graph.
    Returns (graph_term, [(node, obs_term, dobs_term)], crashes, flow case) or raises Unsupported."""
    from supp.project import Project
    from supp.util import Source
    from supp.nast import extract_scope
    from supp.evaluator import EvalCtx
    for name, content in files.items():
        p = os.path.join(root, name)
        os.makedirs(os.path.dirname(p), exist_ok=True)
        with open(p, 'w') as f:
            f.write(content)
    main = os.path.join(root, 'main.py')
    with open(main, 'w') as f:
        f.write(src)
    project = Project([root])
    source = Source(src, main)
    scope = extract_scope(source, project)
    qnodes = [st.value for st in source.tree.body[-nq:]]
    observed = []
    crashes = []
    for q in qnodes:
        try:
            v = EvalCtx(project).evaluate(q)
            ev = ('val', v)
        except RecursionError as e:
            ev = ('crash', 'RecursionError')
        except Exception as e:
            ev = ('crash', '%s: %s' % (type(e).__name__, e))
        try:
            d = EvalCtx(project).declarations(q, [])
            dv = ('val', d)
        except RecursionError as e:
            dv = ('crash', 'RecursionError')
        except Exception as e:
            dv = ('crash', '%s: %s' % (type(e).__name__, e))
        observed.append((q, ev, dv))
        for kind, x in (('evaluate', ev), ('declarations', dv)):
            if x[0] == 'crash':
                crashes.append((kind, ast.unparse(q), x[1]))
    D = Dumper(project)
    qs = []
    for q, ev, dv in observed:
        n = D.node(q)
        # everything the results mention must be in the graph
        qs.append((n, ev, dv))
    queries = []
    for n, ev, dv in qs:
        if ev[0] == 'crash':
            o = 'OCrash'
        elif ev[1] is None:
            o = 'ONone'
        else:
            o = 'OVal (%s)' % D.value(ev[1])
        if dv[0] == 'crash':
            d = 'DCrash'
        else:
            d = 'DList [%s]' % '; '.join(D.dres(r) for r in dv[1])
        queries.append('(%d, %s, %s)' % (n, o, d))
    fg, depths, nflows, nloops = dump_flows(scope)
    return D.graph_term(), queries, crashes, (fg, depths, nflows, nloops), len(D.terms)


# ---------------------------------------------------------------------------------------------
# the check
# ---------------------------------------------------------------------------------------------

LEVEL = 'proof'
ASSUMPTIONS = [
    'PARTIAL: freedom from Python exceptions (AttributeError, KeyError, ...) is NOT proved - a Gallina model is total by '
    'construction; it is established by exploration only (direct evaluator over stdlib/repo files, typing-state mutations, '
    'generated programs, every call under a CPU-time alarm). The Coq theorems carry termination and result shape.',
    'the graphs on which the termination theorems are used satisfy typed / flows_wf: evaluated inside Coq on every dumped graph of this run, not proved for all programs',
    'RuntimeName introspection of live objects (vars/dir, instantiating builtin classes) is outside the model (NConst)',
    'attribute assignments (self.x = v -> MultiValue), decorators and dotted imports (AdditionalNameWrapper) are outside the model of evaluate; they are covered by exploration only',
    'the parse result (ast.parse of CPython 3.12) is an input of the lint model',
    'a time-out is the proxy for non-termination: 40 s of CPU time per call',
]
EXPLANATION = ('proof for termination and result shape (Coq, closed under the global context) + vm_compute correspondence on dumped object '
               'graphs; partial - exception freedom is exploration (direct evaluator), not proof')

HERE = os.path.dirname(os.path.abspath(__file__))
CORPUS = os.path.join(os.path.dirname(os.path.dirname(HERE)), 'corpus', 'C08')


class _Deadline(object):
    """with _Deadline(seconds): ... raises CallTimeout in the main thread after that much CPU time."""
    def __init__(self, seconds):
        self.seconds = seconds

    def __enter__(self):
        signal.signal(signal.SIGPROF, _on_alarm)
        signal.setitimer(signal.ITIMER_PROF, self.seconds)

    def __exit__(self, *a):
        signal.setitimer(signal.ITIMER_PROF, 0)
        return False


INPROC_CPU_LIMIT = 20.0


def _run_chunks(ctx, jobs, chunk, wall):
    """Run jobs in worker subprocesses (16 at a time). Returns list of per-chunk results."""
    import subprocess
    from concurrent.futures import ThreadPoolExecutor
    from common import REPO, PY, NCPU
    chunks = jobs if chunk is None else [jobs[i:i + chunk] for i in range(0, len(jobs), chunk)]
    outdir = os.path.join(ctx.scratch, 'explore')
    os.makedirs(outdir, exist_ok=True)
    base = getattr(ctx, '_c08_chunk', 0)
    ctx._c08_chunk = base + len(chunks)

    def one(ic):
        i, c = ic
        jp = os.path.join(outdir, 'j%d.json' % (base + i))
        op = os.path.join(outdir, 'o%d.json' % (base + i))
        with open(jp, 'w') as f:
            json.dump(c, f)
        env = dict(os.environ, SUPP_REPO=REPO, PYTHONHASHSEED='0', SUPP_VERIF='1', C08_SHARED=os.path.join(outdir, 'timeouts'))
        env.pop('PYTHONPATH', None)
        try:
            p = subprocess.run([PY, os.path.join(HERE, 'c08.py'), '--worker', jp, op], env=env,
                               stdout=subprocess.PIPE, stderr=subprocess.PIPE, text=True, timeout=wall)
            rc, err = p.returncode, p.stderr
        except subprocess.TimeoutExpired:
            rc, err = -9, 'wall-clock limit of %d s for the chunk exceeded' % wall
        if rc != 0 or not os.path.exists(op):
            k = 0
            try:
                k = int(open(op + '.progress').read())
            except Exception:
                pass
            return {'dead': True, 'job': c[min(k, len(c) - 1)], 'why': err[-1500:], 'rc': rc}
        with open(op) as f:
            return json.load(f)

    with ThreadPoolExecutor(max_workers=NCPU) as ex:
        return list(ex.map(one, enumerate(chunks)))


def _merge(ctx, results, fails, counts):
    for r in results:
        if r.get('dead'):
            sig = ['WorkerDied', 'rc=%s' % r.get('rc'), 0, '']
            key = json.dumps(sig)
            counts[key] = counts.get(key, 0) + 1
            fails.setdefault(key, {'sig': sig, 'size': 0, 'case': {'kind': 'job', 'job': r['job']},
                                   'detail': 'worker process died or hung: ' + (r.get('why') or '')[-400:]})
            continue
        ctx.coverage['evaluations'] += r['calls']
        ctx.coverage['distinct_nontrivial'] += r['nontrivial']
        for hn, hv in r['hist'].items():
            for k, v in hv.items():
                ctx.histogram(hn, k, v)
        for k, v in r['fail_counts'].items():
            counts[k] = counts.get(k, 0) + v
        for f in r['failures']:
            k = json.dumps(f['sig'])
            if k not in fails or f['size'] < fails[k]['size']:
                fails[k] = f


def _special_jobs():
    jobs = []
    for tag, src in SPECIAL_CASES:
        s, pos = cursor_case(src) if '|' in src else (src, [1, 0])
        for k, files in enumerate(CYCLE_FILES):
            for fn in ('main.py', 'pkg/main.py'):
                jobs.append({'kind': 'text', 'source': s, 'files': files, 'positions': [pos], 'tag': tag, 'filename': fn})
            if k < 2 or k in (5, 6):
                # unsaved buffer: filename=None
                jobs.append({'kind': 'text', 'source': s, 'files': files, 'positions': [pos], 'tag': tag + ':unsaved', 'filename': None})
    return jobs


def _corpus_jobs():
    regress, known = [], []
    if os.path.isdir(CORPUS):
        for fn in sorted(os.listdir(CORPUS)):
            if not fn.endswith('.json'):
                continue
            obj = json.load(open(os.path.join(CORPUS, fn)))
            for c in obj.get('cases', [obj]):
                job = {'kind': 'text', 'source': c['source'], 'files': c.get('files') or {}, 'filename': c.get('filename', 'main.py'),
                       'nofile': c.get('nofile', False),
                       'positions': c.get('positions', 'all'), 'tag': 'corpus:' + fn[:-5], 'apis': c.get('apis'), 'lint': c.get('lint', True),
                       'cpu_limit': c.get('cpu_limit')}
                if fn.startswith('known_'):
                    known.append((obj.get('id', fn[6:-5]), obj.get('what', ''), job))
                else:
                    regress.append(job)
    return regress, known


def _shape_cases(ctx, samples):
    """Shape-level correspondence: lint codes vs the lint model given CPython's parse result;
    location output vs format_fixed given the list declarations() returned."""
    from supp.project import Project
    from supp.linter import lint
    from supp import assistant, evaluator
    lint_terms, loc_terms, keep = [], [], []
    root = os.path.join(ctx.scratch, 'shape')
    os.makedirs(root, exist_ok=True)
    recorded = []
    orig = evaluator.EvalCtx.declarations

    codes = {'E01': 0, 'E02': 1, 'E42': 2, 'W01': 3, 'W02': 4}
    files_ids = {}

    def fid(f):
        return 'None' if f is None else '(Some %d)' % files_ids.setdefault(f, len(files_ids))

    def has_loc(n):
        return hasattr(n, 'declared_at')

    slow = 0
    for k, (text, pos, files) in enumerate(samples):
        if slow >= 3:
            ctx.notes.append('shape level stopped after 3 time-outs')
            break
        d = os.path.join(root, 'p%d' % k)
        os.makedirs(d, exist_ok=True)
        for name, content in files.items():
            p = os.path.join(d, name)
            os.makedirs(os.path.dirname(p), exist_ok=True)
            open(p, 'w').write(content)
        fn = os.path.join(d, 'main.py')
        project = Project([d])
        pinfo = parse_info(text, fn)
        if pinfo[0] != 'other':
            try:
                with _Deadline(INPROC_CPU_LIMIT):
                    res = lint(project, text, fn)
                cs = [codes.get(t[0], 9) for t in res]
                if len(cs) <= 60:
                    lint_terms.append('(%s, [%s])' % ('true' if pinfo[0] == 'syntax' else 'false', '; '.join(str(c) for c in cs)))
                    keep.append(('lint', text, None))
            except CallTimeout:
                slow += 1
                continue
            except Exception:
                pass      # crashes (and time-outs) are the business of the exploration
        if pos is None:
            continue
        if parse_info(marked_text(text, pos), fn)[0] != 'ok':
            continue
        del recorded[:]
        # declarations is recursive: record only the outermost call of each location()
        state = {'depth': 0}

        def rec2(self, node, result=None, _o=orig):
            state['depth'] += 1
            try:
                res = _o(self, node, result if result is not None else [])
            finally:
                state['depth'] -= 1
            if state['depth'] == 0:
                recorded.append(list(res))
            return res
        evaluator.EvalCtx.declarations = rec2
        try:
            try:
                with _Deadline(INPROC_CPU_LIMIT):
                    out = assistant.location(project, text, tuple(pos), fn)
            except CallTimeout:
                slow += 1
                continue
            except Exception:
                continue
        finally:
            evaluator.EvalCtx.declarations = orig
        if len(recorded) != 1:
            if recorded:
                continue
            entries = []
        else:
            entries = recorded[0]
        shifted = [0]
        try:
            ets = []
            for r in entries:
                def obj(n):
                    if has_loc(n):
                        l, c = n.declared_at
                        shifted[0] += int(n.filename == (fn or '<string>') and l == pos[0] and c > pos[1])
                        return 'Located (%d)%%Z (%d)%%Z %s %s' % (l, c, fid(n.filename), 'true' if n.filename == (fn or '<string>') else 'false')
                    return 'Unlocated'
                if isinstance(r, list):
                    ets.append('EAlts [%s]' % '; '.join(obj(n) for n in r))
                else:
                    ets.append('EOne (%s)' % obj(r))
            outs = []
            for o in out:
                if isinstance(o, list):
                    outs.append('LAlts [%s]' % '; '.join('((%d)%%Z, (%d)%%Z, %s)' % (x['loc'][0], x['loc'][1], fid(x['file'])) for x in o))
                else:
                    outs.append('LOne (%d)%%Z (%d)%%Z %s' % (o['loc'][0], o['loc'][1], fid(o['file'])))
            loc_terms.append('(((%d)%%Z, (%d)%%Z), [%s], Some [%s])' % (pos[0], pos[1], '; '.join(ets), '; '.join(outs)))
        except Exception as e:
            loc_terms.append('((0%Z, 0%Z), [], None)')
        keep.append(('location', text, pos))
        ctx.histogram('shape_location', 'entries=%d unlocated=%d mark-shifted=%d' % (
            min(len(entries), 3), sum(1 for r in entries if not isinstance(r, list) and not has_loc(r)), min(shifted[0], 1)))
    return lint_terms, loc_terms


def run(ctx):
    from common import stdlib_files, REPO
    import logging
    logging.disable(logging.CRITICAL)
    cov = ctx.coverage
    cov['rule'] = (
        'exploration (direct evaluator): every lint/assist/location call of the real code on (a) stdlib+repo files with sampled cursor '
        'positions (identifier ends, after dots, import lines, random, end of file), (b) typing-state mutations of them (line truncated at the '
        'cursor, trailing dot, deleted line, truncated file, return/yield/break/... moved to module or class level, half-typed import), '
        '(c3) control statements (break/continue/return/yield/await/nonlocal/...) below random chains of loops, defs, classes, with, try parts, match (typing states ast.parse accepts although the compiler rejects them: inside the stated domain), '
        '(c2) programs of 3-6 nested for/while loops whose bodies branch (if/else, elif, try, with, comprehension), deadline 10 s of CPU per call (the unmodified tree needs < 0.3 s), '
        '(c) generated programs with sibling modules (import / star-import / inheritance cycles, packages; lambdas in class bodies), every position, '
        'a third of them and a sample of positions of every file also as an unsaved buffer (filename=None, worker cwd inside a package), (d) cursor on '
        'builtins, compiled modules, unknown and half-typed module names x 5 cyclic projects x 2 file locations; oracle = statement of C08; '
        'evaluations = API calls; non-trivial = distinct (api, text, position) whose answer is not empty (proposals, locations, diagnostics or E01). '
        '(I): generated projects in the modelled fragment, object graph dumped, Model.Eval evaluated on it inside Coq; non-trivial = the '
        'query evaluates to a value (not None). Exception freedom is exploration, termination and shape are proof.')
    cov['exception_freedom'] = 'exploration only (not proved)'
    proof_ok = ctx.coq_props()
    ctx.log('proofs %s' % ('ok' if proof_ok else 'NOT discharged'))

    fails, counts = {}, {}

    # ---- corpus first: regression cases and committed inputs of open findings -------------------
    regress, known = _corpus_jobs()
    known_sigs = {}
    if known:
        for (fid, what, job), r in zip(known, _run_chunks(ctx, [k[2] for k in known], 1, 600)):
            f2, c2 = {}, {}
            _merge(ctx, [r], f2, c2)
            if f2:
                for key in f2:
                    known_sigs[key] = (fid, what)
                ctx.known_finding(fid, '%s (committed input corpus/C08/known_%s.json still fails: %s)' % (
                    what, fid, '; '.join(json.loads(k)[0] + ' at ' + str(json.loads(k)[1]) + ':' + str(json.loads(k)[2]) for k in f2)))
            else:
                ctx.notes.append('open finding %s: the committed input no longer fails (fixed?)' % fid)
    jobs = regress + _special_jobs()
    ctx.log('corpus: %d regression cases, %d open findings; %d special cursor cases' % (len(regress), len(known), len(jobs) - len(regress)))

    # ---- (I) correspondence on dumped graphs ------------------------------------------------------
    t0 = time.time()
    ncases = ctx.pick(250, 3000)
    cases, fcases, meta = [], [], []
    unsupported = 0
    i_timeouts = 0
    iroot = os.path.join(ctx.scratch, 'icases')
    private_ok = True
    for i in range(ncases):
        g = IGen(ctx.rng)
        files, src, nq = g.project()
        root = os.path.join(iroot, 'p%d' % i)
        os.makedirs(root)
        if i_timeouts >= 3:
            ctx.notes.append('(I) stopped after 3 time-outs of the real engines')
            break
        try:
            with _Deadline(INPROC_CPU_LIMIT):
                gt, qs, crashes, fl, nn = analyse_project(root, files, src, nq)
        except CallTimeout:
            i_timeouts += 1
            key = json.dumps(['Timeout', 'evaluate/declarations', 0, 'I'])
            counts[key] = counts.get(key, 0) + 1
            if key not in fails or len(src) < fails[key]['size']:
                fails[key] = {'sig': json.loads(key), 'size': len(src),
                              'detail': 'analysing the project / EvalCtx.evaluate / declarations of a query did not answer within %.0f s of CPU time' % INPROC_CPU_LIMIT,
                              'case': {'kind': 'text', 'source': src, 'files': files, 'filename': 'main.py', 'tag': 'I', 'api': 'assist', 'pos': None}}
            continue
        except Unsupported as e:
            unsupported += 1
            ctx.histogram('I_unsupported', str(e)[:60])
            continue
        except (RecursionError, KeyError, TypeError, ValueError, IndexError, ImportError) as e:
            # the real code failed while the project was analysed / walked: a crash with a concrete input
            key = json.dumps(['EngineCrash', 'analyse', 0, type(e).__name__])
            counts[key] = counts.get(key, 0) + 1
            if key not in fails or len(src) < fails[key]['size']:
                fails[key] = {'sig': json.loads(key), 'size': len(src), 'detail': 'analysing the project raised %s: %s' % (type(e).__name__, str(e)[:200]),
                              'case': {'kind': 'text', 'source': src, 'files': files, 'filename': 'main.py', 'tag': 'I', 'api': 'lint', 'pos': None}}
            continue
        except AttributeError as e:
            # a private attribute the dumper reads is gone: fail closed, API-level exploration still runs
            private_ok = False
            ctx.notes.append('graph dumper cannot read supp internals (%s): (I) not evaluated' % e)
            break
        for kind, q, what in crashes:
            key = json.dumps(['EngineCrash', kind, 0, what.split(':')[0]])
            counts[key] = counts.get(key, 0) + 1
            if key not in fails or len(src) < fails[key]['size']:
                fails[key] = {'sig': json.loads(key), 'size': len(src), 'detail': 'EvalCtx.%s(%s) raised %s' % (kind, q, what),
                              'case': {'kind': 'text', 'source': src, 'files': files, 'filename': 'main.py', 'tag': 'I', 'api': kind, 'pos': None}}
        cases.append('(%s, [%s])' % (gt, '; '.join(qs)))
        fcases.append('(%s, %s)' % (fl[0], fl[1]))
        meta.append({'files': files, 'source': src, 'queries': nq, 'nodes': nn, 'flows': fl[2], 'loops': fl[3]})
        ctx.histogram('I_graph_nodes', '%d-%d' % (nn // 20 * 20, nn // 20 * 20 + 19))
        ctx.histogram('I_modules', len(files))
        ctx.histogram('I_loops', min(fl[3], 5))
    # flow graphs of real files as well
    real_flow_cases, real_flow_meta = [], []
    from supp.util import Source
    from supp.scope import SourceScope
    from supp.nast import extract
    for fn in stdlib_files(limit=ctx.pick(25, 300), rng=random.Random('%s/flows' % ctx.seed)):
        try:
            text = open(fn, encoding='utf8').read()
            if len(text) > 60000:
                continue
            with _Deadline(INPROC_CPU_LIMIT):
                source = Source(text, fn)
                sc = SourceScope(source)
                extract(source.tree, sc.flow)
                fg, depths, nflows, nloops = dump_flows(sc)
        except CallTimeout:
            ctx.notes.append('flow graph of %s not dumped: time-out' % fn)
            continue
        except (SyntaxError, UnicodeDecodeError, ValueError, RecursionError, KeyError, TypeError):
            continue
        except AttributeError as e:
            ctx.notes.append('flow dumper cannot read supp internals (%s)' % e)
            break
        if nflows > 400:
            continue
        real_flow_cases.append('(%s, %s)' % (fg, depths))
        real_flow_meta.append(fn)
        ctx.histogram('I_real_flow_graph_flows', '%d-%d' % (nflows // 100 * 100, nflows // 100 * 100 + 99))
    if cases:
        bad = ctx.run_cases(['Model.Eval'], I_PRELUDE, 'check_case', cases, shard=120)
        small = [i for i, m in enumerate(meta) if m['flows'] <= 30]
        badf = [small[i] for i in ctx.run_cases(['Model.Eval'], I_PRELUDE, 'flow_case', [fcases[i] for i in small], shard=40)]
        badf += ctx.run_cases(['Model.Eval'], I_PRELUDE, 'flow_wf_case', fcases + real_flow_cases, shard=60)
        cov['correspondence_flow_graphs_names_evaluated'] = len(small)
        tags = ctx.coq_eval_many([(['Model.Eval'], I_PRELUDE, ['flat_map branch_tag [%s]' % '; '.join(cases[o:o + 120])])
                                  for o in range(0, len(cases), 120)])
        names = ['None', 'ClassObject', 'InstanceValue', 'FuncObject', 'module', 'RuntimeName', 'CompositeValue', 'Err', 'OutOfFuel']
        nq = 0
        for t in tags:
            for x in t[0]:
                ctx.histogram('I_model_branch', names[x])
                nq += 1
        for i, m in enumerate(meta):
            ctx.count(('I', m['source'], json.dumps(m['files'], sort_keys=True)), nontrivial=True, n=m['queries'])
        cov['correspondence_cases'] = len(cases)
        cov['correspondence_queries'] = nq
        cov['correspondence_flow_graphs'] = len(fcases) + len(real_flow_cases)
        cov['correspondence_disagreements'] = len(bad) + len(badf)
        cov['correspondence_unsupported'] = unsupported
        for m in meta[:3]:
            ctx.sample({'kind': 'I', 'source': m['source'], 'files': m['files'], 'graph_nodes': m['nodes']})
        if bad:
            why = ctx.coq_eval(['Model.Eval'], I_PRELUDE, ['why_case (%s)' % cases[i] for i in bad[:8]])
            for i, w in zip(bad[:8], why):
                m = meta[i]
                crashed = 'OCrash' in cases[i] or 'DCrash' in cases[i]
                ctx.violation('model Model.Eval and the real engines disagree on a generated project (why=%r: 1 typed, 2 evaluate n, 3 declarations n)%s'
                              % (w, '; the real engine raised' if crashed else ''),
                              {'kind': 'I', 'theorem': 'correspondence Model.Eval.eval/decl vs EvalCtx.evaluate/declarations', 'source': m['source'],
                               'files': m['files'], 'queries': m['queries'], 'why': w, 'case_term': cases[i][:4000]}, found_input=crashed)
        for i in badf[:5]:
            if i < len(fcases):
                m = meta[i]
                rep = {'kind': 'flows', 'source': m['source'], 'files': m['files']}
            else:
                rep = {'kind': 'flows', 'file': real_flow_meta[i - len(fcases)]}
            ctx.violation('flow graph built by nast.py is not well-levelled or Model.Eval.names runs out of fuel on it: hypothesis of C08_names_total fails',
                          dict(rep, theorem='C08_names_total / flows_wf'), found_input=False)
    ctx.log('(I): %d projects, %d flow graphs, %.1fs' % (len(cases), len(fcases) + len(real_flow_cases), time.time() - t0))

    # ---- shape level ---------------------------------------------------------------------------------
    t0 = time.time()
    samples = []
    for tag, src in SPECIAL_CASES:
        s, pos = cursor_case(src) if '|' in src else (src, None)
        samples.append((s, pos, CYCLE_FILES[0]))
    pg_rng = random.Random('%s/shape' % ctx.seed)
    for i in range(ctx.pick(120, 1200)):
        src = ProgGen(pg_rng).module()
        lines = editor_lines(src)
        poss = interesting_positions(lines, pg_rng, 2)
        samples.append((src, list(poss[0]), CYCLE_FILES[i % len(CYCLE_FILES)]))
    try:
        sys.setrecursionlimit(max(sys.getrecursionlimit(), 3000))
        lint_terms, loc_terms = _shape_cases(ctx, samples)
        bl = ctx.run_cases(['Model.Eval'], I_PRELUDE, 'lint_case', lint_terms, shard=400) if lint_terms else []
        bo = ctx.run_cases(['Model.Eval'], I_PRELUDE, 'loc_case', loc_terms, shard=400) if loc_terms else []
        cov['shape_cases'] = {'lint': len(lint_terms), 'location': len(loc_terms), 'disagreements': len(bl) + len(bo)}
        for i in bl[:3]:
            ctx.violation('lint codes disagree with Model.Eval.lint: ' + lint_terms[i][:200], {'kind': 'shape-lint', 'term': lint_terms[i],
                          'theorem': 'C08_lint_E01_iff correspondence'}, found_input=False)
        for i in bo[:3]:
            ctx.violation('location output disagrees with Model.Eval.format_fixed: ' + loc_terms[i][:300], {'kind': 'shape-location', 'term': loc_terms[i],
                          'theorem': 'C08_location_shape correspondence'}, found_input=False)
    except (AttributeError, RecursionError) as e:
        ctx.notes.append('shape level not evaluated (%s: %s)' % (type(e).__name__, e))
    ctx.log('shape: %.1fs' % (time.time() - t0))

    # ---- exploration ---------------------------------------------------------------------------------------
    t0 = time.time()
    erng = random.Random('%s/explore' % ctx.seed)
    nfiles = ctx.pick(100, 100000)
    files = stdlib_files(limit=nfiles, rng=erng)
    npos, nmut, extra = ctx.pick((12, 8, 0), (45, 36, 2))
    for f in files:
        jobs.append({'kind': 'file', 'path': f, 'seed': '%s/%s' % (ctx.seed, os.path.basename(f)), 'npos': npos, 'nmut': nmut, 'extra_pos': extra,
                     'nofile': ctx.pick(3, 8)})
    nprog = ctx.pick(240, 9000)
    for i in range(nprog):
        src = ProgGen(erng).module()
        jobs.append({'kind': 'text', 'source': src, 'files': gen_project_files(erng), 'positions': 'all' if len(src) < 350 else 50,
                     'seed': i, 'tag': 'gen', 'filename': erng.choice(['main.py', 'main.py', 'pkg/main.py']), 'nofile': i % 3 == 0})
    nl_jobs = nested_loop_jobs(erng, ctx.pick(16, 200))
    jobs += escape_jobs(erng, ctx.pick(150, 3000))
    # big files first (long pole), then the rest interleaved
    def weight(j):
        if j['kind'] == 'file':
            try:
                return -os.path.getsize(j['path'])
            except OSError:
                return 0
        return -len(j['source']) * 20
    file_jobs = sorted([j for j in jobs if j['kind'] == 'file'], key=weight)
    text_jobs = [j for j in jobs if j['kind'] != 'file']
    chunks = [[j] for j in file_jobs[:len(file_jobs) // 3]]
    rest = file_jobs[len(file_jobs) // 3:]
    chunks += [rest[i:i + 3] for i in range(0, len(rest), 3)]
    chunks += [text_jobs[i:i + 30] for i in range(0, len(text_jobs), 30)]
    # one nested-loop program per chunk: on a tree where they are slow every one of them costs two deadlines
    chunks = [[j] for j in nl_jobs[:32]] + chunks + [nl_jobs[i:i + 8] for i in range(32, len(nl_jobs), 8)]
    res = _run_chunks(ctx, chunks, None, ctx.pick(600, 2400))
    _merge(ctx, res, fails, counts)
    cov['exploration'] = {'files': len(file_jobs), 'generated_programs': nprog, 'nested_loop_programs': len(nl_jobs),
                          'nested_loop_cpu_limit_s': NESTED_LOOP_CPU_LIMIT, 'special_cursor_cases': len(_special_jobs()),
                          'positions_per_file': npos, 'mutations_per_file': nmut, 'distinct_failure_signatures': len(fails),
                          'cpu_limit_per_call_s': CALL_CPU_LIMIT}
    ctx.log('exploration: %d calls, %d distinct failure signatures, %.1fs' % (cov['evaluations'], len(fails), time.time() - t0))

    # ---- report: one line per distinct signature ----------------------------------------------------------------
    for key in sorted(fails, key=lambda k: (-counts.get(k, 0), k)):
        f = fails[key]
        if key in known_sigs:
            ctx.histogram('known_finding_hits', known_sigs[key][0], counts.get(key, 1))
            continue
        sig = f['sig']
        ctx.violation('%s at %s:%s (%s) on %d inputs; smallest: api=%s pos=%s; %s' % (
            sig[0], sig[1], sig[2], sig[3], counts.get(key, 1), f['case'].get('api'), f['case'].get('pos'), f['detail']),
            {'kind': 'explore', 'signature': sig, 'count': counts.get(key, 1), 'detail': f['detail'], 'case': f['case']}, found_input=True)
    if not proof_ok:
        ctx.violation('proof obligations of Props/C08.v not discharged: %s' % (ctx.notes,),
                      {'kind': 'proof', 'theorem': 'Props/C08.v', 'notes': ctx.notes, 'build_error': cov.get('build_error')}, found_input=False)


def replay(ctx, obj):
    import logging
    logging.disable(logging.CRITICAL)
    from common import REPO
    r = obj['replay']
    kind = r.get('kind')
    if kind == 'explore':
        case = r['case']
        if case.get('kind') == 'job':
            job = case['job']
        elif case.get('kind') == 'file' and not case.get('source'):
            job = {'kind': 'file', 'path': case['path'], 'seed': case['seed'], 'npos': case.get('npos', 12), 'nmut': case.get('nmut', 8),
                   'extra_pos': case.get('extra_pos', 0)}
        else:
            job = {'kind': 'text', 'source': case['source'], 'files': case.get('files') or {},
                   'filename': (None if case.get('unsaved') else case['path']) if case.get('kind') == 'file' else case.get('filename', 'main.py'),
                   'positions': [case['pos']] if case.get('pos') else [], 'apis': [case['api']] if case.get('api') in ('assist', 'location') else None,
                   'lint': case.get('api') == 'lint' or not case.get('pos')}
        res = run_jobs([job], REPO)
        for f in res['failures']:
            print('FAIL', f['sig'], f['detail'][:300])
        print('calls', res['calls'], 'failures', len(res['failures']))
        return 1 if res['failures'] else 0
    if kind in ('I', 'flows') and r.get('source') is not None:
        root = os.path.join(ctx.scratch, 'replay')
        os.makedirs(root)
        gt, qs, crashes, fl, nn = analyse_project(root, r['files'], r['source'], r.get('queries', 1))
        print('crashes', crashes)
        bad = ctx.run_cases(['Model.Eval'], I_PRELUDE, 'check_case', ['(%s, [%s])' % (gt, '; '.join(qs))])
        badf = ctx.run_cases(['Model.Eval'], I_PRELUDE, 'flow_case', ['(%s, %s)' % (fl[0], fl[1])])
        print('disagreeing', bad, badf)
        return 1 if (bad or badf or crashes) else 0
    print(obj.get('what'))
    return 1


if __name__ == '__main__':
    if len(sys.argv) >= 4 and sys.argv[1] == '--worker':
        worker_main(sys.argv[2:])
