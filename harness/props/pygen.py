"""Generator of scope bodies for C01-C03: one tree, three renderings.

  tree  -> cmd term of coq/Model/PyCore.v      (to_coq)
        -> plain Python for supp               (render(..., instrumented=False)) with the
           (line, col) of every read / binding site recorded
        -> instrumented Python for CPython     (render(..., instrumented=True)): every decision
           point asks the oracle, every binding binds a tagged object, every read is logged.

Tree nodes (tuples):
  ('expr', reads)                         g(a, b)
  ('assign', reads, binds, form)          forms: plain ann annp walrus tuple tuplesub chain chainsub star import from def
                                          decodef (two decorators) lambdadef (reads in a lambda default) class
  ('with', reads, binds, body[, (reads2, binds2)])      second item of the same with statement
  ('comp', iter_reads, cond_reads|None, elt_reads, binds, form, body)
                                          x = [g(elt) for _ in it(iter) if c(cond)]; forms: plain ann walrus with
                                          (function and module scope only: in a class body the element is
                                          evaluated in a scope that does not see the class names)
  ('if', reads, body, orelse)
  ('while', reads, body, orelse)
  ('for', reads, binds, body, orelse[, tsub_reads])   tsub_reads: reads inside a trailing subscript target
  ('try', body, handlers, orelse, final, rf, rl)   handlers: [(reads, bind|None, body)]
  ('return',)
  ('pass',)
reads = [(site, name)], binds = [(site, name)], body = [node].
"""
import re

POOL = ['a', 'b', 'x', 'y', 'z', 'w']
IMPORT_MODS = ['os', 'sys', 're', 'json', 'math', 'time', 'random', 'string', 'struct', 'types', 'copy',
               'heapq', 'bisect', 'array', 'queue', 'enum', 'abc', 'io', 'stat', 'glob', 'shutil', 'pickle',
               'csv', 'zlib', 'gzip', 'hashlib', 'hmac', 'secrets', 'logging', 'getopt', 'errno', 'ctypes',
               'select', 'socket', 'signal', 'mmap', 'codecs', 'locale', 'gettext', 'calendar', 'pprint',
               'reprlib', 'numbers', 'cmath', 'decimal', 'fractions', 'statistics', 'itertools', 'functools',
               'operator', 'pathlib', 'fnmatch', 'linecache', 'tempfile', 'textwrap', 'difflib', 'uuid']


DOTTED = [('os', 'os.path'), ('xml', 'xml.dom'), ('json', 'json.decoder'), ('email', 'email.utils'),
          ('logging', 'logging.config'), ('urllib', 'urllib.parse'), ('importlib', 'importlib.util'),
          ('concurrent', 'concurrent.futures'), ('http', 'http.client'), ('unittest', 'unittest.mock'),
          ('collections', 'collections.abc'), ('multiprocessing', 'multiprocessing.pool')]


class Gen(object):
    def __init__(self, rng, allow_return=True, allow_try=True, full_raise=False, max_depth=3,
                 max_stmts=10, multi_handlers=True, names=None, exits=False, comps=True, loop_exits_only=False, comp_self=True):
        self.rng = rng
        self.site = 0
        self.allow_return = allow_return
        self.allow_try = allow_try
        self.full_raise = full_raise
        self.max_depth = max_depth
        self.max_stmts = max_stmts
        self.multi_handlers = multi_handlers
        self.names = names or POOL
        self.hname = 0
        self.budget = max_stmts
        self.mods = list(IMPORT_MODS)
        rng.shuffle(self.mods)
        self.dotted = list(DOTTED)
        rng.shuffle(self.dotted)
        self.pending = []           # statements to emit right after the current one
        self.exits = exits          # C01: break / continue / raise anywhere
        self.loop_depth = 0
        self.comps = comps          # comprehension values (F59)
        self.comp_self = comp_self  # may a comprehension element read the name its statement binds (outside C02/C03's domain)
        self.loop_exits_only = loop_exits_only   # C02X: return/break/continue, none under try-finally, no free raise

    def new(self):
        self.site += 1
        return self.site

    def reads(self, lo=0, hi=2):
        return [(self.new(), self.rng.choice(self.names)) for _ in range(self.rng.randint(lo, hi))]

    def bind(self):
        return (self.new(), self.rng.choice(self.names))

    def body(self, depth, in_finally=False, no_ret=False, lo=1, hi=3):
        n = self.rng.randint(lo, hi)
        out = []
        for _ in range(n):
            if self.budget <= 0 and out:
                break
            st = self.stmt(depth, in_finally, no_ret)
            out.append(st)
            while self.pending:
                out.append(self.pending.pop(0))
            if st[0] in ('return', 'break', 'continue', 'raise'):
                break
        return out or [('pass',)]

    def program(self, lo=3, hi=6, prologue=0.7):
        """a scope body: a prologue binding most names (so that runs rarely die on the first
        read) followed by random statements"""
        pro = []
        for x in self.names:
            if self.rng.random() < prologue:
                pro.append(('assign', [], [(self.new(), x)], 'plain'))
        return pro + self.body(0, lo=lo, hi=hi)

    def stmt(self, depth, in_finally=False, no_ret=False):
        self.budget -= 1
        r = self.rng.random()
        simple = depth >= self.max_depth or self.budget <= 0
        if simple or r < 0.45:
            k = self.rng.random()
            if k < 0.25:
                return ('expr', self.reads(1, 2))
            if k < 0.30 and self.allow_return and not no_ret and not in_finally:
                return ('return',)
            if self.exits and k < 0.42 and not (self.loop_exits_only and (no_ret or in_finally)):
                opts = [] if self.loop_exits_only else [('raise', self.rng.randrange(3))]
                if self.loop_depth > 0:
                    opts += [('break',), ('continue',), ('break',), ('continue',)]
                if self.allow_return:
                    opts.append(('return',))
                if opts:
                    return self.rng.choice(opts)
            forms = ['plain'] * 6 + ['ann', 'walrus', 'tuple', 'chain', 'star', 'def', 'class',
                                     'annp', 'tuplesub', 'chainsub', 'lambdadef', 'decodef']
            if self.mods:
                forms += ['import', 'from']
            if self.dotted:
                forms += ['dotted']
            if self.comps:
                forms += ['comp', 'comp']
            form = self.rng.choice(forms)
            if form == 'comp':
                # the target is usually one of the names the element reads (F59)
                it = self.reads(0, 1)
                cond = self.reads(1, 1) if self.rng.random() < 0.3 else None
                elt = self.reads(1, 2)
                b = self.bind()
                if self.comp_self:
                    if self.rng.random() < 0.6:
                        b = (b[0], self.rng.choice(elt + (cond or []))[1])
                else:
                    inner = set(x for _, x in elt + (cond or []))
                    free = [x for x in self.names if x not in inner]
                    if not free:
                        return ('assign', it, [b], 'plain')
                    if b[1] in inner:
                        b = (b[0], self.rng.choice(free))
                cf = self.rng.choice(['plain', 'plain', 'ann', 'walrus', 'with'])
                body = self.body(depth + 1, in_finally, no_ret, 1, 2) if cf == 'with' else []
                return ('comp', it, cond, elt, [b], cf, body)
            if form == 'dotted':
                # `import pkg.mod` binds pkg; usually read right afterwards
                pkg, mod = self.dotted.pop()
                d = self.new()
                if self.rng.random() < 0.75:
                    self.pending.append(('expr', [(self.new(), pkg)]))
                return ('assign', [], [(d, pkg)], 'dotted:' + mod)
            rd = self.reads(0, 2)
            if form == 'decodef' and not rd:
                rd = self.reads(1, 2)
            if form in ('tuple', 'chain', 'star', 'tuplesub'):
                b1, b2 = self.bind(), self.bind()
                # mostly two different names; sometimes the SAME name twice (`a, a = p, q`, `a = a = v`: the last wins)
                while b2[1] == b1[1] and (form in ('star', 'tuplesub') or self.rng.random() < 0.8):
                    b2 = (b2[0], self.rng.choice(self.names))
                if form == 'tuplesub':
                    # x, g.s[<read>], y = ...: the subscript is evaluated after x is bound and before y is;
                    # sometimes the container is the name just bound: x, x[0], y = ...
                    if self.rng.random() < 0.3:
                        return ('assign', rd, [b1, b2], form, [], (self.new(), b1[1]))
                    sub = [(self.new(), b1[1] if self.rng.random() < 0.6 else self.rng.choice(self.names))]
                    return ('assign', rd, [b1, b2], form, sub)
                return ('assign', rd, [b1, b2], form)
            if form in ('import', 'from'):
                return ('assign', [], [self.bind()], form + ':' + self.mods.pop())
            if form == 'chainsub':
                # x = g.s[<read>] = value: the target lists are assigned left to right
                b = self.bind()
                return ('assign', rd, [b], form, [(self.new(), b[1] if self.rng.random() < 0.6 else self.rng.choice(self.names))])
            return ('assign', rd, [self.bind()], form)
        if r < 0.58:
            trd = self.reads(0, 2)
            tb = [self.bind()] if self.rng.random() < 0.2 else []
            tcomp = self.reads(1, 1) if (self.comps and self.rng.random() < 0.15) else []
            node = ('if', trd, self.body(depth + 1, in_finally, no_ret),
                    self.body(depth + 1, in_finally, no_ret) if self.rng.random() < 0.7 else [('pass',)], tb)
            # a comprehension inside the test, evaluated before the test's walrus
            return node + (tcomp,) if tcomp else node
        if r < 0.68:
            rd = self.reads(0, 2)
            self.loop_depth += 1
            b = self.body(depth + 1, in_finally, no_ret)
            self.loop_depth -= 1
            return ('while', rd, b,
                    self.body(depth + 1, in_finally, no_ret, 1, 2) if self.rng.random() < 0.4 else [('pass',)],
                    [self.bind()] if self.rng.random() < 0.3 else [])
        if r < 0.80:
            nb = self.rng.choice([1, 1, 1, 2])
            bs = []
            for _ in range(nb):
                b = self.bind()
                while any(b[1] == o[1] for o in bs):
                    b = (b[0], self.rng.choice(self.names))
                bs.append(b)
            rd = self.reads(0, 1)
            self.loop_depth += 1
            b = self.body(depth + 1, in_finally, no_ret)
            self.loop_depth -= 1
            orelse = self.body(depth + 1, in_finally, no_ret, 1, 2) if self.rng.random() < 0.4 else [('pass',)]
            tsub = []
            if self.rng.random() < 0.25:
                # `for x, g.s[y] in ...`: the subscript is evaluated on every trip after x is bound
                tsub = [(self.new(), self.rng.choice([o[1] for o in bs] + list(self.names)))]
            return ('for', rd, bs, b, orelse, tsub)
        if r < 0.86:
            rd1, b1 = self.reads(0, 1), self.bind()
            if self.rng.random() < 0.35:
                # a second item that usually reads the name bound by the first
                rd2 = [(self.new(), b1[1])] if self.rng.random() < 0.7 else self.reads(0, 1)
                b2 = self.bind()
                return ('with', rd1, [b1], self.body(depth + 1, in_finally, no_ret), (rd2, [b2]))
            return ('with', rd1, [b1], self.body(depth + 1, in_finally, no_ret))
        if not self.allow_try:
            return ('expr', self.reads(1, 2))
        # try
        has_final = self.rng.random() < 0.45
        inner_no_ret = (no_ret or has_final) and (not self.exits or self.loop_exits_only)
        body = self.body(depth + 1, in_finally, inner_no_ret)
        nh = self.rng.choice([1, 1, 2, 3]) if self.multi_handlers else 1
        if not has_final and self.rng.random() < 0.15:
            nh = max(nh, 1)
        handlers = []
        for i in range(nh):
            tyreads = self.reads(0, 1) if (nh == 1 and not self.exits) else []
            nm = None
            if self.rng.random() < 0.5:
                self.hname += 1
                nm = (self.new(), 'e%d' % self.hname)
            hb = self.body(depth + 1, in_finally, inner_no_ret, 1, 2)
            if nm and self.rng.random() < 0.7:
                if self.rng.random() < 0.25:
                    # the first statement of the handler is a decorated def whose first decorator reads the name
                    hb = [('assign', [(self.new(), nm[1])] + self.reads(0, 1), [self.bind()], 'decodef')] + hb
                else:
                    hb = [('expr', [(self.new(), nm[1])])] + hb
            handlers.append((tyreads, nm, hb))
        orelse = self.body(depth + 1, in_finally, inner_no_ret, 1, 2) if self.rng.random() < 0.4 else [('pass',)]
        fin_strict = not self.exits or self.loop_exits_only
        final = self.body(depth + 1, fin_strict, fin_strict, 1, 2) if has_final else [('pass',)]
        if self.full_raise:
            rf = rl = True
        else:
            rf, rl = self.rng.random() < 0.7, self.rng.random() < 0.7
        return ('try', body, handlers, orelse, final, rf, rl)


# ---------------------------------------------------------------------------------------------
# Coq term
# ---------------------------------------------------------------------------------------------

def name_id(x):
    if x in POOL:
        return POOL.index(x)
    for i, (pkg, _m) in enumerate(DOTTED):
        if x == pkg:
            return 50 + i
    m = re.match(r'e(\d+)$', x)
    if m:
        return 100 + int(m.group(1))
    m = re.match(r'n(\d+)$', x)
    return 1000 + int(m.group(1))


def seq(terms):
    terms = [t for t in terms if t != 'Skip']
    if not terms:
        return 'Skip'
    out = terms[-1]
    for t in reversed(terms[:-1]):
        out = '(Seq %s %s)' % (t, out)
    return out


def rd_terms(reads):
    return ['(Read %d %d)' % (r, name_id(x)) for r, x in reads]


def bd_terms(binds):
    return ['(Bind %d %d)' % (d, name_id(x)) for d, x in binds]


def body_coq(body):
    return seq([to_coq(s) for s in body])


def to_coq(n):
    k = n[0]
    if k == 'pass':
        return 'Skip'
    if k == 'return':
        return 'Return'
    if k == 'break':
        return '(Exit KBrk)'
    if k == 'continue':
        return '(Exit KCont)'
    if k == 'raise':
        return '(Exit (KExc %d%%nat))' % n[1]
    if k == 'expr':
        return seq(rd_terms(n[1]))
    if k == 'assign':
        if len(n) > 4:      # tuplesub / chainsub: reads of the value, first target, subscript reads, second target
            cont = rd_terms([n[5]]) if len(n) > 5 else []
            return seq(rd_terms(n[1]) + bd_terms(n[2][:1]) + cont + rd_terms(n[4]) + bd_terms(n[2][1:]))
        return seq(rd_terms(n[1]) + bd_terms(n[2]))
    if k == 'with':
        second = (rd_terms(n[4][0]) + bd_terms(n[4][1])) if len(n) > 4 else []
        return seq(rd_terms(n[1]) + bd_terms(n[2]) + second + [body_coq(n[3])])
    if k == 'comp':
        elt = '(Branch %s Skip)' % seq(rd_terms(n[3]))
        if n[2] is not None:
            elt = '(Branch %s Skip)' % seq(rd_terms(n[2]) + [elt])
        return seq(rd_terms(n[1]) + [elt] + bd_terms(n[4]) + [body_coq(n[6])])
    if k == 'if':
        tb = n[4] if len(n) > 4 else []
        tcomp = ['(Branch %s Skip)' % seq(rd_terms(n[5]))] if len(n) > 5 else []
        return seq(rd_terms(n[1]) + tcomp + bd_terms(tb) + ['(Branch %s %s)' % (body_coq(n[2]), body_coq(n[3]))])
    if k == 'while':
        tb = n[4] if len(n) > 4 else []
        return '(While %s %s %s)' % (seq(rd_terms(n[1]) + bd_terms(tb)), body_coq(n[2]), body_coq(n[3]))
    if k == 'for':
        tsub = n[5] if len(n) > 5 else []
        return seq(rd_terms(n[1]) + ['(For %s %s %s)' % (seq(bd_terms(n[2]) + rd_terms(tsub)), body_coq(n[3]), body_coq(n[4]))])
    if k == 'try':
        hs = 'HNil'
        for tyreads, nm, hb in reversed(n[2]):
            nmt = '(Some (%d, %d))' % (nm[0], name_id(nm[1])) if nm else 'None'
            hs = '(HCons %s %s %s %s)' % (seq(rd_terms(tyreads)), nmt, body_coq(hb), hs)
        return '(Try %s %s %s %s %s %s)' % ('true' if n[5] else 'false', body_coq(n[1]), 'true' if n[6] else 'false',
                                            hs, body_coq(n[3]), body_coq(n[4]))
    raise ValueError(k)


COQ_PRELUDE = '''
Local Open Scope N_scope.
'''


# ---------------------------------------------------------------------------------------------
# Rendering
# ---------------------------------------------------------------------------------------------

MARK = re.compile(r'⟦([rd])(\d+)⟧')


def mk(kind, site, text):
    return '⟦%s%d⟧%s' % (kind, site, text)


class Renderer(object):
    def __init__(self, instrumented):
        self.ins = instrumented
        self.lines = []
        self.hnames = {}

    def emit(self, ind, text):
        self.lines.append('    ' * ind + text)

    # expressions ---------------------------------------------------------------------------
    def rd(self, r, x):
        if self.ins:
            return '_r(%d, %r, lambda: %s)' % (r, x, x)
        return mk('r', r, x)

    def args(self, reads):
        return ', '.join(self.rd(r, x) for r, x in reads)

    def call(self, reads, fn='g', walrus=(), comp=()):
        a = [self.rd(r, x) for r, x in reads]
        if comp:
            a.append('[g(%s) for _ in %s()]' % (self.args(comp), '_oc' if self.ins else 'it'))
        for d, x in walrus:
            a.append('(%s := %s)' % (self.tgt(d, x), ('_b(dict(%s=%d))' % (x, d)) if self.ins else 'g()'))
        return '%s(%s)' % (fn, ', '.join(a))

    def tagged(self, binds, reads):
        """expression producing a fresh tagged object after evaluating the reads"""
        tags = ', '.join('%r: %d' % (x, d) for d, x in binds)      # a dict display: the later of two equal names wins
        a = self.args(reads)
        return '_b({%s}%s)' % (tags, (', ' + a) if a else '')

    def tgt(self, d, x):
        return x if self.ins else mk('d', d, x)

    # statements -----------------------------------------------------------------------------
    def body(self, body, ind):
        for s in body:
            self.stmt(s, ind)

    def stmt(self, n, ind):
        k = n[0]
        ins = self.ins
        if k == 'pass':
            self.emit(ind, 'pass')
        elif k == 'return':
            self.emit(ind, 'return')
        elif k == 'break':
            self.emit(ind, 'break')
        elif k == 'continue':
            self.emit(ind, 'continue')
        elif k == 'raise':
            self.emit(ind, ('raise _E[%d]()' if ins else 'raise E%d()') % n[1])
        elif k == 'expr':
            self.emit(ind, self.call(n[1]))
        elif k == 'assign':
            reads, binds, form = n[1], n[2], n[3]
            val = self.tagged(binds, reads) if ins else self.call(reads)
            d, x = binds[0]
            if form == 'plain':
                self.emit(ind, '%s = %s' % (self.tgt(d, x), val))
            elif form == 'ann':
                self.emit(ind, '%s: int = %s' % (self.tgt(d, x), val))
            elif form == 'annp':
                self.emit(ind, '(%s): int = %s' % (self.tgt(d, x), val))
            elif form == 'lambdadef':
                a = self.args(reads)
                lam = 'lambda n%s: n' % ((', p=(%s,)' % a) if reads else '')
                self.emit(ind, '%s = %s' % (self.tgt(d, x), ('_b(dict(%s=%d), (%s))' % (x, d, lam)) if ins else lam))
            elif form == 'decodef':
                dk = '_dk' if ins else 'g'
                self.emit(ind, '@%s(%s)' % (dk, self.args(reads[:1])))
                self.emit(ind, '@%s(%s)' % (dk, self.args(reads[1:])))
                self.emit(ind, 'def %s(): pass' % self.tgt(d, x))
                if ins:
                    self.emit(ind, '_reg(%r, %s, %d)' % (x, x, d))
            elif form == 'tuplesub':
                d2, x2 = binds[1]
                sub = (self.args(n[4]) if len(n) > 4 else '') or '0'
                cont = self.rd(*n[5]) if len(n) > 5 else ('_sub' if ins else 'g.s')
                if ins:
                    self.emit(ind, '%s, %s[%s], %s = _b(dict(%s=%d)%s), 0, _b(dict(%s=%d))' % (
                        x, cont, sub, x2, x, d, (', ' + self.args(reads)) if reads else '', x2, d2))
                else:
                    self.emit(ind, '%s, %s[%s], %s = %s, 0, 1' % (self.tgt(d, x), cont, sub, self.tgt(d2, x2), val))
            elif form == 'chainsub':
                self.emit(ind, '%s = %s[%s] = %s' % (self.tgt(d, x), '_sub' if ins else 'g.s', self.args(n[4]), val))
            elif form == 'walrus':
                self.emit(ind, '(%s := %s)' % (self.tgt(d, x), val))
            elif form == 'tuple':
                d2, x2 = binds[1]
                if ins:
                    self.emit(ind, '%s, %s = _b(dict(%s=%d)%s), _b(dict(%s=%d))' % (
                        x, x2, x, d, (', ' + self.args(reads)) if reads else '', x2, d2))
                else:
                    self.emit(ind, '%s, %s = %s, 1' % (self.tgt(d, x), self.tgt(d2, x2), val))
            elif form == 'chain':
                d2, x2 = binds[1]
                self.emit(ind, '%s = %s = %s' % (self.tgt(d, x), self.tgt(d2, x2), val))
            elif form == 'star':
                d2, x2 = binds[1]
                if ins:
                    self.emit(ind, '%s, *%s = _b(dict(%s=%d)%s), _b(dict(%s=%d))' % (
                        x, x2, x, d, (', ' + self.args(reads)) if reads else '', x2, d2))
                    self.emit(ind, '%s = _b(dict(%s=%d))' % (x2, x2, d2))
                else:
                    self.emit(ind, '%s, *%s = %s, 1' % (self.tgt(d, x), self.tgt(d2, x2), val))
            elif form.startswith('import:'):
                mod = form.split(':')[1]
                self.emit(ind, 'import %s as %s' % (mod, self.tgt(d, x)))
                if ins:
                    self.emit(ind, '_reg(%r, %s, %d)' % (x, x, d))
            elif form.startswith('dotted:'):
                mod = form.split(':')[1]
                self.emit(ind, 'import %s%s' % ('' if ins else '', mod) if ins else 'import %s' % mk('d', d, mod))
                if ins:
                    self.emit(ind, '_reg(%r, %s, %d)' % (x, x, d))
            elif form.startswith('from:'):
                mod = form.split(':')[1]
                self.emit(ind, 'from %s import __name__ as %s' % (mod, self.tgt(d, x)))
                if ins:
                    self.emit(ind, '%s = _b(dict(%s=%d))' % (x, x, d))
            elif form == 'def':
                a = self.args(reads)
                self.emit(ind, 'def %s(%s): pass' % (self.tgt(d, x), ('p=(%s,)' % a) if reads else ''))
                if ins:
                    self.emit(ind, '_reg(%r, %s, %d)' % (x, x, d))
            elif form == 'class':
                self.emit(ind, 'class %s(%s): pass' % (self.tgt(d, x), ('*g(%s)' % self.args(reads)) if reads else ''))
                if ins:
                    self.emit(ind, '_reg(%r, %s, %d)' % (x, x, d))
            else:
                raise ValueError(form)
        elif k == 'comp':
            it, cond, elt, binds, form, body = n[1:]
            d, x = binds[0]
            if ins:
                comp = '[g(%s) for _ in _oc(%s)%s]' % (self.args(elt), self.args(it),
                                                      (' if _ob(%s)' % self.args(cond)) if cond is not None else '')
                val = '_b(dict(%s=%d), %s)' % (x, d, comp)
            else:
                val = '[g(%s) for _ in it(%s)%s]' % (self.args(elt), self.args(it),
                                                     (' if c(%s)' % self.args(cond)) if cond is not None else '')
            if form == 'plain':
                self.emit(ind, '%s = %s' % (self.tgt(d, x), val))
            elif form == 'ann':
                self.emit(ind, '%s: list = %s' % (self.tgt(d, x), val))
            elif form == 'walrus':
                self.emit(ind, 'g(%s := %s)' % (self.tgt(d, x), val))
            else:
                self.emit(ind, 'with %s(%s) as %s:' % ('_cm' if ins else 'cm', val, self.tgt(d, x)))
                self.body(body, ind + 1)
        elif k == 'with':
            reads, binds, body = n[1], n[2], n[3]
            d, x = binds[0]
            second = ''
            if len(n) > 4:
                rd2, b2 = n[4]
                d2, x2 = b2[0]
                second = (', _cm(%s) as %s' % (self.tagged(b2, rd2), x2)) if ins else (', cm(%s) as %s' % (self.args(rd2), self.tgt(d2, x2)))
            if ins:
                self.emit(ind, 'with _cm(%s) as %s%s:' % (self.tagged(binds, reads), x, second))
            else:
                self.emit(ind, 'with cm(%s) as %s%s:' % (self.args(reads), self.tgt(d, x), second))
            self.body(body, ind + 1)
        elif k == 'if':
            tb = n[4] if len(n) > 4 else []
            tcomp = n[5] if len(n) > 5 else ()
            self.emit(ind, 'if %s:' % (self.call(n[1], '_ob', tb, tcomp) if ins else self.call(n[1], 'c', tb, tcomp)))
            self.body(n[2], ind + 1)
            if n[3] != [('pass',)]:
                self.emit(ind, 'else:')
                self.body(n[3], ind + 1)
        elif k == 'while':
            tb = n[4] if len(n) > 4 else []
            self.emit(ind, 'while %s:' % (self.call(n[1], '_ow', tb) if ins else self.call(n[1], 'c', tb)))
            self.body(n[2], ind + 1)
            if n[3] != [('pass',)]:
                self.emit(ind, 'else:')
                self.body(n[3], ind + 1)
        elif k == 'for':
            reads, binds = n[1], n[2]
            tsub = n[5] if len(n) > 5 else []
            if ins:
                tg = ', '.join(x for _, x in binds) + (',' if len(binds) > 1 else '')
                tags = '[' + ', '.join('dict(%s=%d)' % (x, d) for d, x in binds) + ']'
                if tsub:
                    tg = ', '.join(x for _, x in binds) + ', _sub[%s]' % self.args(tsub)
                    tags = tags[:-1] + ', None]'
                self.emit(ind, 'for %s in _it(%s%s):' % (tg, tags, (', ' + self.args(reads)) if reads else ''))
            else:
                tg = ', '.join(self.tgt(d, x) for d, x in binds)
                if tsub:
                    tg += ', g.s[%s]' % self.args(tsub)
                self.emit(ind, 'for %s in it(%s):' % (tg, self.args(reads)))
            self.body(n[3], ind + 1)
            if n[4] != [('pass',)]:
                self.emit(ind, 'else:')
                self.body(n[4], ind + 1)
        elif k == 'try':
            body, handlers, orelse, final, rf, rl = n[1:]
            nh = len(handlers)
            self.emit(ind, 'try:')
            if ins and rf:
                self.emit(ind + 1, '_raise(%d)' % nh)
            self.body(body, ind + 1)
            if ins and rl:
                self.emit(ind + 1, '_raise(%d)' % nh)
            for i, (tyreads, nm, hb) in enumerate(handlers):
                if ins:
                    ty = '_ty(_E[%d]%s)' % (i, (', ' + self.args(tyreads)) if tyreads else '')
                else:
                    ty = ('E%d' % i) if not tyreads else 'g(E%d, %s)' % (i, self.args(tyreads))
                if nm:
                    # supp reports the position of the `except` keyword for handler names
                    kw = 'except' if ins else mk('d', nm[0], 'except')
                    self.hnames[nm[0]] = nm[1]
                    self.emit(ind, '%s %s as %s:' % (kw, ty, nm[1]))
                    if ins:
                        self.emit(ind + 1, '_reg(%r, %s, %d)' % (nm[1], nm[1], nm[0]))
                else:
                    self.emit(ind, 'except %s:' % ty)
                self.body(hb, ind + 1)
            if orelse != [('pass',)]:
                self.emit(ind, 'else:')
                self.body(orelse, ind + 1)
            if final != [('pass',)]:
                self.emit(ind, 'finally:')
                self.body(final, ind + 1)
        else:
            raise ValueError(k)


HEADER_PLAIN = {
    'func': 'def main(g, cm, it, c, E0, E1, E2):',
    'module': 'from helpers import g, cm, it, c, E0, E1, E2',
    'class': 'from helpers import g, cm, it, c, E0, E1, E2\nclass Main:',
}


COMPOUND_START = ('def ', 'class ', 'if ', 'while ', 'for ', 'try:', 'except', 'else:', 'finally:', 'with ', '@', 'async ')


def relayout(lines, rng, keep):
    """Layout-only variation of the plain rendering: consecutive simple statements joined with
    '; ', and a compound header followed by a single simple body line written as a one-line
    suite. The first `keep` lines (header) are left alone."""
    def indent(l):
        return len(l) - len(l.lstrip(' '))

    def simple(l):
        t = MARK.sub('', l).strip()
        return t and not t.startswith(COMPOUND_START) and not t.endswith(':')
    out = list(lines[:keep])
    body = lines[keep:]
    i = 0
    res = []
    while i < len(body):
        l = body[i]
        t = MARK.sub('', l).strip()
        # header + exactly one simple body line -> one-line suite
        if t.endswith(':') and not t.startswith(('def ', 'class ', '@', 'async ')) and i + 1 < len(body) \
                and indent(body[i + 1]) == indent(l) + 4 and simple(body[i + 1]) \
                and (i + 2 >= len(body) or indent(body[i + 2]) <= indent(l)) and rng.random() < 0.35:
            res.append(l + ' ' + body[i + 1].strip())
            i += 2
            continue
        # join simple statements of one block
        if simple(l) and res and simple(res[-1]) and indent(res[-1]) == indent(l) and ':' not in MARK.sub('', res[-1]).split('#')[0][-1:] \
                and not MARK.sub('', res[-1]).strip().startswith(COMPOUND_START) and rng.random() < 0.3:
            # never join onto a one-line suite (it would extend that suite)
            prev = MARK.sub('', res[-1]).strip()
            if not any(prev.startswith(k) or (': ' in prev and prev.split(' ')[0] in ('if', 'while', 'for', 'try:', 'except', 'else:', 'finally:', 'with')) for k in COMPOUND_START):
                res[-1] = res[-1] + '; ' + l.strip()
                i += 1
                continue
        res.append(l)
        i += 1
    return out + res


def render_plain(body, scope='func', layout_rng=None):
    """Returns (source, reads {site: (line, col, name)}, binds {site: (line, col, name)})."""
    r = Renderer(False)
    head = HEADER_PLAIN[scope].split('\n')
    ind = 0 if scope == 'module' else 1
    r.lines.extend(head)
    r.body(body, ind)
    if layout_rng is not None:
        r.lines = relayout(r.lines, layout_rng, len(head))
    reads, binds = {}, {}
    out = []
    for ln, line in enumerate(r.lines, 1):
        while True:
            m = MARK.search(line)
            if not m:
                break
            col = m.start()
            line = line[:m.start()] + line[m.end():]
            ident = re.match(r'\w+', line[col:]).group()
            site = int(m.group(2))
            ident = r.hnames.get(site, ident)
            (reads if m.group(1) == 'r' else binds)[site] = (ln, col, ident)
        out.append(line)
    return '\n'.join(out) + '\n', reads, binds


RUNTIME = r'''
import sys
class _Stop(BaseException): pass
class _V(object):
    def __init__(self, tags): self.tags = tags
    def __setitem__(self, k, v): pass
class _E0(Exception): pass
class _E1(Exception): pass
class _E2(Exception): pass
_E = [_E0, _E1, _E2]
_log = []
_dead = [False]
_dec = []
_reg_tab = {}
def _pop():
    return _dec.pop(0) if _dec else 0
_cont = [False]          # C03 mode: a failed read is logged and the execution goes on
def _r(site, name, thunk):
    if _dead[0]:
        raise _Stop()
    try:
        v = thunk()
    except NameError:
        _log.append((site, None))
        if _cont[0]:
            return None
        _dead[0] = True
        raise _Stop()
    if isinstance(v, _V):
        _log.append((site, v.tags.get(name, -1)))
    else:
        _log.append((site, _reg_tab.get((name, id(v)), -1)))
    return v
def _b(tags, *args): return _V(tags)
def _reg(name, obj, site):
    _reg_tab[(name, id(obj))] = site
    _keep.append(obj)
_keep = []
def _ob(*args): return _pop() == 0
def _ow(*args): return _pop() != 0
def _oc(*args): return [0] if _pop() == 0 else []
def _it(tags, *args):
    while _pop() != 0:
        vs = tuple(_V(t) for t in tags)
        yield vs if len(vs) > 1 else vs[0]
class _cm(object):
    def __init__(self, v): self.v = v
    def __enter__(self): return self.v
    def __exit__(self, *a): return False
def _raise(nh):
    d = _pop()
    if 0 < d <= nh:
        raise _E[d - 1]()
def _ty(cls, *args): return cls
def _dk(*a): return lambda f: f
class _Sub(object):
    def __setitem__(self, k, v): pass
_sub = _Sub()
def g(*a): return ()
'''


def render_instrumented(body, scope='func'):
    r = Renderer(True)
    if scope == 'func':
        r.lines.append('def main():')
        r.body(body, 1)
        r.lines.append('def _go():')
        r.lines.append('    main()')
    else:
        # module level: the body is compiled and exec'd as a module by the driver
        r.body(body, 0)
    return '\n'.join(r.lines) + '\n'


DRIVER = r'''
import json, sys
def run_one(code, scope, decisions):
    ns = {}
    exec(RUNTIME, ns)
    ns['_dec'][:] = list(decisions)
    err = None
    try:
        if scope == 'func':
            exec(compile(code, '<gen>', 'exec'), ns)
            ns['_go']()
        else:
            exec(compile(code, '<gen>', 'exec'), ns)
    except ns['_Stop']:
        pass
    except BaseException as e:
        err = '%s: %s' % (type(e).__name__, e)
    return ns['_log'], len(decisions) - len(ns['_dec']), err
'''


def run_instrumented(code, scope, decisions):
    ns = {'RUNTIME': RUNTIME}
    exec(DRIVER, ns)
    return ns['run_one'](code, scope, decisions)


def count_decisions_upper(body):
    """crude upper bound on the number of decision points visited with <= 2 trips per loop"""
    total = 0
    for n in body:
        k = n[0]
        if k == 'if':
            total += (2 if len(n) > 5 else 1) + max(count_decisions_upper(n[2]), count_decisions_upper(n[3]))
        elif k == 'while' or k == 'for':
            b = n[2] if k == 'while' else n[3]
            e = n[3] if k == 'while' else n[4]
            total += 3 + 2 * count_decisions_upper(b) + count_decisions_upper(e)
        elif k == 'with':
            total += count_decisions_upper(n[3])
        elif k == 'comp':
            total += 2 + count_decisions_upper(n[6])
        elif k == 'try':
            total += 2 + count_decisions_upper(n[1]) + max([count_decisions_upper(h[2]) for h in n[2]] + [count_decisions_upper(n[3])]) + count_decisions_upper(n[4])
    return total
