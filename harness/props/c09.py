"""C09 - a long-lived project answers exactly like a fresh one (cache transparency).

Decided by: Coq theorems C09_* (Props/C09.v) on Model/Cache.v (cache-coherence invariant of the
repaired invalidation policy, for all histories) + (I)/(R) correspondence of the model with the real
Project/Server on generated histories (evaluated inside Coq) + the direct evaluator: every request of
every history is answered by the long-lived project (through supp.server.Server, i.e. inside
check_changes) and by a brand-new Project on the same disk state, and the two must be equal.

History format (JSON, also the replay/corpus format): list of ops
  ["W", mod, content]   create / rewrite module `mod` (list of name codes) with a new, larger mtime
  ["T", mod]            touch (new mtime, same text)
  ["R", req]            request: ["main", content, query] | ["fromimport", mod] | ["locimport", content, mod]
                        (locimport = go to definition on `import mod|` below the text: raises ImportError
                        when mod cannot be found, after the star imports of the text have been resolved)
  ["X", req]            the same request, but its processing raises inside check_changes after the
                        analysis (the context manager is left by an exception); the answer computed
                        before the failure is still recorded and compared
  content = list of bindings ["D", n, attrs] | ["I", n, mod] | ["F", n, mod, x] | ["S", mod]
  query   = ["names"] | ["lint", uses] | ["attrs", x, y|null] | ["loc", x]
"""
import builtins
import itertools
import logging
import json
import os
import re
import shutil
import sys
import tempfile

from common import VERIF, NCPU, coq_list, coq_N

LEVEL = 'proof'
ASSUMPTIONS = [
    'every create/rewrite/touch gives the file a modification time it never had before (the harness forces it with os.utime, not monotonically; mtime granularity of the OS is outside the model)',
    'the disk does not change while a request is being served; files are not deleted, __init__.py is not removed, no module is shadowed from an earlier root (outside the property)',
    'module text is abstracted to one binding per line (class / import / from-import / star-import); the renderer abstract module -> Python text is trusted; the import graph of generated projects is acyclic (checked in Coq per history: hypotheses of C09_acyclic)',
    'fuel: the model answers OOF (never a normal value) when its fuel is exhausted; C09_fuel_suffices bounds the fuel on acyclic projects; the correspondence counts OOF as a disagreement',
    'the reference "brand-new project" is a new Project in the same interpreter; a new interpreter is used as oracle only when the model correspondence fails while the in-process comparison passes',
]

FUEL = 24
MAIN = 'main'


# --------------------------------------------------------------------------------------------
# abstract syntax <-> Python text, Gallina, JSON
# --------------------------------------------------------------------------------------------

PRIVATE = 100     # name codes from here on are rendered with a leading underscore (Model.Cache.is_private)


class Namer(object):
    """name code k <-> identifier 'n<k>' ('_n<k>' for k >= 100); the first component of a module path
    carries the run token ('_<token>n<k>' when private, so that the file name starts with an underscore)"""

    def __init__(self, token):
        self.token = token

    def ident(self, k):
        return ('_n%d' if k >= PRIVATE else 'n%d') % k

    def top(self, k):
        return ('_' if k >= PRIVATE else '') + self.token + 'n%d' % k

    def parts(self, m):
        return [self.top(m[0])] + [self.ident(k) for k in m[1:]]

    def modstr(self, m):
        return '.'.join(self.parts(m))

    def modfile(self, root, m, packages):
        parts = self.parts(m)
        if tuple(m) in packages:
            return os.path.join(root, *(parts + ['__init__.py']))
        return os.path.join(root, *parts) + '.py'

    def code(self, ident):
        mo = re.match(r'^(_?)n(\d+)$', ident)
        if mo and (int(mo.group(2)) >= PRIVATE) == bool(mo.group(1)):
            return int(mo.group(2))
        return None

    def top_code(self, name):
        for k_private in (False, True):
            pre = ('_' if k_private else '') + self.token
            if name.startswith(pre):
                mo = re.match(r'^n(\d+)$', name[len(pre):])
                if mo and (int(mo.group(1)) >= PRIVATE) == k_private:
                    return int(mo.group(1))
        return None


def render_binding(b, nm, here=None, rel_ok=False):
    k = b[0]
    if k == 'D':
        body = '; '.join('%s = 1' % nm.ident(a) for a in b[2]) or 'pass'
        return 'class %s: %s' % (nm.ident(b[1]), body)
    if k == 'I':
        return 'import %s as %s' % (nm.modstr(b[2]), nm.ident(b[1]))
    target = b[2] if k == 'F' else b[1]
    mod = nm.modstr(target)
    if rel_ok and here is not None and len(here) >= 1 and list(target[:1]) == list(here[:1]) and len(target) <= 2:
        # inside package here[0]: "from . import x" / "from .s import x"
        mod = '.' + '.'.join(nm.ident(c) for c in target[1:])
    if k == 'F':
        if b[1] == b[3]:
            return 'from %s import %s' % (mod, nm.ident(b[3]))
        return 'from %s import %s as %s' % (mod, nm.ident(b[3]), nm.ident(b[1]))
    if k == 'S':
        return 'from %s import *' % mod
    raise ValueError(b)


def render_content(c, nm, here=None, rel_ok=False):
    return '# generated\n' + ''.join(render_binding(b, nm, here, rel_ok) + '\n' for b in c)


def g_mod(m):
    return coq_list([coq_N(k) for k in m])


def g_names(l):
    return coq_list([coq_N(k) for k in l])


def g_binding(b):
    k = b[0]
    if k == 'D':
        return '(BDef %s %s)' % (coq_N(b[1]), g_names(b[2]))
    if k == 'I':
        return '(BImport %s %s)' % (coq_N(b[1]), g_mod(b[2]))
    if k == 'F':
        return '(BFrom %s %s %s)' % (coq_N(b[1]), g_mod(b[2]), coq_N(b[3]))
    return '(BStar %s)' % g_mod(b[1])


def g_content(c):
    return coq_list([g_binding(b) for b in c])


def g_query(q):
    if q[0] == 'names':
        return 'QNames'
    if q[0] == 'lint':
        return '(QLint %s)' % g_names(q[1])
    if q[0] == 'attrs':
        return '(QAttrs %s %s)' % (coq_N(q[1]), 'None' if q[2] is None else '(Some %s)' % coq_N(q[2]))
    return '(QLoc %s)' % coq_N(q[1])


def g_req(r):
    if r[0] == 'main':
        return '(ReqMain %s %s)' % (g_content(r[1]), g_query(r[2]))
    if r[0] == 'locimport':
        return '(ReqLocImport %s %s)' % (g_content(r[1]), g_mod(r[2]))
    return '(ReqFromImport %s)' % g_mod(r[1])


def g_op(o):
    if o[0] == 'W':
        return '(Write %s %s)' % (g_mod(o[1]), g_content(o[2]))
    if o[0] == 'T':
        return '(Touch %s)' % g_mod(o[1])
    return '(Request %s)' % g_req(o[1])      # "R" and "X": same effects on the caches in the model


def is_req(o):
    return o[0] in ('R', 'X')


def g_ans(a):
    if a[0] == 'names':
        return '(ANames %s)' % g_names(a[1])
    if a[0] == 'loc':
        return '(ALoc %s)' % coq_list(['(%s, %d%%nat)' % (g_mod(m), ln) for m, ln in a[1]])
    if a[0] == 'importerror':
        return 'AImportError'
    return None   # not representable (unexpected exception / foreign name): a disagreement


# --------------------------------------------------------------------------------------------
# running a history on the real code
# --------------------------------------------------------------------------------------------

BUILTIN_NAMES = set(dir(builtins))


class Abort(Exception):
    pass


SPELLINGS = ['abs', 'slash', 'dot', 'dotdot', 'rel', 'syspath']


def spell_root(root, spelling):
    """(sources, extra sys.path entry): the same directory named the way a user may name it. supp joins the
    root as given with the module path, so cached file names carry the spelling."""
    d, b = os.path.split(root)
    if spelling == 'abs':
        return [root], None
    if spelling == 'slash':
        return [root + os.sep], None
    if spelling == 'dot':
        return [os.path.join(d, '.', b)], None
    if spelling == 'dotdot':
        return [os.path.join(root, os.pardir, b)], None
    if spelling == 'rel':
        return [os.path.relpath(root)], None
    if spelling == 'syspath':
        # the modules are found on sys.path, outside the project's sources
        return [tempfile.mkdtemp(prefix='c09empty_', dir=d)], root
    raise ValueError(spelling)


class RawApi(object):
    """the three entry points of server.py without their check_changes wrapper (used inside an explicit
    `with project.check_changes():` that is then left by an exception)"""

    def __init__(self, project):
        self.project = project

    def assist(self, source, position, filename):
        from supp import assistant
        return assistant.assist(self.project, source, tuple(position), filename)

    def location(self, source, position, filename):
        from supp import assistant
        return assistant.location(self.project, source, tuple(position), filename)

    def lint(self, source, filename):
        from supp import linter
        return [r[:4] for r in linter.lint(self.project, source, filename)]


class Runner(object):
    """Executes one history in a temp dir against a long-lived project and, after every request,
    against a brand-new one.  All requests go through supp.server.Server methods, i.e. exactly the
    `with self.project.check_changes():` wrapper of server.py."""

    def __init__(self, token, packages=(), rel_ok=False, base=None, root=None, spelling='abs'):
        from supp.server import Server
        from supp.project import Project
        self.Server, self.Project = Server, Project
        self.nm = Namer(token)
        self.packages = set(tuple(p) for p in packages)
        self.rel_ok = rel_ok
        self.clock = 1500000000
        self.ticks = 0
        self.files = {}
        if root is not None:
            # attach to an existing tree: rebuild the file -> module map from the names on disk
            self.root = root
            for dp, _dn, fns in os.walk(root):
                for fn in fns:
                    rel = os.path.relpath(os.path.join(dp, fn), root)[:-3].split(os.sep)
                    if rel[-1] == '__init__':
                        rel = rel[:-1]
                    codes = [self.nm.top_code(c) if i == 0 else self.nm.code(c) for i, c in enumerate(rel)]
                    if rel and None not in codes:
                        self.files[os.path.join(dp, fn)] = tuple(codes)
        else:
            self.root = tempfile.mkdtemp(prefix='c09_', dir=base)
        self.root = os.path.realpath(self.root)
        self.files = dict((os.path.realpath(k), v) for k, v in self.files.items())
        self.spelling = spelling
        self.sources, self.extra_path = spell_root(self.root, spelling)
        if self.extra_path:
            sys.path.append(self.extra_path)
        self.long = self.new_server()
        self.mainfile = os.path.join(self.root, self.nm.token + MAIN + '.py')

    def new_server(self):
        s = self.Server(None)
        s.project = self.Project(list(self.sources))
        return s

    def close(self):
        if self.extra_path and self.extra_path in sys.path:
            sys.path.remove(self.extra_path)
        shutil.rmtree(self.root, ignore_errors=True)
        if self.extra_path:
            shutil.rmtree(self.sources[0], ignore_errors=True)

    def main_for(self, r):
        """file name of the buffer a request is made from: the top-level main file, or (4th element of a
        main request = a package) a buffer inside that package, whose text then uses relative imports"""
        where = r[3] if r[0] == 'main' and len(r) > 3 else None
        if where:
            return os.path.join(os.path.dirname(self.nm.modfile(self.root, where, self.packages)),
                                self.nm.token + MAIN + '.py'), list(where) + [0]
        return self.mainfile, None

    def tick(self, fn):
        # a modification time this file never had before; not monotone on purpose (a restored or
        # checked-out file may be older than the cached one): only (in)equality of mtimes matters
        self.ticks += 1
        t = self.clock + (self.ticks if self.ticks % 3 else -self.ticks)
        os.utime(fn, (t, t))

    def write(self, m, c):
        fn = self.nm.modfile(self.root, m, self.packages)
        os.makedirs(os.path.dirname(fn), exist_ok=True)
        with open(fn, 'w') as f:
            f.write(render_content(c, self.nm, here=m, rel_ok=self.rel_ok and tuple(m[:1]) in self.packages))
        self.files[os.path.realpath(fn)] = tuple(m)
        self.tick(fn)

    def touch(self, m):
        fn = self.nm.modfile(self.root, m, self.packages)
        if os.path.exists(fn):
            self.tick(fn)

    # -- requests ---------------------------------------------------------------------------
    def canon_names(self, names):
        out = []
        for n in names:
            if n in BUILTIN_NAMES or n.startswith('__'):
                continue
            k = self.nm.code(n)
            out.append(k if k is not None else n)
        return sorted(set(out), key=repr)

    def canon_loc(self, locs):
        out = []
        for l in locs:
            if isinstance(l, list):
                out.append(('multi', repr(l)))
                continue
            fn = os.path.realpath(l['file']) if l['file'] else l['file']
            if fn == self.mainfile or (fn and os.path.basename(fn) == self.nm.token + MAIN + '.py'):
                continue
            m = self.files.get(fn)
            line = l['loc'][0]
            if m is not None and tuple(l['loc']) == (1, 0):
                line = 1
            out.append([list(m) if m is not None else fn, line])
        return out

    def ask(self, server, r):
        nm = self.nm
        try:
            if r[0] == 'fromimport':
                src = 'from %s import ' % nm.modstr(r[1])
                _p, names = server.assist(src, [1, len(src)], self.mainfile)
                if not os.path.exists(nm.modfile(self.root, r[1], self.packages)):
                    # the module is nowhere and supp did not raise: only the directory listing was proposed
                    return ['missing', self.canon_names(names)]
                return ['names', self.canon_names(names)]
            if r[0] == 'locimport':
                tail = 'import ' + nm.modstr(r[2])
                src = render_content(r[1], nm) + tail + '\n'
                locs = server.location(src, [src.count('\n'), len(tail)], self.mainfile)
                return ['loc', self.canon_loc(locs)]
            c, q = r[1], r[2]
            mainfile, here = self.main_for(r)
            src = render_content(c, nm, here=here, rel_ok=here is not None)
            ln = src.count('\n') + 1
            if q[0] == 'names':
                _p, names = server.assist(src, [ln, 0], mainfile)
                return ['names', self.canon_names(names)]
            if q[0] == 'lint':
                src += 'print(%s)\n' % ', '.join(nm.ident(u) for u in q[1])
                res = server.lint(src, mainfile)
                und = [x[1].split(': ')[1] for x in res if x[0] == 'E02']
                return ['names', self.canon_names(und)]
            if q[0] == 'attrs':
                tail = nm.ident(q[1]) + '.' + (nm.ident(q[2]) + '.' if q[2] is not None else '')
                src += tail
                _p, names = server.assist(src, [ln, len(tail)], mainfile)
                return ['names', self.canon_names(names)]
            if q[0] == 'loc':
                tail = nm.ident(q[1])
                src += tail + '\n'
                locs = server.location(src, [ln, len(tail)], mainfile)
                return ['loc', self.canon_loc(locs)]
            raise ValueError(q)
        except ImportError:
            return ['importerror']
        except Exception as e:   # any other exception is an observable answer too
            return ['exception', e.__class__.__name__]

    def ask_abort(self, server, r):
        """the request is processed inside check_changes and then fails: the context is left by an exception"""
        box = []
        try:
            with server.project.check_changes():
                box.append(self.ask(RawApi(server.project), r))
                raise Abort()
        except Abort:
            pass
        return box[0]

    def do(self, server, o):
        return self.ask_abort(server, o[1]) if o[0] == 'X' else self.ask(server, o[1])

    def run(self, ops):
        """returns (long-lived answers, fresh answers), one per request"""
        la, fa = [], []
        for o in ops:
            if o[0] == 'W':
                self.write(o[1], o[2])
            elif o[0] == 'T':
                self.touch(o[1])
            else:
                la.append(self.do(self.long, o))
                fa.append(self.do(self.new_server(), o))
        return la, fa


ORACLE_CODE = """
import sys, json, logging
sys.path.insert(0, sys.argv[1])
import common
common.ensure_repo_on_path()
logging.getLogger('supp').setLevel(logging.CRITICAL)
from props import c09
root, token, packages, req = sys.argv[2], sys.argv[3], json.loads(sys.argv[4]), json.loads(sys.argv[5])
r = c09.Runner(token, packages=packages, root=root, spelling=sys.argv[6])
r.close = lambda: None
print(json.dumps(r.ask(r.long, req)))
"""


def ask_new_process(runner, req):
    """the same request answered by a new Project in a new interpreter (nothing can have survived)"""
    from common import run_py
    rc, out, err = run_py(ORACLE_CODE, [os.path.join(VERIF, 'harness'), runner.root, runner.nm.token,
                                        json.dumps(sorted(map(list, runner.packages))), json.dumps(req),
                                        runner.spelling if runner.spelling != 'syspath' else 'abs'], timeout=120)
    if rc != 0:
        raise RuntimeError('oracle process failed: ' + err[-500:])
    return json.loads(out.strip().split('\n')[-1])


def run_history_new_process(ctx, h, token):
    """long-lived answers vs answers of a new interpreter, request by request (slow: failure path only)"""
    r = Runner(token, packages=h.get('packages', ()), rel_ok=h.get('rel_ok', False), base=ctx.scratch,
               spelling=h.get('spelling', 'abs'))
    la, pa = [], []
    try:
        for o in h['ops']:
            if o[0] == 'W':
                r.write(o[1], o[2])
            elif o[0] == 'T':
                r.touch(o[1])
            else:
                la.append(r.do(r.long, o))
                pa.append(ask_new_process(r, o[1]))
    finally:
        r.close()
    return la, pa


def cached_modules(server):
    """informational only (private attribute): module names in the cross-request cache"""
    try:
        return sorted(server.project._module_cache)
    except Exception:
        return None


# --------------------------------------------------------------------------------------------
# generators
# --------------------------------------------------------------------------------------------

# fixed small universe for the exhaustive part: a -> b -> c, package p with submodule p.s
A, B_, C, P, S, Z, Z2, PT = [1], [2], [3], [4], [4, 5], [6], [108], [4, 13]
NC, NB, NX = 10, 11, 12


def exhaustive_alphabet():
    """A fixed project (star chain a -> b -> c with a re-export, package p with a submodule,
    a reference to a module z that does not exist yet) and a small alphabet of operations."""
    setup = [
        ['W', C, [['D', NC, [20]]]],
        ['W', B_, [['S', Z2], ['F', NB, C, NC], ['F', NX, Z, NX], ['S', P], ['F', 13, P, 13]]],
        ['W', A, [['S', B_]]],
        ['W', P, [['I', 5, S], ['D', 13, [22]]]],
        ['W', S, [['S', C], ['D', 14, [23]]]],
    ]
    reqs = [
        ['main', [['S', A]], ['attrs', NB, None]],          # a.B. through star + re-export
        ['main', [['I', 1, A]], ['attrs', 1, NX]],          # a.X. where X comes from the missing z
        ['main', [['S', A], ['S', S]], ['names']],          # star names, two chains
        ['main', [['F', 5, P, 5]], ['attrs', 5, NC]],       # p.s.C. (submodule, then star)
        ['main', [['F', NB, A, NB]], ['loc', NB]],          # definition chain
        ['fromimport', P],
        ['main', [['I', 2, B_]], ['attrs', 2, 13]],         # b.t. where b: from p import * / from p import t; t is a class of
                                                            # p/__init__ (p is cached before p.t is probed), p/t.py is created later
    ]
    edits = [
        ['W', C, [['D', NC, [21]], ['D', 15, []]]],         # rewrite c: new attribute, new name
        ['W', B_, [['F', NB, C, 15], ['S', Z]]],            # rewrite b: re-export something else
        ['W', Z, [['D', NX, [24]]]],                        # create the missing module
        ['W', Z2, [['D', 17, [25]]]],                       # create the other missing module of the same package
        ['T', A],
        ['W', PT, [['D', 16, []]]],                         # new submodule p.t, named like a class of p/__init__
    ]
    failing = [
        ['X', reqs[0]],                                     # a.B. is analysed, then the request fails
        ['R', ['locimport', [['S', A]], [9]]],              # go to definition on `import <missing>`: ImportError
    ]
    return setup, [['R', r] for r in reqs] + failing + edits


# ranks witnessing that every disk reachable in the exhaustive part is acyclic (C09_acyclic)
EXH_RANKS = [[Z, 0], [Z2, 0], [PT, 0], [[9], 0], [C, 1], [S, 2], [P, 3], [B_, 4], [A, 5]]


def gen_universe(rng):
    """3-6 modules in 1-2 packages (package = its __init__ module + submodules)"""
    priv = lambda k: k + PRIVATE if rng.random() < 0.3 else k     # some modules are named _x
    tops = [[priv(k)] for k in range(1, rng.randint(3, 5))]
    pk = rng.randint(1, 2)
    packages = []
    mods = list(tops)
    for i in range(pk):
        p = [7 + i]
        packages.append(p)
        mods.append(p)
        for s in range(rng.randint(1, 2)):
            mods.append(p + [priv(30 + s)])
    mods = mods[:6] if len(mods) > 6 else mods
    packages = [p for p in packages if p in mods]
    rng.shuffle(mods)           # topological order of the import graph: mods[i] imports mods[j>i] only
    return mods, packages


NAME_POOL = list(range(40, 46))
ATTR_POOL = list(range(60, 65))


def bound_names(c):
    """names a module text binds directly (stars excluded)"""
    return [b[1] for b in c if b[0] != 'S']


def gen_binding(rng, later, cur, own=None):
    r = rng.random()
    if r < 0.3 or not later:
        subs = [t[1] for t in later if own is not None and len(t) == 2 and t[:1] == list(own)]
        if subs and rng.random() < 0.5:
            # a package __init__ binding the name of one of its (possibly not yet existing) submodules
            return ['D', rng.choice(subs), rng.sample(ATTR_POOL, rng.randint(0, 2))]
        return ['D', rng.choice(NAME_POOL + [PRIVATE + 40]), rng.sample(ATTR_POOL, rng.randint(0, 2))]
    t = rng.choice(later)
    if r < 0.42:
        return ['I', rng.choice(NAME_POOL), t]
    if r < 0.8:
        if len(t) == 2 and t[:1] in later and rng.random() < 0.5:
            # from package import submodule
            return ['F', t[1] if rng.random() < 0.7 and t[1] < PRIVATE else rng.choice(NAME_POOL), t[:1], t[1]]
        known = bound_names(cur.get(tuple(t), []))
        x = rng.choice(known) if known and rng.random() < 0.8 else rng.choice(NAME_POOL)
        return ['F', x if rng.random() < 0.6 else rng.choice(NAME_POOL), t, x]
    return ['S', t]


def gen_content(rng, mods, i, cur):
    """content of module mods[i]: bindings referring to later modules only (acyclic)"""
    later = mods[i + 1:]
    old = cur.get(tuple(mods[i]))
    if old and rng.random() < 0.7:
        # an edit of the existing text
        c = [list(b) for b in old]
        k = rng.randrange(len(c))
        r = rng.random()
        if r < 0.35 and c[k][0] == 'D':
            c[k] = ['D', c[k][1], rng.sample(ATTR_POOL, rng.randint(0, 2))]
        elif r < 0.55:
            c[k] = gen_binding(rng, later, cur, mods[i])
        elif r < 0.75:
            c.insert(rng.randint(0, len(c)), gen_binding(rng, later, cur, mods[i]))
        elif r < 0.9 and len(c) > 1:
            del c[k]
        else:
            rng.shuffle(c)
        return c[:5]
    return [gen_binding(rng, later, cur, mods[i]) for _ in range(rng.randint(1, 4))]


def visible_names(cur, mods):
    out = set()
    for c in cur.values():
        out.update(bound_names(c))
    return sorted(out) or NAME_POOL


def gen_request(rng, mods, cur):
    r = rng.random()
    if r < 0.1:
        return ['fromimport', rng.choice(mods)]
    present = [list(m) for m in cur] or mods
    if r < 0.2:
        # go to definition on an import below a text with star imports; mostly of a module that is nowhere
        text = [['S', rng.choice(present)] for _ in range(rng.randint(1, 2))]
        return ['locimport', text, [9] if rng.random() < 0.7 else rng.choice(mods)]
    t = rng.choice(present) if rng.random() < 0.85 else rng.choice(mods)
    names = visible_names(cur, mods)
    pick = lambda: rng.choice(names) if rng.random() < 0.85 else rng.choice(NAME_POOL)
    k = rng.random()
    x = pick()
    if k < 0.3:
        main = [['S', t]]
        q = rng.choice([['names'], ['attrs', x, None], ['attrs', x, None], ['loc', x], ['lint', rng.sample(NAME_POOL, 3)]])
    elif k < 0.55:
        local = bound_names(cur.get(tuple(t), []))
        if local and rng.random() < 0.7:
            x = rng.choice(local)
        main = [['F', x, t, x]]
        q = rng.choice([['attrs', x, None], ['attrs', x, None], ['loc', x]])
    elif k < 0.8:
        n = rng.choice(NAME_POOL)
        main = [['I', n, t]]
        q = rng.choice([['attrs', n, None], ['attrs', n, x], ['attrs', n, x], ['loc', n]])
    else:
        t2 = rng.choice(present)
        main = [['S', t], ['F', x, t2, x], ['D', rng.choice(NAME_POOL), [rng.choice(ATTR_POOL)]]]
        q = rng.choice([['names'], ['attrs', x, None], ['loc', x], ['lint', rng.sample(NAME_POOL, 4)]])
    return ['main', main, q]


def gen_history(rng, maxlen):
    h = gen_history0(rng, maxlen)
    h['spelling'] = rng.choice(SPELLINGS)
    for o in h['ops']:
        # a third of the main requests are made from a buffer inside a package (relative imports)
        if is_req(o) and o[1][0] == 'main' and h['packages'] and rng.random() < 0.35:
            o[1] = o[1][:3] + [rng.choice(h['packages'])]
    return h


def gen_history0(rng, maxlen):
    mods, packages = gen_universe(rng)
    ops = []
    cur = {}
    # initial disk: package __init__ files always, the other modules with probability 0.75;
    # written in reverse topological order so that from-imports can pick existing names
    for i in range(len(mods) - 1, -1, -1):
        m = mods[i]
        # the last two modules of the order (leaves) are mostly absent at first: their importers run into
        # several failed lookups, and the leaves are created later in any order
        if m in packages or rng.random() < (0.3 if i >= len(mods) - 2 else 0.85):
            c = gen_content(rng, mods, i, cur)
            ops.append(['W', m, c])
            cur[tuple(m)] = c
    n = rng.randint(3, maxlen)
    last_req = None
    for _ in range(n):
        r = rng.random()
        if r < 0.5:
            # repeat the previous request now and then: that is how staleness shows
            rq = last_req if last_req is not None and rng.random() < 0.4 else gen_request(rng, mods, cur)
            if rq[0] == 'main':
                last_req = rq
            ops.append(['X' if rng.random() < 0.15 else 'R', rq])
        elif r < 0.92:
            i = rng.randrange(len(mods))
            c = gen_content(rng, mods, i, cur)
            ops.append(['W', mods[i], c])
            cur[tuple(mods[i])] = c
        else:
            ops.append(['T', rng.choice(mods)])
    ranks = [[m, len(mods) - 1 - i] for i, m in enumerate(mods)]
    return {'ops': ops, 'packages': packages, 'rel_ok': True, 'ranks': ranks}


def is_nontrivial(ops):
    """a request, then a change on disk, then another request: the cache was warm when the disk changed"""
    stage = 0
    for o in ops:
        if stage == 0 and is_req(o):
            stage = 1
        elif stage == 1 and o[0] in ('W', 'T'):
            stage = 2
        elif stage == 2 and is_req(o):
            return True
    return False



# --------------------------------------------------------------------------------------------
# raw scenarios: real Python text beyond the modelled fragment (inheritance across modules, instances,
# functions, dotted imports, underscore names, relative imports) - direct evaluator only
# --------------------------------------------------------------------------------------------

def match_f70(seq, la, fa, i):
    """an enclosing __init__.py (edits 0, 1 of the scenario) was created after a request"""
    first_req = min([k for k, x in enumerate(seq) if x >= 0] or [len(seq)])
    return any(x < 0 and (-1 - x) in (0, 1) and k > first_req for k, x in enumerate(seq))


def match_f89(seq, la, fa, i):
    """a new project raises SyntaxError where the long-lived one answers from the half-built scope"""
    return fa[i] == ['exception', 'SyntaxError'] and la[i][0] != 'exception'


RAW_SCENARIOS = [
    {'name': 'inheritance',
     'files': {'@c.py': 'class Base:\n    x = 1\n    def m(self):\n        self.inst_attr = 1\n',
               '@b.py': 'from @c import Base\nclass Mid(Base):\n    y = 1\n',
               '@a.py': 'from @b import Mid\nclass Top(Mid):\n    z = 1\ntop = Top()\n'},
     'requests': [('assist', 'from @a import Top\nTop.'), ('assist', 'from @a import top\ntop.'),
                  ('assist', 'import @a\n@a.Top().'), ('location', 'from @a import Top\nTop.x')],
     'edits': [('@c.py', 'class Base:\n    x = 1\n    new_attr = 2\n    def m(self):\n        self.other = 1\n'),
               ('@b.py', 'from @c import Base\nclass Mid(Base):\n    y2 = 1\n'),
               ('@c.py', None)]},
    {'name': 'functions-and-values',
     'files': {'@c.py': 'class K:\n    k1 = 1\ndef make():\n    return K()\nvalue = make()\n',
               '@b.py': 'from @c import make, value\nresult = make()\n',
               '@a.py': 'from @b import *\n'},
     'requests': [('assist', 'from @a import *\nresult.'), ('assist', 'from @a import *\nvalue.'),
                  ('assist', 'from @a import *\nmake().'), ('lint', 'from @a import *\nprint(result, value, missing)\n')],
     'edits': [('@c.py', 'class K:\n    k2 = 1\ndef make():\n    return K()\nvalue = make()\n'),
               ('@c.py', 'class K:\n    k1 = 1\nclass L:\n    l1 = 1\ndef make():\n    return L()\nvalue = K()\n'),
               ('@b.py', 'from @c import make, value\nresult = value\nmissing = 1\n')]},
    {'name': 'dotted-import-and-underscore',
     'files': {'@p/__init__.py': 'from .s import S, _hidden\n',
               '@p/s.py': 'class S:\n    s1 = 1\n_hidden = 1\n_also = 2\nvisible = 3\n',
               '@a.py': 'import @p.s\nfrom @p.s import *\n'},
     'requests': [('assist', 'import @p.s\n@p.s.'), ('assist', 'import @a\n@a.'), ('assist', 'import @p.s\n@p.s.S.'),
                  ('assist', 'from @p import '), ('assist', 'from @a import *\n')],
     'edits': [('@p/s.py', 'class S:\n    s2 = 1\n_hidden = 1\nvisible2 = 3\n'),
               ('@p/t.py', 'class T:\n    t1 = 1\n'),
               ('@p/__init__.py', 'from .s import S, _hidden\nfrom . import t\n')]},
    # relative imports of one to three levels from buffers in several directories: inside a package, inside a
    # sub-package, in a second package, next to the packages (no parent package), beyond the top-level
    # package. No edit is needed: the answer must not depend on which requests were served before
    # (Project._norm_cache is keyed by directory).
    {'name': 'relative-imports-from-several-directories', 'order_only': True,
     'files': {'@pkg/__init__.py': '', '@pkg/a.py': 'class X:\n    from_pkg = 1\n',
               '@pkg/sub/__init__.py': '', '@pkg/sub/a.py': 'class X:\n    from_sub = 1\n',
               '@other/__init__.py': '', '@other/a.py': 'class X:\n    from_other = 1\n'},
     'requests': [('assist', 'from .a import X\nX.', '@pkg/b.py'),
                  ('assist', 'from .a import X\nX.', '@main.py'),
                  ('assist', 'from ..a import X\nX.', '@pkg/c.py'),
                  ('assist', 'from ..a import X\nX.', '@pkg/sub/e.py'),
                  ('assist', 'from .a import X\nX.', '@pkg/sub/e.py'),
                  ('assist', 'from .a import X\nX.', '@other/z.py'),
                  ('lint', 'from .a import *\nprint(X)\n', '@main.py'),
                  ('location', 'from ...a import X\nX', '@pkg/sub/e.py')],
     'edits': [('@pkg/a.py', 'class X:\n    from_pkg2 = 1\n'), ('@other/a.py', None)]},
    # a request that raises: go to definition through `from broken import x` where broken.py has a syntax
    # error (SyntaxError, for a fresh project too) after the star imports of the buffer were resolved; then an
    # edit two imports away; then ordinary requests. Nothing validated during the failed request may survive it.
    {'name': 'request-raises-on-a-module-with-a-syntax-error', 'finding': 'F89', 'finding_match': match_f89,
     'files': {'@mid.py': 'from @leaf import *\nimport @leaf\n', '@leaf.py': 'alpha = 1\n', '@broken.py': 'def f(:\n'},
     'requests': [('assist', 'from @mid import *\n'), ('assist', 'import @mid\n@mid.@leaf.'),
                  ('location', 'from @mid import *\nfrom @mid import *\nfrom @broken import x\nx'),
                  ('lint', 'from @mid import *\nprint(alpha, beta)\n')],
     'edits': [('@leaf.py', 'beta = 2\n'), ('@leaf.py', 'alpha = 1\nbeta = 2\n'), ('@broken.py', 'x = 1\n')],
     'extra_seqs': [[0, 2, -1, 0], [0, 1, 2, -1, 0, 1, 3, 2, -2, 3, 0]]},
    # the __init__.py of an ENCLOSING directory is created after relative imports below it were normalised:
    # pkg/sub is a package whose parent pkg is not one yet; dir/x.py does a relative import in a directory
    # that is not a package yet (module creation is inside the property; removing __init__.py is not).
    # Unfixed on the pinned tree = finding F70 (Project._norm_cache is never re-validated).
    {'name': 'enclosing-package-created-later', 'finding': 'F70', 'finding_match': match_f70,
     'files': {'@pkg/sub/__init__.py': '', '@pkg/sub/a.py': 'class X:\n    attr = 1\n',
               '@dir/x.py': 'from .y import Z\n', '@dir/y.py': 'class Z:\n    zattr = 1\n'},
     'requests': [('assist', 'from .a import X\nX.', '@pkg/sub/e.py'),
                  ('assist', 'import @dir.x\n@dir.x.Z.', '@main.py'),
                  ('assist', 'from . import a\na.X.', '@pkg/sub/e.py'),
                  ('assist', 'import @pkg.sub.a\n@pkg.sub.a.X.', '@main.py')],
     'edits': [('@pkg/__init__.py', ''), ('@dir/__init__.py', ''), ('@pkg/sub/a.py', None)]},
    # the FIRST request fails: a relative import from a buffer in a directory that is not a package yet
    # ('Not a package', the empty package path is memoised), nobody imports the package by its absolute
    # name; then the directory's own __init__.py is created - also one level down, a sub-directory of an
    # existing package. The fixed sequences run first in every tier.
    {'name': 'directory-becomes-a-package-after-a-failed-relative-import',
     'files': {'@dir/y.py': 'class Z:\n    zattr = 1\n', '@pkg2/__init__.py': '',
               '@pkg2/inner/y.py': 'class W:\n    wattr = 1\n'},
     'requests': [('assist', 'from .y import Z\nZ.', '@dir/e.py'),
                  ('assist', 'from . import y\ny.Z.', '@dir/e.py'),
                  ('assist', 'from .y import W\nW.', '@pkg2/inner/e.py'),
                  ('lint', 'from .y import *\nprint(Z)\n', '@dir/e.py'),
                  ('location', 'from ..inner.y import W\nW', '@pkg2/inner/e.py')],
     'edits': [('@dir/__init__.py', ''), ('@pkg2/inner/__init__.py', ''), ('@dir/y.py', None)],
     'extra_seqs': [[0, -1, 0], [1, -1, 1], [3, -1, 3], [2, -2, 2], [4, -2, 4], [0, 2, 3, -1, -2, 0, 2, 3, 4]]},
]


def run_raw(base, token, sc, seq):
    """seq: indices into requests (>= 0) and edits (< 0: -1 - k). Returns (long answers, fresh answers)."""
    from supp.server import Server
    from supp.project import Project
    root = tempfile.mkdtemp(prefix='c09raw_', dir=base)
    clock = [1500000000]

    def put(rel, text):
        fn = os.path.join(root, rel.replace('@', token))
        os.makedirs(os.path.dirname(fn), exist_ok=True)
        if text is not None:
            with open(fn, 'w') as f:
                f.write(text.replace('@', token))
        elif not os.path.exists(fn):
            return
        clock[0] += 7
        os.utime(fn, (clock[0], clock[0]))

    def server():
        s = Server(None)
        s.project = Project([root])
        return s

    def ask(srv, kind, src, relfile='@main.py'):
        src = src.replace('@', token)
        main = os.path.join(root, relfile.replace('@', token))
        lines = src.split('\n')
        pos = [len(lines), len(lines[-1])]
        try:
            if kind == 'assist':
                return ['names', sorted(n for n in srv.assist(src, pos, main)[1] if n not in BUILTIN_NAMES and not n.startswith('__'))]
            if kind == 'location':
                res = srv.location(src, pos, main)
                return ['loc', json.loads(json.dumps(res).replace(root, ''))]
            return ['lint', sorted(map(list, (r[:2] for r in srv.lint(src, main))))]
        except Exception as e:
            return ['exception', e.__class__.__name__]

    try:
        for rel, text in sc['files'].items():
            put(rel, text)
        long = server()
        la, fa = [], []
        for k in seq:
            if k < 0:
                put(*sc['edits'][-1 - k])
            else:
                la.append(ask(long, *sc['requests'][k]))
                fa.append(ask(server(), *sc['requests'][k]))
        return la, fa
    finally:
        shutil.rmtree(root, ignore_errors=True)


def fixed_status(ctx, fid):
    """status of a finding in known_findings.json ('fixed' / 'open' / None when not listed yet)"""
    for f in ctx.findings:
        if f.get('id') == fid:
            return f.get('status')
    return None


def _raw_worker(args):
    base, token, si, seq = args
    return run_raw(base, token, RAW_SCENARIOS[si], seq)


def raw_jobs(ctx, token, maxlen):
    jobs = []
    for si, sc in enumerate(RAW_SCENARIOS):
        for seq in sc.get('extra_seqs', ()):
            jobs.append((ctx.scratch, token, si, list(seq)))
        alphabet = list(range(len(sc['requests']))) + [-1 - k for k in range(len(sc['edits']))]
        for n in range(2, maxlen + 1):
            for seq in itertools.product(alphabet, repeat=n):
                if seq[-1] < 0:
                    continue
                edits = any(k < 0 for k in seq)
                if sc.get('order_only'):
                    # request order alone matters here; quick: edits only in the short sequences
                    if edits and n > 2 and not ctx.thorough():
                        continue
                elif not edits:
                    continue
                jobs.append((ctx.scratch, token, si, list(seq)))
    return jobs

# --------------------------------------------------------------------------------------------
# the check
# --------------------------------------------------------------------------------------------

PRELUDE = '''
Definition fuel := %d%%nat.
Definition case := (list op * list ans * list ans * list (modname * nat))%%type.
Definition check_case (c : case) : bool :=
  match c with
  | (ops, long, fresh, _) =>
      all_match (answers Repaired fuel ops) long && all_match (fresh_answers fuel ops) fresh
      && all_match (ref_answers fuel ops) fresh
  end.
Definition sensitive (c : case) : bool :=
  match c with
  | (ops, long, _, _) => negb (all_match (answers AsIs fuel ops) long)
  end.
(* the hypotheses of C09_acyclic hold at every request of the history, with R + 1 <= fuel *)
Definition acyclic (c : case) : bool :=
  match c with
  | (ops, _, _, ranks) =>
      let rk := fun m => match alookup mod_eqb ranks m with Some r => r | None => 0 end in
      let R := S (fold_right Nat.max 0 (map snd ranks)) in
      Nat.leb (R + 1) fuel &&
      forallb (fun o => match o with (d, _, _) => rankedb d rk && rank_boundb d rk R end)
              (snd (run Repaired 0 init_world ops))
  end.
''' % FUEL


def model_view(h, answers):
    """observed answers as the model states them. For go-to-definition on `import <missing>` the model
    says ImportError; should supp one day answer "no location" instead of raising (or, for
    `from <missing> import |`, propose the bare directory listing), that is the same fact for this property (the direct comparison long-lived vs fresh stays literal)."""
    reqs = [o[1] for o in h['ops'] if is_req(o)]
    def view(r, a):
        if r[0] == 'locimport' and a == ['loc', []]:
            return ['importerror']
        if r[0] == 'fromimport' and a[0] == 'missing':
            return ['importerror']      # same fact: the module cannot be found (listing is not cached state)
        return a
    return [view(r, a) for r, a in zip(reqs, answers)]


def case_term(h, la, fa):
    gl = [g_ans(a) for a in model_view(h, la)]
    gf = [g_ans(a) for a in model_view(h, fa)]
    if any(x is None for x in gl + gf):
        return None
    ranks = coq_list(['(%s, %d%%nat)' % (g_mod(m), r) for m, r in h.get('ranks', [])])
    return '(%s, %s, %s, %s)' % (coq_list([g_op(o) for o in h['ops']]), coq_list(gl), coq_list(gf), ranks)


def run_history(ctx, h, token):
    base = ctx if isinstance(ctx, str) else ctx.scratch
    r = Runner(token, packages=h.get('packages', ()), rel_ok=h.get('rel_ok', False), base=base,
               spelling=h.get('spelling', 'abs'))
    try:
        la, fa = r.run(h['ops'])
        cached = cached_modules(r.long)
    finally:
        r.close()
    return la, fa, cached


def _worker(args):
    base, token, h = args
    return run_history(base, h, token)


def bounded_map(ctx, fn, jobs):
    """fn over jobs in forked worker processes (results do not depend on scheduling), with a deadline: real
    code that hangs ends the check with an exception, which the entry point reports as a VIOLATION"""
    import multiprocessing
    deadline = ctx.pick(400, 1500)
    with multiprocessing.get_context('fork').Pool(max(1, min(NCPU // 2, 8))) as pool:
        try:
            return pool.map_async(fn, jobs, chunksize=16).get(timeout=deadline)
        except multiprocessing.TimeoutError:
            pool.terminate()
            raise RuntimeError('the real code did not finish %d histories within %d s (hang?)' % (len(jobs), deadline))


def run_all(ctx, histories, token):
    """real code on every history"""
    return bounded_map(ctx, _worker, [(ctx.scratch, token, h) for h in histories])


def outside_domain(h):
    """what, if anything, takes a history outside the quantifier domain stated by the property"""
    why = []
    if any(o[0] == 'X' for o in h['ops']):
        why.append('a request aborted inside check_changes by its caller (op X)')
    if h.get('spelling') == 'syspath':
        why.append('modules found on sys.path outside the project sources')
    return ', '.join(why)


def first_difference(la, fa):
    for i, (a, b) in enumerate(zip(la, fa)):
        if a != b:
            return i
    return None


def shrink(ctx, h, token):
    """greedy removal of operations while the long-lived and the fresh project still disagree"""
    ops = list(h['ops'])
    changed = True
    while changed:
        changed = False
        for i in range(len(ops) - 1, -1, -1):
            cand = dict(h, ops=ops[:i] + ops[i + 1:])
            la, fa, _ = run_history(ctx, cand, token)
            if first_difference(la, fa) is not None:
                ops = cand['ops']
                changed = True
    return dict(h, ops=ops)


def run(ctx):
    logging.getLogger('supp').setLevel(logging.CRITICAL)   # "Failed import of ..." is expected noise
    proof_ok = ctx.coq_props()
    cov = ctx.coverage
    cov['rule'] = ('histories = corpus + every sequence of length <= L over a fixed alphabet of 7 requests, 2 failing requests and 6 edits on a '
                   'fixed 5-module project + random histories (3-6 modules, 1-2 packages, acyclic import graph, up to 40 ops); '
                   'direct: every request answered by the long-lived project (via supp.server.Server) and by a new Project on '
                   'the same disk must be equal; (I)/(R): Model.Cache answers/fresh_answers evaluated in Coq on the same history '
                   'must equal the observed answers. non-trivial = request, then a change on disk, then a request')
    token = 'c09s%dx' % ctx.seed

    histories = []
    cdir = os.path.join(VERIF, 'corpus', 'C09')
    if os.path.isdir(cdir):
        for fn in sorted(os.listdir(cdir)):
            if fn.endswith('.json'):
                obj = json.load(open(os.path.join(cdir, fn)))
                obj['origin'] = 'corpus/' + fn
                for sp in ([obj['spelling']] if 'spelling' in obj else SPELLINGS):
                    histories.append(dict(obj, spelling=sp))      # every corpus history under every root spelling
    ncorpus = len(histories)

    setup, alphabet = exhaustive_alphabet()
    L = ctx.pick(3, 4)
    for n in range(1, L + 1):
        for seq in itertools.product(alphabet, repeat=n):
            if not is_req(seq[-1]):
                continue      # nothing is observed after the last edit: same as the shorter sequence
            if n > 2 and not ctx.thorough() and all(is_req(o) for o in seq):
                continue      # quick: request-only sequences (no change on disk) up to length 2
            histories.append({'ops': setup + list(seq), 'packages': [P], 'rel_ok': False, 'origin': 'exhaustive',
                              'ranks': EXH_RANKS, 'spelling': SPELLINGS[len(histories) % len(SPELLINGS)]})
    nexh = len(histories) - ncorpus

    for i in range(ctx.pick(250, 2500)):
        h = gen_history(ctx.rng, ctx.pick(25, 40))
        h['origin'] = 'random'
        histories.append(h)
    ctx.log('%d histories (%d corpus, %d exhaustive up to length %d, %d random)' % (
        len(histories), ncorpus, nexh, L, len(histories) - ncorpus - nexh))

    terms, kept = [], []
    ndirect = next_ = 0
    unrepresentable = []
    for h, (la, fa, cached) in zip(histories, run_all(ctx, histories, token)):
        nreq = len(la)
        key = json.dumps([h['ops'], h.get('spelling')])
        ctx.count(key, nontrivial=is_nontrivial(h['ops']))
        ctx.histogram('origin', h['origin'].split('/')[0])
        ctx.histogram('root_spelling', h.get('spelling', 'abs'))
        ctx.histogram('requests_per_history', min(nreq, 20))
        for o in h['ops']:
            if is_req(o):
                ctx.histogram('request_kind', ('failing-after-analysis:' if o[0] == 'X' else '')
                              + (o[1][0] if o[1][0] != 'main' else o[1][2][0]))
        for a in la:
            ctx.histogram('answer_kind', a[0] if a[0] != 'names' else ('names' if a[1] else 'names-empty'))
        ctx.sample({'ops': h['ops'][:8], 'answers': la[:4]}, limit=3)
        i = first_difference(la, fa)
        if i is not None:
            small = shrink(ctx, h, token) if ndirect + next_ < 6 else h
            if outside_domain(small):
                # the property's histories consist of create / rewrite / touch / request on a small project:
                # a request aborted by the caller and modules outside the project's sources are an extension
                next_ += 1
                sla, sfa, _ = run_history(ctx, small, token)
                j = first_difference(sla, sfa)
                ctx.extension_failure('long-lived project answers %r, a new project on the same disk answers %r '
                                      '(request #%d; history uses %s)' % (sla[j], sfa[j], j, outside_domain(small)),
                                      {'kind': 'direct', 'history': small, 'long': sla, 'fresh': sfa})
                continue
            ndirect += 1
            if ndirect <= 3:
                sla, sfa, _ = run_history(ctx, small, token)
                j = first_difference(sla, sfa)
                ctx.violation('long-lived project answers %r, a new project on the same disk answers %r (request #%d of the history)'
                              % (sla[j], sfa[j], j),
                              {'kind': 'direct', 'history': small, 'long': sla, 'fresh': sfa})
            continue
        t = case_term(h, la, fa)
        if t is None:
            unrepresentable.append((h, la))
            continue
        terms.append(t)
        kept.append((h, la, fa))
    cov['histories'] = len(histories)
    cov['direct_disagreements'] = ndirect
    if ndirect > 3:
        ctx.log('%d further histories with long-lived != fresh not reported individually' % (ndirect - 3))

    for h, la in unrepresentable[:3]:
        ctx.violation('a request produced an answer outside the model (unexpected exception or foreign name): %r'
                      % ([a for a in la if g_ans(a) is None][:2],),
                      {'kind': 'unmodelled-answer', 'history': h, 'long': la}, found_input=False)

    # ---- raw scenarios (direct only) ----------------------------------------------------------------------
    import multiprocessing
    rjobs = raw_jobs(ctx, token, ctx.pick(3, 4))
    rres = bounded_map(ctx, _raw_worker, rjobs)
    nraw_bad = nfinding = 0
    pending = []
    for (_b, _t, si, seq), (la, fa) in zip(rjobs, rres):
        ctx.count(('raw', si, tuple(seq)), nontrivial=True)
        ctx.histogram('origin', 'raw:' + RAW_SCENARIOS[si]['name'])
        for a in la:
            ctx.histogram('answer_kind', 'raw-' + a[0])
        i = first_difference(la, fa)
        sc = RAW_SCENARIOS[si]
        if i is not None and sc.get('finding') and fixed_status(ctx, sc['finding']) != 'fixed' \
                and sc['finding_match'](seq, la, fa, i):
            # a defect of the unchanged tree with a proposed fix (fixes/<id>_*.patch): attributed to it only by
            # the signature of that defect; KNOWN-FINDING is printed only while known_findings.json lists it as
            # open; once it is listed as fixed the same inputs are ordinary violations
            nfinding += 1
            if fixed_status(ctx, sc['finding']) == 'open':
                ctx.known_finding(sc['finding'], 'raw scenario %r %r: long-lived %r, fresh %r' % (sc['name'], seq, la[i], fa[i]))
            elif sc['finding'] not in pending:
                pending.append(sc['finding'])
                ctx.log('pending finding %s (fix proposed, not listed in known_findings.json yet): raw scenario %r %r: '
                        'long-lived %r, fresh %r' % (sc['finding'], sc['name'], seq, la[i], fa[i]))
            continue
        if i is not None:
            nraw_bad += 1
            if nraw_bad <= 2:
                ctx.violation('raw scenario %r: long-lived project answers %r, a new project on the same disk answers %r'
                              % (RAW_SCENARIOS[si]['name'], la[i], fa[i]),
                              {'kind': 'direct-raw', 'scenario': si, 'seq': seq, 'long': la, 'fresh': fa})
    cov['raw_histories'] = len(rjobs)
    cov['raw_direct_disagreements'] = nraw_bad
    cov['raw_histories_attributed_to_open_findings'] = nfinding
    cov['pending_findings_seen'] = pending
    ctx.log('raw scenarios: %d histories, %d disagreements' % (len(rjobs), nraw_bad))

    # ---- (I)/(R): the model evaluated inside Coq on the same histories ------------------------------
    ctx.log('real code done on %d histories; evaluating the model in Coq' % len(histories))
    shard = min(300, max(40, -(-len(terms) // NCPU)))   # about one round of parallel coqc jobs
    jobs = []
    for off in range(0, len(terms), shard):
        pre = PRELUDE + '\nDefinition cases__ : list case := %s.\n' % coq_list(terms[off:off + shard])
        jobs.append((['Model.Cache', 'Proofs.CacheProofs'], pre,
                     ['bad_idx check_case cases__', 'bad_idx (fun c => negb (sensitive c)) cases__',
                      'bad_idx acyclic cases__']))
    bad, sens, cyc = [], [], []
    for k, res in enumerate(ctx.coq_eval_many(jobs)):
        bad.extend(k * shard + i for i in res[0])
        sens.extend(k * shard + i for i in res[1])
        cyc.extend(k * shard + i for i in res[2])
    cyc = [i for i in cyc if kept[i][0].get('ranks')]
    cov['histories_in_the_domain_of_C09_acyclic'] = sum(1 for k in kept if k[0].get('ranks')) - len(cyc)
    if cyc:
        raise RuntimeError('generator produced a history whose disk is not acyclic for its declared ranks: %r'
                           % (kept[cyc[0]][0],))
    cov['correspondence_cases'] = len(terms)
    cov['correspondence_disagreements'] = len(bad)
    cov['histories_on_which_the_pinned_policy_model_is_stale'] = len(sens)
    for i in sens:
        ctx.histogram('pinned_policy_model_stale_by_origin', kept[i][0]['origin'].split('/')[0])
    ctx.log('model evaluated: %d disagreements' % len(bad))
    found_by_process = 0
    if bad and not ndirect:
        # the in-process "new Project" may share state with the long-lived one (process-wide caches):
        # search for a concrete failing input against a new interpreter
        for i in bad[:6]:
            h, la, fa = kept[i]
            la2, pa = run_history_new_process(ctx, h, token)
            j = first_difference(la2, pa)
            if j is not None:
                found_by_process += 1
                ctx.violation('long-lived project answers %r, a new project in a new interpreter on the same disk answers %r '
                              '(request #%d of the history); the in-process new Project agrees with the long-lived one, '
                              'so state survives outside the Project' % (la2[j], pa[j], j),
                              {'kind': 'direct-new-process', 'history': h, 'long': la2, 'new_process': pa})
                if found_by_process >= 3:
                    break
    if bad and not ndirect and not found_by_process:
        h, la, fa = kept[bad[0]]
        ctx.violation('correspondence Model.Cache (answers Repaired / fresh_answers) vs supp.project no longer checks '
                      '(%d of %d histories disagree); theorems C09_* are about a model that is not the code' % (len(bad), len(terms)),
                      {'kind': 'correspondence', 'theorem': 'C09_cache_transparent / correspondence Model.Cache',
                       'history': h, 'long': la, 'fresh': fa}, found_input=False)
    if not proof_ok:
        ctx.violation('proof obligations of Props/C09.v not discharged: %s' % (ctx.notes,),
                      {'kind': 'proof', 'theorem': 'Props/C09.v', 'notes': ctx.notes,
                       'build_error': cov.get('build_error')}, found_input=False)


def replay(ctx, obj):
    logging.getLogger('supp').setLevel(logging.CRITICAL)
    r = obj['replay']
    if r.get('kind') == 'direct-raw':
        la, fa = run_raw(ctx.scratch, 'c09replayx', RAW_SCENARIOS[r['scenario']], r['seq'])
        for i, (a, b) in enumerate(zip(la, fa)):
            print('request #%d long-lived=%r fresh=%r %s' % (i, a, b, '' if a == b else '   <-- DIFFERENT'))
        return 1 if first_difference(la, fa) is not None else 0
    h = r.get('history')
    if not h:
        print(obj.get('what'))
        return 1
    if r.get('kind') == 'direct-new-process':
        la, fa = run_history_new_process(ctx, h, 'c09replayx')
    else:
        la, fa, cached = run_history(ctx, h, 'c09replayx')
    for i, (a, b) in enumerate(zip(la, fa)):
        print('request #%d long-lived=%r fresh=%r %s' % (i, a, b, '' if a == b else '   <-- DIFFERENT'))
    return 1 if first_difference(la, fa) is not None else 0
