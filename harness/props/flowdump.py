"""Shared helpers of C04 / C13 / C17: analysing a source with the real supp, dumping the real
flow graph (scope._all_flows) as plain data, a Python mirror of the Coq model
(Model/FlowGraph.v, Model/Memo.v) used by the search engines, the Gallina printer of graphs and
queries, the program generator and the layout-only printer.

The dumper reads private attributes of supp (Flow._names, Flow.parents, LoopFlow.parent,
Scope.locals, SourceScope._all_flows/_global_names, scope.flow).  It fails closed
(DumpError) when one of them is missing or has an unexpected shape; callers then fall back to the
API-level comparison (lint / assist / location answers).
"""
from __future__ import annotations

import ast
import os

from common import coq_list, coq_N


class DumpError(Exception):
    pass


# --------------------------------------------------------------------------------------------
# analysing a source with the real code
# --------------------------------------------------------------------------------------------

_PROJECT = [None]


def project(root=None):
    from supp.project import Project
    if root is not None:
        return Project([root])
    if _PROJECT[0] is None:
        import tempfile
        d = tempfile.mkdtemp(prefix='supp_verif_proj_')
        _PROJECT[0] = Project([d])
    return _PROJECT[0]


def analyse(text, filename='m.py', proj=None):
    """extract_scope of the real code on `text`. Returns (source, scope)."""
    from supp.util import Source
    from supp.nast import extract_scope
    src = Source(text, filename)
    src.tree
    scope = extract_scope(src, proj or project())
    return src, scope


def read_sites(src):
    """ast.Name Load nodes that supp attached a flow to, in get_name_usages (AST) order."""
    from supp.util import get_name_usages
    return [n for n in get_name_usages(src.tree) if hasattr(n, 'flow')]


# --------------------------------------------------------------------------------------------
# dumping the real graph
# --------------------------------------------------------------------------------------------

def _need(obj, attr):
    try:
        return getattr(obj, attr)
    except AttributeError:
        raise DumpError('%s has no attribute %r (supp internals changed)' % (type(obj).__name__, attr))


class Graph(object):
    """Plain-data image of one analysed module.

    flows[i] = {'own': [bid...], 'parents': [('D', j) | ('L', l)], 'chain': [j...], 'hide': None | [nid...],
                'hint': str}
    binds[b] = {'name': nid, 'loc': (l, c), 'decl': (l, c), 'kind': str}
    loops[l] = target flow index
    names    = interning table  str -> nid (1-based, positive)
    Two pseudo flows are appended: `builtins` (own = builtin names, no parents, empty chain) and
    `globals` (own = SourceScope._global_names)."""

    def __init__(self):
        self.flows = []
        self.binds = []
        self.loops = []
        self.names = {}
        self.flow_index = {}     # id(Flow) -> index
        self.bind_index = {}     # id(Name) -> bid
        self.objs = []           # keep objects alive (ids are used as keys)
        self.levels = []         # scope nesting depth of every flow (pseudo flows: 0)

    def nid(self, s):
        s = str(s)
        if s not in self.names:
            self.names[s] = len(self.names) + 1
        return self.names[s]

    def bid(self, nameobj):
        k = id(nameobj)
        if k not in self.bind_index:
            loc = _need(nameobj, 'location')
            decl = getattr(nameobj, 'declared_at', (0, 0))
            if not (isinstance(loc, tuple) and len(loc) == 2):
                raise DumpError('location of %r is not a pair' % (nameobj,))
            self.bind_index[k] = len(self.binds)
            self.objs.append(nameobj)
            self.binds.append({'name': self.nid(_need(nameobj, 'name')), 'loc': tuple(loc),
                               'decl': tuple(decl), 'kind': type(nameobj).__name__})
        return self.bind_index[k]

    def alt_of(self, obj):
        """identity of one alternative as seen by the model: 'U' or a bid (None if unknown object)"""
        from supp.name import UndefinedName
        if type(obj) is UndefinedName:
            return 'U'
        return self.bind_index.get(id(obj))


def dump_graph(scope):
    from supp import scope as sc
    from supp.name import MultiName
    g = Graph()
    flows = _need(scope, '_all_flows')
    if not isinstance(flows, list) or not flows or flows[0] is not _need(scope, 'flow') and False:
        raise DumpError('_all_flows is not a non-empty list')
    for i, f in enumerate(flows):
        if type(f) is not sc.Flow:
            raise DumpError('unexpected flow object %r' % type(f))
        g.flow_index[id(f)] = i
    n = len(flows)
    B, G = n, n + 1
    loop_ids = {}
    # builtins are interned first: the same bids / name ids in every graph of one run
    bnames = _need(sc.builtin_scope, 'names')
    bown = [g.bid(bnames[k]) for k in sorted(bnames)]
    g.nbuiltin = len(bown)

    def scope_chain(pscope):
        # names of a scope object as a chain of flows (first match wins), cf. Scope.names
        hops = 0
        while isinstance(pscope, sc.ClassScope):
            pscope = _need(pscope, 'parent')
            hops += 1
            if hops > 10000:
                raise DumpError('scope parent chain does not end')
        if isinstance(pscope, sc.SourceScope):
            if pscope is not scope:
                raise DumpError('foreign SourceScope in scope chain')
            return [g.flow_index[id(_need(pscope, 'flow'))], G]
        if isinstance(pscope, sc.FuncScope):
            return [g.flow_index[id(_need(pscope, 'flow'))]]
        if isinstance(pscope, sc.BuiltinScope):
            return [B]
        raise DumpError('unknown scope kind %r' % type(pscope))

    for i, f in enumerate(flows):
        own = []
        names = _need(f, '_names')
        for nm in names:
            if isinstance(nm, MultiName):
                raise DumpError('MultiName among own names')
            own.append(g.bid(nm))
        parents = []
        for p in _need(f, 'parents'):
            if type(p) is sc.LoopFlow:
                t = _need(p, 'parent')
                if id(t) not in g.flow_index:
                    raise DumpError('loop target outside _all_flows')
                if id(p) not in loop_ids:
                    loop_ids[id(p)] = len(g.loops)
                    g.objs.append(p)
                    g.loops.append(g.flow_index[id(t)])
                parents.append(('L', loop_ids[id(p)]))
            elif type(p) is sc.Flow:
                if id(p) not in g.flow_index:
                    raise DumpError('parent outside _all_flows')
                parents.append(('D', g.flow_index[id(p)]))
            else:
                raise DumpError('unexpected parent %r' % type(p))
        if len(parents) == 1 and parents[0][0] == 'L':
            raise DumpError('a loop as the only parent of a flow')
        fs = _need(f, 'scope')
        chain, hide = [], None
        if not parents:
            # scope entry rule, scope.py Flow._get_parent_names (no parents):
            #   module   MergedDict(top._global_names, builtin names)
            #   class    everything the enclosing scope sees
            #   function the enclosing scope's names minus this scope's locals
            # _declared_globals (a scope with `global` declarations) is not modelled: fail closed
            pscope = _need(fs, 'parent')
            if pscope:
                if fs is scope:
                    chain = [G] + scope_chain(pscope)
                else:
                    if _need(fs, 'globals'):
                        raise DumpError('scope with global declarations (_declared_globals is not modelled)')
                    chain = scope_chain(pscope)
                    if not isinstance(fs, sc.ClassScope):
                        hide = sorted(g.nid(x) for x in _need(fs, 'locals'))
        depth, sc_ = 0, fs
        while isinstance(sc_, sc.Scope):
            depth += 1
            sc_ = _need(sc_, 'parent')
            if depth > 10000:
                raise DumpError('scope parent chain does not end')
        g.levels.append(depth)
        g.flows.append({'own': own, 'parents': parents, 'chain': chain, 'hide': hide,
                        'hint': getattr(f, 'hint', '?'),
                        'scope_kind': type(fs).__name__})
    # Flow._closes must be what the model derives from the loop table (first loop targeting the flow)
    inv_loop = {v: k for k, v in loop_ids.items()}
    for i, f in enumerate(flows):
        c = _need(f, '_closes')
        want = closes_of(g, i)
        have = None if c is None else loop_ids.get(id(c), -1)
        if have != want:
            raise DumpError('Flow._closes of flow %d is not the first loop that targets it' % i)
    # pseudo flows
    g.flows.append({'own': bown, 'parents': [], 'chain': [], 'hide': None, 'hint': 'builtins', 'scope_kind': 'BuiltinScope'})
    gl = _need(scope, '_global_names')
    gown = [g.bid(gl[k]) for k in sorted(gl)]
    gown.sort(key=lambda b: g.binds[b]['loc'])      # one binding per name: the order is immaterial
    g.flows.append({'own': gown, 'parents': [], 'chain': [], 'hide': None, 'hint': 'globals', 'scope_kind': 'globals'})
    g.levels += [0, 0]
    g.nreal = n
    return g


# --------------------------------------------------------------------------------------------
# Python mirror of the Coq model (FlowGraph.v: pure; Memo.v: memo_deps / memo_as_is)
# an env is a dict nid -> tuple of alts, alts = 'U' | bid, normalised by `norm`
# --------------------------------------------------------------------------------------------

def alt_key(g, a):
    if a == 'U':
        return (0, (0, 0), (0, 0))
    b = g.binds[a]
    return (1, b['decl'], b['loc'])


def norm(g, alts):
    seen = []
    for a in alts:
        if a not in seen:
            seen.append(a)
    return tuple(sorted(seen, key=lambda a: alt_key(g, a)))     # stable: insertion sort in Coq


def own_env(g, f, upto=None):
    own = g.flows[f]['own']
    if upto is not None:
        own = own[:upto]
    return {g.binds[b]['name']: (b,) for b in own}       # last wins


def bisect_idx(g, f, loc):
    own = g.flows[f]['own']
    lo, hi = 0, len(own)
    while lo < hi:                       # bisect_right on locations
        mid = (lo + hi) // 2
        if tuple(loc) < g.binds[own[mid]]['loc']:
            hi = mid
        else:
            lo = mid + 1
    return lo


def join_envs(g, envs):
    keys = []
    for e in envs:
        for k in e:
            if k not in keys:
                keys.append(k)
    res = {}
    for k in keys:
        row = []
        for e in envs:
            row.extend(e.get(k, ('U',)))
        res[k] = norm(g, row)
    return res


def over(e1, e2):
    r = dict(e2)
    r.update(e1)
    return r


def closes_of(g, f):
    """Flow._closes as the model derives it: the first loop whose target is f"""
    for l, t in enumerate(g.loops):
        if t == f:
            return l
    return None


class Pure(object):
    """names_pure: no memo (exponential on diamonds; use only on small graphs)."""

    def __init__(self, g, limit=2000000):
        self.g = g
        self.steps = 0
        self.limit = limit

    def names(self, f, R):
        self.steps += 1
        if self.steps > self.limit:
            raise RuntimeError('pure evaluation too large')
        l = closes_of(self.g, f)
        if l is not None and l not in R:          # Flow.names: a flow closing a loop answers with the loop
            return self.names(f, R | {l})
        return over(own_env(self.g, f), self.parent_names(f, R))

    def parent_names(self, f, R):
        fl = self.g.flows[f]
        if fl['parents']:
            envs = []
            for kind, x in fl['parents']:
                if kind == 'D':
                    envs.append(self.names(x, R))
                elif x not in R:
                    envs.append(self.names(self.g.loops[x], R | {x}))
            return join_envs(self.g, envs)
        e = {}
        for c in reversed(fl['chain']):
            e = over(self.names(c, R), e)
        if fl['hide'] is not None:
            e = {k: v for k, v in e.items() if k not in fl['hide']}
        return e

    def query(self, f, loc, nid):
        idx = bisect_idx(self.g, f, loc)
        return over(own_env(self.g, f, idx), self.parent_names(f, frozenset())).get(nid)


class MemoDeps(object):
    """loop_memo of scope.py (policy of commit 0211a17): permanent layer + one layer per resolution
    in progress, looked up outside-in; a value is stored in the layer of the innermost loop it
    depends on; a flow that closes a loop answers with the loop."""

    def __init__(self, g):
        self.g = g
        self.memo = [{}]
        self.stack = [None]
        self.deps = [set()]
        self.resolving = set()

    def call(self, key, func):
        for m in self.memo:
            if key in m:
                v, d = m[key]
                self.deps[-1] |= d
                return v
        self.deps.append(set())
        v = func()
        d = self.deps.pop()
        self.deps[-1] |= d
        try:
            layer = max([self.stack.index(l) for l in d] or [0])
        except ValueError:
            return v
        self.memo[layer][key] = (v, frozenset(d))
        return v

    def names(self, f):
        l = closes_of(self.g, f)
        if l is not None and l not in self.resolving:
            return self.loop(l)
        return self.call(('n', f), lambda: over(own_env(self.g, f), self.parent_names(f)))

    def loop(self, l):
        if l in self.resolving:
            self.deps[-1].add(l)
            return None

        def resolve():
            self.resolving.add(l)
            self.memo.append({})
            self.stack.append(l)
            v = self.names(self.g.loops[l])
            self.stack.pop()
            self.memo.pop()
            self.deps[-1].discard(l)
            self.resolving.discard(l)
            return v
        return self.call(('l', l), resolve)

    def parent_names(self, f):
        def body():
            fl = self.g.flows[f]
            if fl['parents']:
                envs = []
                for kind, x in fl['parents']:
                    v = self.names(x) if kind == 'D' else self.loop(x)
                    if v is not None:
                        envs.append(v)
                return join_envs(self.g, envs)
            e = {}
            for c in reversed(fl['chain']):
                e = over(self.names(c), e)
            if fl['hide'] is not None:
                e = {k: v for k, v in e.items() if k not in fl['hide']}
            return e
        return self.call(('p', f), body)

    def query(self, f, loc, nid):
        idx = bisect_idx(self.g, f, loc)
        return over(own_env(self.g, f, idx), self.parent_names(f)).get(nid)


def real_answer(g, node):
    """flow.names_at(np(node)).get(id) of the real code as model alternatives (order as returned)."""
    from supp.name import MultiName
    from supp.util import np
    names = node.flow.names_at(np(node))
    v = names.get(node.id)
    if v is None:
        return None
    if type(v) is MultiName:
        return [g.alt_of(a) for a in v.alt_names]
    return [g.alt_of(v)]


# --------------------------------------------------------------------------------------------
# Gallina printer
# --------------------------------------------------------------------------------------------

def coq_pos(n):
    return '%d%%positive' % n


def coq_loc(loc):
    return '(%s, %s)' % (coq_N(loc[0]), coq_N(loc[1]))


def coq_bid(b):
    return coq_pos(b + 1)


def graph_term(g):
    """mkGraph flows loops : Model.FlowGraph.graph"""
    fl = []
    for i, f in enumerate(g.flows):
        own = own_term(g, i, f['own'])
        par = coq_list([('Direct %d' % x) if k == 'D' else ('Loop %d' % x) for k, x in f['parents']])
        chain = coq_list(['%d' % c for c in f['chain']])
        hide = 'None' if f['hide'] is None else '(Some %s)' % coq_list([coq_pos(h) for h in f['hide']])
        fl.append('mkFlow %s %s (%s : list nat) %s' % (own, par, chain, hide))
    return '(mkGraph %s (%s : list nat))' % (coq_list(fl), coq_list(['%d' % t for t in g.loops]))


def own_term(g, i, own):
    if i == g.nreal and own == list(range(g.nbuiltin)):
        return 'builtins_own'
    return coq_list(['mkBind %s %s' % (coq_pos(g.binds[b]['name']), coq_bid(b)) for b in own])


def builtins_prelude(g=None):
    """Definitions shared by all cases of a run: the builtins pseudo flow (same bids in every graph)."""
    if g is None:
        _s, sc_ = analyse('pass\n')
        g = dump_graph(sc_)
    nb = g.nbuiltin
    own = coq_list(['mkBind %s %s' % (coq_pos(g.binds[b]['name']), coq_bid(b)) for b in range(nb)])
    keys = coq_list(['(%s, (%s, %s))' % (coq_bid(b), coq_loc(g.binds[b]['loc']), coq_loc(g.binds[b]['decl']))
                     for b in range(nb)])
    return ('Definition builtins_own : list bind := %s.\n'
            'Definition builtins_keys : list (bid * (pos * pos)) := %s.\n'
            'Definition builtins_ids : list bid := map b_id builtins_own.\n' % (own, keys))


def keys_term(g, only=None):
    """list (bid * (pos * pos)) of the bindings that occur in own lists"""
    used = sorted({b for f in g.flows for b in f['own']}) if only is None else only
    if used[:g.nbuiltin] == list(range(g.nbuiltin)):
        rest = used[g.nbuiltin:]
        return '(builtins_keys ++ %s)' % coq_list([
            '(%s, (%s, %s))' % (coq_bid(b), coq_loc(g.binds[b]['loc']), coq_loc(g.binds[b]['decl'])) for b in rest])
    return coq_list(['(%s, (%s, %s))' % (coq_bid(b), coq_loc(g.binds[b]['loc']), coq_loc(g.binds[b]['decl']))
                     for b in used])


def alts_term(ans):
    if ans is None:
        return 'None'
    return '(Some %s)' % coq_list(['AUndef' if a == 'U' else '(ADef %s)' % coq_bid(a) for a in ans])


def query_term(f, loc, nid):
    return '(%d, %s, %s)' % (f, coq_loc(loc), coq_pos(nid))


GRAPH_PRELUDE_BODY = '''
Definition ans_ok (setwise : bool) (a : option (option (list alt))) (e : option (list alt)) : bool :=
  match a with
  | Some r => if setwise then row_set_eqb r e else row_eqb r e
  | None => false
  end.
Fixpoint zip_ok (setwise : bool) (a : list (option (option (list alt)))) (e : list (option (list alt))) : bool :=
  match a, e with
  | [], [] => true
  | x :: a', y :: e' => ans_ok setwise x y && zip_ok setwise a' e'
  | _, _ => false
  end.
(* one case: graph, scope levels, positions, a history of queries with the answers the real code gave *)
Definition hcase := (graph * list nat * list (bid * (pos * pos)) * list (query * option (list alt)))%type.
(* hypothesis of C04_memo_transparent, evaluated on every dumped graph *)
Definition check_wf (c : hcase) : bool := let '(g, lvs, kl, qs) := c in graph_wfb g lvs.
Definition check_history (setwise : bool) (c : hcase) : bool :=
  let '(g, lvs, kl, qs) := c in
  let km := kmap_of_list kl in
  own_sortedb km g &&
  zip_ok setwise (answers false g km (default_fuel g) init_state (map fst qs)) (map snd qs).
Definition check_wf_history (setwise : bool) (c : hcase) : bool := check_wf c && check_history setwise c.
(* the same queries, each on a fresh state and without memo (small graphs only) *)
Definition check_pure (setwise : bool) (c : hcase) : bool :=
  let '(g, lvs, kl, qs) := c in
  let km := kmap_of_list kl in
  forallb (fun qe => ans_ok setwise (query_pure g km (default_fuel g) (fst qe)) (snd qe)) qs.
'''


def shards(terms, max_bytes, max_cases=400):
    """split a list of Gallina terms into chunks of bounded text size: yields (offset, chunk)"""
    off, cur, size = 0, [], 0
    for i, t in enumerate(terms):
        if cur and (size + len(t) > max_bytes or len(cur) >= max_cases):
            yield off, cur
            off, cur, size = i, [], 0
        cur.append(t)
        size += len(t)
    if cur:
        yield off, cur


def run_sharded(ctx, imports, prelude, check_fn, terms, max_bytes=200000):
    """like ctx.run_cases, sharded by text size"""
    jobs, offs = [], []
    for off, chunk in shards(terms, max(max_bytes, sum(map(len, terms)) // 16 + 1)):
        jobs.append((imports, prelude + '\nDefinition cases__ := %s.\n' % coq_list(chunk), ['bad_idx (%s) cases__' % check_fn]))
        offs.append(off)
    bad = []
    for off, res in zip(offs, ctx.coq_eval_many(jobs, timeout=800)):
        bad.extend(off + i for i in res[0])
    return sorted(bad)


def graph_prelude():
    return builtins_prelude() + GRAPH_PRELUDE_BODY


def history_case(g, hist):
    """hist = [(flow index, loc, nid, answer)]"""
    qs = coq_list(['(%s, %s)' % (query_term(f, loc, n), alts_term(a)) for f, loc, n, a in hist])
    return '(%s, %s, %s, %s)' % (graph_term(g), levels_term(g), keys_term(g), qs)


def levels_term(g):
    return '(%s : list nat)' % coq_list(['%d' % x for x in g.levels])


# --------------------------------------------------------------------------------------------
# creation order of bindings (Flow.add_name calls): identities that survive a re-analysis / re-layout
# --------------------------------------------------------------------------------------------

def analyse_recorded(text, filename='m.py', proj=None):
    """analyse() while recording the sequence of Flow.add_name calls.
    Returns (src, scope, created) with created = [(Flow, Name)] in call order."""
    from supp import scope as sc
    try:
        orig = sc.Flow.add_name
    except AttributeError:
        raise DumpError('Flow.add_name is gone')
    created = []

    def rec(self, name, *a, **kw):
        created.append((self, name))
        return orig(self, name, *a, **kw)

    sc.Flow.add_name = rec
    try:
        src, scope = analyse(text, filename, proj)
    finally:
        sc.Flow.add_name = orig
    return src, scope, created


def creation_ids(g, created):
    """bid -> creation index (bindings that reached an own list), plus builtins by name"""
    cid = {}
    for k, (_f, nm) in enumerate(created):
        b = g.bind_index.get(id(nm))
        if b is not None and b not in cid:
            cid[b] = k
    return cid


def canon_alt(g, cid, a, inv_names=None):
    """identity of an alternative that is comparable between two analyses of the same AST"""
    if a == 'U':
        return 'U'
    if a is None:
        return '?'
    if a in cid:
        return cid[a]
    b = g.binds[a]
    inv = inv_names if inv_names is not None else {v: k for k, v in g.names.items()}
    return '%s:%s' % (b['kind'], inv[b['name']])


def sgraph_term(g, created):
    """(list sflow, loops): flows with their bindings in creation order"""
    per_flow = {}
    seen = set()
    for f, nm in created:
        b = g.bind_index.get(id(nm))
        fi = g.flow_index.get(id(f))
        if b is None or fi is None or b in seen:
            continue
        if b not in g.flows[fi]['own']:
            continue
        seen.add(b)
        per_flow.setdefault(fi, []).append(b)
    sfl = []
    for i, f in enumerate(g.flows):
        cr = per_flow.get(i, [])
        if i >= g.nreal:
            cr = list(f['own'])
        if sorted(cr) != sorted(f['own']):
            raise DumpError('own bindings of flow %d are not the recorded add_name calls' % i)
        own = own_term(g, i, cr)
        par = coq_list([('Direct %d' % x) if k == 'D' else ('Loop %d' % x) for k, x in f['parents']])
        chain = coq_list(['%d' % c for c in f['chain']])
        hide = 'None' if f['hide'] is None else '(Some %s)' % coq_list([coq_pos(h) for h in f['hide']])
        sfl.append('mkSFlow %s %s (%s : list nat) %s' % (own, par, chain, hide))
    return coq_list(sfl), '(%s : list nat)' % coq_list(['%d' % t for t in g.loops])


# --------------------------------------------------------------------------------------------
# program generator
# --------------------------------------------------------------------------------------------

NAMES = ['a', 'b', 'c', 'w', 'x', 'y']
FUNCS = ['f', 'g', 'h']
MODS = ['os', 'sys', 're']


class Gen(object):
    """Small programs rich in branches, loops (with else), try, with, nested scopes,
    comprehensions, walrus and reassignments inside loops (loop-carried names)."""

    def __init__(self, rng, size=12, max_depth=3):
        self.rng = rng
        self.budget = size
        self.max_depth = max_depth
        self.kinds = {}

    def name(self):
        return self.rng.choice(NAMES)

    def expr(self, depth=0):
        r = self.rng.random()
        if r < 0.35:
            return self.name()
        if r < 0.44:
            return str(self.rng.randint(0, 9))
        if r < 0.5:
            self.kind('multiline-str')
            return self.rng.choice(["'<ul>\\n%s</ul>'", "'a\\nb\\n'", "'first line\\n  second'"])
        if r < 0.62:
            return '%s(%s)' % (self.rng.choice(FUNCS), ', '.join(self.expr(depth + 1) for _ in range(self.rng.randint(0, 2))))
        if r < 0.68 and depth < 2:
            self.kind('starcall')
            return '%s(%s=%s, *%s)' % (self.rng.choice(FUNCS), self.name(), self.expr(depth + 1), self.name())
        if r < 0.76 and depth < 2:
            self.kind('comp')
            v = self.name()
            return '[%s for %s in %s%s]' % (self.expr(depth + 1), v, self.name(),
                                            (' if ' + self.expr(depth + 1)) if self.rng.random() < 0.4 else '')
        if r < 0.82 and depth < 2:
            self.kind('walrus')
            return '(%s := %s)' % (self.name(), self.expr(depth + 1))
        if r < 0.88 and depth < 2:
            self.kind('lambda')
            return '(lambda %s: %s)' % (self.name(), self.expr(depth + 1))
        if r < 0.94 and depth < 2:
            return '(%s, %s)' % (self.expr(depth + 1), self.expr(depth + 1))
        return '%s + %s' % (self.name(), self.name()) if depth < 2 else self.name()

    def kind(self, k):
        self.kinds[k] = self.kinds.get(k, 0) + 1

    def simple(self, in_func):
        r = self.rng.random()
        if r < 0.45:
            self.kind('assign')
            tgt = self.name()
            if self.rng.random() < 0.15:
                tgt = '%s, %s' % (self.name(), self.name())
                return '%s = %s, %s' % (tgt, self.expr(), self.expr())
            if self.rng.random() < 0.1:
                return '%s = %s = %s' % (self.name(), tgt, self.expr())
            return '%s = %s' % (tgt, self.expr())
        if r < 0.75:
            self.kind('read')
            return 'print(%s)' % ', '.join(self.name() for _ in range(self.rng.randint(1, 2)))
        if r < 0.8:
            self.kind('import')
            m = self.rng.choice(MODS)
            m2 = self.rng.choice(MODS)
            return self.rng.choice(['import %s' % m, 'import %s as %s' % (m, self.name()), 'from %s import %s' % (m, self.name()),
                                    'import %s, %s as %s' % (m, m2, self.name()),
                                    'from %s import %s, %s as %s' % (m, self.name(), self.name(), self.name()),
                                    'from %s import %s, %s, %s' % (m, self.name(), self.name(), m),
                                    'from %s import %s, %s, %s, %s' % (m, self.name(), m2, self.name(), m)])
        if r < 0.85:
            return 'pass'
        if r < 0.9 and in_func:
            self.kind('return')
            return 'return %s' % self.expr()
        if r < 0.93:
            self.kind('annassign')
            return '%s: int = %s' % (self.name(), self.expr())
        self.kind('read')
        return self.expr()

    def block(self, depth, in_func, in_loop, indent):
        n = self.rng.randint(1, 3 if depth else 5)
        out = []
        for _ in range(n):
            out.extend(self.stmt(depth, in_func, in_loop, indent))
        return out

    def stmt(self, depth, in_func, in_loop, indent):
        pad = '    ' * indent
        self.budget -= 1
        if depth >= self.max_depth or self.budget <= 0 or self.rng.random() < 0.45:
            if in_loop and self.rng.random() < 0.06:
                return [pad + self.rng.choice(['break', 'continue'])]
            return [pad + self.simple(in_func)]
        r = self.rng.random()
        sub = lambda fl=in_func, lp=in_loop: self.block(depth + 1, fl, lp, indent + 1)
        if r < 0.28:
            self.kind('if')
            out = [pad + 'if %s:' % self.expr()] + sub()
            k = self.rng.random()
            if k < 0.3:
                out += [pad + 'elif %s:' % self.expr()] + sub()
            if k < 0.65:
                out += [pad + 'else:'] + sub()
            return out
        if r < 0.48:
            self.kind('for')
            tgt = self.name() if self.rng.random() < 0.8 else '%s, %s' % (self.name(), self.name())
            out = [pad + 'for %s in %s:' % (tgt, self.expr())] + sub(in_func, True)
            if self.rng.random() < 0.3:
                self.kind('loop-else')
                out += [pad + 'else:'] + sub()
            return out
        if r < 0.6:
            self.kind('while')
            out = [pad + 'while %s:' % self.expr()] + sub(in_func, True)
            if self.rng.random() < 0.3:
                self.kind('loop-else')
                out += [pad + 'else:'] + sub()
            return out
        if r < 0.74:
            self.kind('try')
            out = [pad + 'try:'] + sub()
            k = self.rng.random()
            if k < 0.8:
                for _ in range(self.rng.randint(1, 2)):
                    h = self.rng.choice(['except:', 'except E:', 'except E as %s:' % self.name()])
                    out += [pad + h] + sub()
                    if h == 'except:':
                        break
                if self.rng.random() < 0.3:
                    out += [pad + 'else:'] + sub()
            if k >= 0.8 or self.rng.random() < 0.3:
                out += [pad + 'finally:'] + sub()
            return out
        if r < 0.8:
            self.kind('with')
            return [pad + 'with %s as %s:' % (self.expr(), self.name())] + sub()
        if r < 0.84:
            # a body that opens with a decorated def/class whose decorator reads a name bound by the
            # enclosing construct (parameter, loop target, with target)
            self.kind('decorated-first')
            v = self.name()
            deco = '@%s(%s, %s)' % (self.rng.choice(FUNCS), v, self.expr(2))
            inner = self.rng.choice(['def %s():' % self.rng.choice(FUNCS), 'class %s(object):' % self.rng.choice(['A', 'B'])])
            pad1 = '    ' * (indent + 1)
            head = self.rng.choice(['def %s(%s, %s):' % (self.rng.choice(FUNCS), v, self.name()),
                                    'for %s in %s:' % (v, self.name()), 'with %s as %s:' % (self.name(), v)])
            body = [pad1 + deco, pad1 + inner] + self.block(depth + 2, True, False, indent + 2)
            return [pad + head] + body + [pad1 + self.simple(False)]
        if r < 0.93:
            self.kind('def')
            args = ', '.join(self.rng.sample(NAMES, self.rng.randint(0, 2)))
            dec = [pad + '@' + self.rng.choice(FUNCS)] if self.rng.random() < 0.15 else []
            return dec + [pad + 'def %s(%s):' % (self.rng.choice(FUNCS), args)] + sub(True, False)
        self.kind('class')
        return [pad + 'class %s(%s):' % (self.rng.choice(['A', 'B']), self.rng.choice(['', 'object', 'A']))] + sub(False, False)

    def program(self):
        lines = []
        while self.budget > 0:
            lines.extend(self.stmt(0, False, False, 0))
        return '\n'.join(lines) + '\n'


def kw_star_walrus(tree):
    """True when some call has a keyword argument written before a starred argument and one of
    the two contains a walrus: CPython evaluates (and the AST lists) the starred argument first, so
    textual order and AST order of a binding and a read differ (known finding C13-KW-STAR-WALRUS)."""
    for n in ast.walk(tree):
        if isinstance(n, ast.Call):
            stars = [a for a in n.args if isinstance(a, ast.Starred)]
            if not stars or not n.keywords:
                continue
            kpos = [(k.value.lineno, k.value.col_offset) for k in n.keywords]
            spos = [(a.lineno, a.col_offset) for a in stars]
            if min(kpos) < max(spos):
                for part in list(n.keywords) + stars:
                    if any(isinstance(x, ast.NamedExpr) for x in ast.walk(part)):
                        return True
    return False


def kw_before_star(tree):
    """a call with a keyword argument written before a starred argument: text order and AST order of the
    arguments differ, ast.unparse swaps them (open finding F74 for completion at the end of the value)"""
    for n in ast.walk(tree):
        if isinstance(n, ast.Call) and n.keywords:
            stars = [a for a in n.args if isinstance(a, ast.Starred)]
            if stars and min((k.value.lineno, k.value.col_offset) for k in n.keywords) < max((a.lineno, a.col_offset) for a in stars):
                return True
    return False


def gen_program(rng, size=None, allow_kw_star_walrus=False):
    """(source, construct histogram); programs that do not parse or that contain the
    kw-before-star-with-walrus construct (open finding of C13) are regenerated"""
    for _ in range(50):
        g = Gen(rng, size or rng.randint(6, 22))
        text = g.program()
        try:
            tree = ast.parse(text)
        except (SyntaxError, ValueError):
            continue
        if not allow_kw_star_walrus and kw_star_walrus(tree):
            continue
        return text, g.kinds
    return 'pass\n', {}


F1_WITNESS = 'for x in xs:\n    if c:\n        w = 2\n    else:\n        pass\n    print(w)\n    w = 1\n'

HAND_PROGRAMS = [
    F1_WITNESS,
    'for x in xs:\n    for y in x:\n        if c:\n            w = 2\n        print(w)\n        w = 1\n    print(w)\n    w = 3\nprint(w)\n',
    'while a:\n    for b in c:\n        if a:\n            w = 1\n        else:\n            x = w\n    else:\n        w = 2\n    print(w, x)\nprint(w)\n',
    'def f(a):\n    for x in a:\n        def g():\n            while c:\n                if x:\n                    w = 1\n                print(w, y)\n                w = 2\n        y = g\n    return y\n',
    'if a:\n    x = 1\nelif b:\n    x = 2\nelif c:\n    x = 3\nelse:\n    x = 4\nprint(x)\n',
    'x = [1]\nx = f(a=1, *x)\nprint(x)\n',
    'class A:\n    if c:\n        len = 1\n    print(len)\n',
    'try:\n    import os\nexcept E as w:\n    os = None\nelse:\n    w = 1\nfinally:\n    print(os, w)\nprint(w)\n',
    'for a in b:\n    try:\n        w = a\n    except E:\n        continue\n    print(w)\nelse:\n    w = 0\nprint(w)\n',
]


# --------------------------------------------------------------------------------------------
# layout-only printer: same AST, different layout
# --------------------------------------------------------------------------------------------

_COMPOUND = (ast.If, ast.For, ast.AsyncFor, ast.While, ast.Try, ast.With, ast.AsyncWith,
             ast.FunctionDef, ast.AsyncFunctionDef, ast.ClassDef) + \
    tuple(getattr(ast, n) for n in ('Match', 'TryStar') if hasattr(ast, n))


def _is_simple(st):
    return isinstance(st, ast.stmt) and not isinstance(st, _COMPOUND)


class _Relayout(ast._Unparser):
    """ast.unparse with randomised layout: statements joined with ';', one-line compound
    statements, line breaks inside brackets, indentation width, blank lines and comments."""

    def __init__(self, rng=None, p_join=0.3, p_inline=0.3, p_split=0.25, p_blank=0.15, width=None):
        super().__init__()
        if rng is None:                 # inner unparser of an f-string field: plain layout
            import random
            rng = random.Random(0)
            p_join = p_inline = p_split = p_blank = 0.0
            width = 4
        self.rng = rng
        self.p_join, self.p_inline, self.p_split, self.p_blank = p_join, p_inline, p_split, p_blank
        self.width = width or rng.choice([1, 2, 3, 4, 8])
        self._join = None
        self._depth = 0
        self._nosplit = 0

    def fill(self, text=''):
        if self._join is not None:
            sep, self._join = self._join, None
            self.write(sep + text)
            return
        for kw in ('def ', 'class ', 'async def '):
            if text.startswith(kw) and self.rng.random() < self.p_split * 0.6:     # `def \` newline `f():`
                text = kw[:-1] + self._cont() + text[len(kw):]
                break
        self.maybe_newline()
        if self._source and self.rng.random() < self.p_blank:
            k = self.rng.random()
            if k < 0.5:
                self.write('\n')
            else:
                self.write(' ' * self.rng.randint(0, 6) + '# c%d\n' % self.rng.randint(0, 9))
        self.write(' ' * (self.width * self._indent) + text)

    def _cont(self):
        return ' \\\n' + ' ' * self.rng.choice([0, 0, 1, 4, 9])

    def visit_Import(self, node):
        if self.rng.random() >= self.p_split:
            return super().visit_Import(node)
        self.fill('import ')
        for i, a in enumerate(node.names):
            if i:
                self.write(',' + (self._cont() if self.rng.random() < 0.7 else ' '))
            self.write(a.name)
            if a.asname:
                self.write((self._cont() if self.rng.random() < 0.3 else ' ') + 'as' +
                           (self._cont() if self.rng.random() < 0.5 else ' ') + a.asname)

    def visit_ImportFrom(self, node):
        if self.rng.random() >= self.p_split or any(a.name == '*' for a in node.names):
            return super().visit_ImportFrom(node)
        rng = self.rng
        cmt = lambda: ('  # c%d' % rng.randint(0, 9)) if rng.random() < 0.35 else ''
        gap = lambda: rng.choice(['', '', '\n', '\n   # only a comment\n', '\n\n']) if rng.random() < 0.4 else ''
        self.fill('from ' + '.' * (node.level or 0) + (node.module or '') + ' import (')
        comma_first = rng.random() < 0.3
        broke = rng.random() < 0.8
        if broke:
            self.write(cmt())
        for i, a in enumerate(node.names):
            item = a.name + ((' as ' + a.asname) if a.asname else '')
            last = i == len(node.names) - 1
            if broke:
                self.write(gap().rstrip(' ') if i else '')
                self.write('\n' + ' ' * rng.choice([0, 0, 2, 8]))
                if comma_first:
                    self.write((', ' if i else '  ') + item + cmt())
                else:
                    self.write(item + ('' if last and rng.random() < 0.5 else ',') + cmt())
            else:
                self.write(('' if i == 0 else ' ') + item + ('' if last else ','))
        self.write('\n)' if broke else ')')

    def traverse(self, node):
        if isinstance(node, list) and node and all(isinstance(s, ast.stmt) for s in node):
            simple = [_is_simple(s) for s in node]
            inline = all(simple) and bool(self._source) and self._source[-1] == ':' and \
                self._depth == 0 and self.rng.random() < self.p_inline
            for i, st in enumerate(node):
                if inline:
                    self._join = ' ' if i == 0 else '; '
                elif i > 0 and simple[i] and simple[i - 1] and self.rng.random() < self.p_join:
                    self._join = '; '
                super().traverse(st)
            return
        super().traverse(node)

    def delimit(self, start, end):
        outer = super().delimit(start, end)
        me = self
        real = start in ('(', '[', '{')

        class _cm(object):
            def __enter__(self_):
                r = outer.__enter__()
                if real:
                    me._depth += 1
                    if not me._nosplit and me.rng.random() < me.p_split * 0.5:
                        me.write('\n' + ' ' * me.rng.randint(0, 12))
                return r

            def __exit__(self_, *a):
                if real:
                    me._depth -= 1
                return outer.__exit__(*a)
        return _cm()

    def write(self, *text):
        if self._depth > 0 and not self._nosplit and text == (', ',) and self.rng.random() < self.p_split:
            text = (',\n' + ' ' * self.rng.randint(0, 12),)
        super().write(*text)

    def visit_Constant(self, node):
        v = node.value
        if (isinstance(v, str) and '\n' in v and not self._nosplit and self.rng.random() < 0.6 and v.isascii()
                and '\\' not in v and '"' not in v and "'" not in v and '\r' not in v and v.isprintable() is False
                and all(c == '\n' or c.isprintable() for c in v) and getattr(node, 'kind', None) is None):
            self.write('"""' + v + '"""')          # a literal that spans several lines
            return
        super().visit_Constant(node)

    def visit_JoinedStr(self, node):
        self._nosplit += 1
        try:
            super().visit_JoinedStr(node)
        finally:
            self._nosplit -= 1

    def visit_FormattedValue(self, node):
        self._nosplit += 1
        try:
            super().visit_FormattedValue(node)
        finally:
            self._nosplit -= 1


def ast_shape(tree):
    return ast.dump(tree, annotate_fields=False, include_attributes=False)


def relayout(tree, rng, **kw):
    """A re-rendering of `tree` that parses to an identical AST, or None when the printer's
    output does not (the caller counts these; they are not cases)."""
    try:
        text = _Relayout(rng, **kw).visit(tree)
    except Exception:
        return None
    if not text.endswith('\n'):
        text += '\n'
    try:
        if ast_shape(ast.parse(text)) != ast_shape(tree):
            return None
    except (SyntaxError, ValueError, RecursionError):
        return None
    return text


def unparse_form(tree):
    try:
        text = ast.unparse(tree) + '\n'
        if ast_shape(ast.parse(text)) != ast_shape(tree):
            return None
        return text
    except (SyntaxError, ValueError, RecursionError):
        return None
