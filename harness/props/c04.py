"""C04 - answers do not depend on which positions were queried before (memoisation transparency).

Decided by: Coq theorems of Props/C04.v on Model/Memo.v (the loop_memo policy of scope.py in
state-passing style) and Model/FlowGraph.v (memo-free meaning)  +  (I): the real
flow.names_at answers along real query histories equal the answers of the Coq memo model run along
the same history on the dumped graph, and (small graphs) the memo-free query_pure  +  direct
evaluator: every answer along every history (all permutations for <= 6 read sites, else forward /
reverse / inside-out / sampled permutations) equals the answer of a fresh analysis asked only that
question; lint agrees with those answers; API-level sequences (lint, assist, location in different
orders, repeated) on one Project equal the answers of a fresh Project.
"""
import itertools
import json
import os

import common
from common import stdlib_files
from props import flowdump as fd

LEVEL = 'proof'
KNOWN_STAR = 'C04-STAR-CYCLE-3'
ASSUMPTIONS = [
    'nast.py (what builds the graph) is outside this model; the graph is dumped from scope._all_flows after extraction',
    'the evaluation memos of the evaluator (_ctx_values, ImportedName._ref, MultiValue._rvalues, RuntimeName._instance) are not modelled: covered only by the API-level histories on one Project',
    'general nested-loop case of the memo theorem: see notes/C04.md (what is proved in Coq, what is established by the histories)',
]


def canon(ans):
    return None if ans is None else sorted(str(a) for a in ans)


class Analysis(object):
    def __init__(self, text, filename):
        self.src, self.scope = fd.analyse(text, filename)
        self.g = fd.dump_graph(self.scope)
        self.sites = fd.read_sites(self.src)

    def ask(self, k):
        return fd.real_answer(self.g, self.sites[k])

    def query(self, k):
        from supp.util import np
        n = self.sites[k]
        return (self.g.flow_index[id(n.flow)], np(n), self.g.nid(n.id))


def same_graph(a, b):
    return a.flows == b.flows and a.binds == b.binds and a.loops == b.loops


def orders_for(ctx, n, nsample):
    idx = list(range(n))
    if n <= 6:
        perms = list(itertools.permutations(idx))
        if len(perms) > nsample:
            perms = [perms[0], perms[-1]] + ctx.rng.sample(perms[1:-1], nsample - 2)
        return [list(p) for p in perms]
    res = [idx, idx[::-1]]
    mid = n // 2
    inside_out = []
    for d in range(n):
        for j in (mid + d, mid - d - 1):
            if 0 <= j < n and j not in inside_out:
                inside_out.append(j)
    res.append(inside_out)
    res.append(inside_out[::-1])
    for _ in range(nsample):
        p = idx[:]
        ctx.rng.shuffle(p)
        res.append(p)
    return res


API_WORK = r'''
import sys, json, os
sys.path.insert(0, os.environ['SUPP_REPO'])
import logging
logging.disable(logging.CRITICAL)
import builtins
from supp.project import Project
from supp.assistant import location, assist
from supp.linter import lint
job = json.load(open(sys.argv[1]))
root = job['root']
BI = set(dir(builtins))

def do(proj, req):
    kind, text, pos = req[:3]
    fn = req[3] if len(req) > 3 else os.path.join(root, 'main.py')
    try:
        if kind == 'lint':
            return [list(x[:4]) for x in lint(proj, text, fn)]
        if kind == 'location':
            return location(proj, text, tuple(pos), fn)
        if kind == 'assist':
            p, names = assist(proj, text, tuple(pos), fn)
            return [p, [n for n in names if n not in BI and not n.startswith('__')]]
    except Exception as e:
        return 'EXC:' + type(e).__name__

out = []
for seq in job['sequences']:
    proj = Project([root])
    out.append([do(proj, job['requests'][i]) for i in seq])
fresh = [do(Project([root]), r) for r in job['requests']]
json.dump({'seq': out, 'fresh': fresh}, sys.stdout, default=list)
'''


def api_histories(ctx, programs, nseq):
    """lint-then-assist, assist-then-lint, repeats on one Project vs a fresh Project per request."""
    bad = 0
    wpath = os.path.join(ctx.scratch, 'c04_api.py')
    open(wpath, 'w').write(API_WORK)
    for pi, (fn, text) in enumerate(programs):
        root = os.path.join(ctx.scratch, 'proj%d' % pi)
        os.makedirs(root)
        open(os.path.join(root, 'm1.py'), 'w').write(text)
        names = sorted({n for n in fd.NAMES + fd.FUNCS if n in text})[:4] or ['w']
        main = 'import m1\nfrom m1 import %s\n' % ', '.join(names)
        reqs = [['lint', text, None], ['lint', main, None]]
        for i, nm in enumerate(names):
            main += 'print(%s)\nm1.%s\n' % (nm, nm)
        lines = main.split('\n')
        for ln, line in enumerate(lines, 1):
            if line.startswith('print('):
                reqs.append(['location', main, [ln, len(line) - 1]])
                reqs.append(['assist', main, [ln, len(line) - 1]])
            elif line.startswith('m1.'):
                reqs.append(['location', main, [ln, len(line)]])
                reqs.append(['assist', main, [ln, 3]])
        try:
            a = Analysis(text, os.path.join(root, 'm1.py'))
            tl = text.split('\n')
            for k in ctx.rng.sample(range(len(a.sites)), min(4, len(a.sites))):
                n = a.sites[k]
                if tl[n.lineno - 1].isascii():
                    reqs.append(['location', text, [n.lineno, n.col_offset + len(n.id)]])
                    reqs.append(['assist', text, [n.lineno, n.col_offset + len(n.id)]])
        except (fd.DumpError, SyntaxError, RecursionError):
            pass
        idx = list(range(len(reqs)))
        seqs = [idx, idx[::-1], [i for i in idx for _ in (0, 1)]]
        for _ in range(nseq):
            p = idx[:]
            ctx.rng.shuffle(p)
            seqs.append(p)
        jpath = os.path.join(root, 'job.json')
        json.dump({'root': root, 'requests': reqs, 'sequences': seqs}, open(jpath, 'w'))
        rc, out, err = common.run_py(wpath, [jpath], timeout=600)
        if rc != 0:
            raise RuntimeError('api worker failed: ' + err[-1500:])
        res = json.loads(out)
        for seq, answers in zip(seqs, res['seq']):
            for pos, (i, a) in enumerate(zip(seq, answers)):
                ctx.count(('api', fn, tuple(seq[:pos + 1])), nontrivial=pos > 0)
                if a != res['fresh'][i]:
                    bad += 1
                    if bad <= 5:
                        ctx.violation('request %s answered differently after %d earlier requests on the same Project '
                                      '(program %s): %r vs fresh %r' % (reqs[i][0], pos, os.path.basename(fn), str(a)[:150], str(res['fresh'][i])[:150]),
                                      {'kind': 'api', 'module': text, 'requests': reqs, 'sequence': seq, 'index': pos})
                    break
    return bad


def _pos_after(text, needle, nth=0):
    """(line, col) just after the nth occurrence of needle"""
    i = -1
    for _ in range(nth + 1):
        i = text.index(needle, i + 1)
    i += len(needle)
    before = text[:i]
    return [before.count('\n') + 1, i - (before.rfind('\n') + 1)]


def relimport_scenario(rng, root):
    """nested package whose module uses relative imports of several levels (Project._norm_cache,
    ImportedName._ref): completion / definition after each alias, in every order, on one Project"""
    top = rng.choice(['pkga', 'c04top', 'outerp'])
    sub = rng.choice(['sub', 'inner', 'deep'])
    sib = rng.choice(['sib', 'other'])
    files = {
        top + '/__init__.py': '',
        top + '/util.py': 'def top_helper():\n    return 1\ntop_only = 1\n',
        top + '/' + sib + '/__init__.py': 'sib_flag = True\n',
        top + '/' + sib + '/zed.py': 'def zed_helper():\n    return 3\n',
        top + '/' + sub + '/__init__.py': '',
        top + '/' + sub + '/util.py': 'def sub_helper():\n    return 2\nsub_only = 2\n',
    }
    for name, content in files.items():
        path = os.path.join(root, name)
        os.makedirs(os.path.dirname(path), exist_ok=True)
        open(path, 'w').write(content)
    mod = ('from . import util as near\nfrom .. import util as far\nfrom ..%s import zed\nfrom .. import %s as sb\n\n'
           'near.sub_helper\nfar.top_helper\nzed.zed_helper\nsb.sib_flag\n' % (sib, sib))
    fn = os.path.join(root, top, sub, 'mod.py')
    open(fn, 'w').write(mod)
    reqs = []
    for alias, attr in (('near', 'sub_helper'), ('far', 'top_helper'), ('zed', 'zed_helper'), ('sb', 'sib_flag')):
        cut = mod.replace('%s.%s' % (alias, attr), '%s.' % alias)
        reqs.append(['assist', cut, _pos_after(cut, '\n%s.' % alias), fn])
        reqs.append(['location', mod, _pos_after(mod, '\n%s.%s' % (alias, attr)), fn])
    reqs.append(['assist', 'from . import \n', [1, 14], fn])
    reqs.append(['assist', 'from .. import \n', [1, 15], fn])
    reqs.append(['lint', mod, None, fn])
    return reqs


def instance_scenario(rng, root):
    """class in a project module (cached by the Project) with instance attributes set in methods:
    class requests, instance requests, class requests again (cached _attrs / bases / _ctx_values)"""
    cls = rng.choice(['Box', 'Node', 'Shape'])
    subc = rng.choice(['Crate', 'Leaf', 'Square'])
    a1, a2, a3 = rng.sample(['width', 'height', 'label', 'extra', 'payload', 'count'], 3)
    modname = rng.choice(['boxes', 'shapes_m', 'model'])
    body = ('class %(c)s(object):\n    depth = 1\n    def __init__(self):\n        self.%(a1)s = 1\n        self.%(a2)s = 2\n'
            '    def area(self):\n        self.%(a3)s = 3\n        return self.%(a1)s\n'
            '    @classmethod\n    def make(cls):\n        return cls.depth\n\n'
            '    def derive(self):\n        x = self.area()\n        x.attr_x = 1\n        y = self\n        y.via_y = 2\n'
            '        self.made = self.make()\n        self.made.deep = 3\n        return x\n\n'
            'class %(s)s(%(c)s):\n    kind = 2\n    def __init__(self):\n        self.tag_%(a1)s = 4\n'
            % {'c': cls, 's': subc, 'a1': a1, 'a2': a2, 'a3': a3})
    mfn = os.path.join(root, modname + '.py')
    open(mfn, 'w').write(body)
    main = ('from %(m)s import %(c)s, %(s)s\nimport %(m)s\nb = %(c)s()\nc = %(s)s()\n%(c)s.depth\nb.%(a1)s\n%(s)s.kind\nc.tag_%(a1)s\n'
            '%(m)s.%(c)s.depth\n' % {'m': modname, 'c': cls, 's': subc, 'a1': a1})
    fn = os.path.join(root, 'main.py')
    reqs = []
    for expr, attr in ((cls, 'depth'), ('b', a1), (subc, 'kind'), ('c', 'tag_' + a1), ('%s.%s' % (modname, cls), 'depth')):
        full = '\n%s.%s\n' % (expr, attr)
        cut = main.replace(full, '\n%s.\n' % expr)
        reqs.append(['assist', cut, _pos_after(cut, '\n%s.' % expr), fn])
        reqs.append(['location', main, _pos_after(main, '\n%s.%s' % (expr, attr)), fn])
    # the class table first requested through `T.`, `T().` or `self.`, and values derived from self
    for expr in ('%s.%s' % (modname, cls), '%s.%s()' % (modname, cls), '%s.%s().derive()' % (modname, cls), '%s.%s()' % (modname, subc)):
        src = 'import %s\n%s.\n' % (modname, expr)
        reqs.append(['assist', src, [2, len(expr) + 1], fn])
    cut = body.replace('x = self.area()', 'x = self.')
    reqs.append(['assist', cut, _pos_after(cut, 'x = self.'), mfn])
    cut = body.replace('return cls.depth', 'return cls.')
    reqs.append(['assist', cut, _pos_after(cut, 'return cls.'), mfn])
    cut = body.replace('return self.%s' % a1, 'return self.')
    reqs.append(['assist', cut, _pos_after(cut, 'return self.'), mfn])
    reqs.append(['lint', main, None, fn])
    return reqs


def starcycle_scenario(rng, root):
    """project modules that star-import each other: what supp says about each of
    them from a user file, in every order, on one Project (resolve_star_imports re-entrancy,
    exported_names, cached scopes)"""
    k = 2          # rings of three or more are the open finding C04-STAR-CYCLE-3 (re-run from the corpus)
    mods = rng.sample(['cyca', 'cycb', 'cycc', 'ringx', 'ringy'], k)
    own = {}
    for j, m in enumerate(mods):
        nxt = mods[(j + 1) % k]
        own[m] = '%s_own' % m
        body = 'from %s import *\n%s = %d\n' % (nxt, own[m], j)
        if rng.random() < 0.5:
            body += 'def %s_fn():\n    return %s_own\n' % (m, nxt)
        open(os.path.join(root, m + '.py'), 'w').write(body)
    fn = os.path.join(root, 'user.py')
    reqs = []
    for m in mods:
        reqs.append(['assist', 'import %s\n%s.\n' % (m, m), [2, len(m) + 1], fn])
        for o in own.values():
            reqs.append(['location', 'import %s\n%s.%s\n' % (m, m, o), [2, len(m) + 1 + len(o)], fn])
        reqs.append(['lint', 'from %s import *\nprint(%s)\n' % (m, ', '.join(sorted(own.values()))), None, fn])
        reqs.append(['assist', 'from %s import \n' % m, [1, len('from %s import ' % m)], fn])
    return reqs


def qualified_import_scenario(rng, root):
    """a cached project module with an unaliased `import pkg.sub` (the package does not bind sub):
    requests through it, repeated and reordered (ImportedName._ref, AdditionalNameWrapper)"""
    pkg = rng.choice(['qpkg', 'libq', 'vend'])
    sub = rng.choice(['qsub', 'core', 'impl'])
    os.makedirs(os.path.join(root, pkg))
    open(os.path.join(root, pkg, '__init__.py'), 'w').write('')
    open(os.path.join(root, pkg, sub + '.py'), 'w').write('class Thing(object):\n    def hello(self):\n        return 1\nflag = 1\n')
    mod = rng.choice(['qmod', 'holder'])
    open(os.path.join(root, mod + '.py'), 'w').write('import %s.%s\n\nval = %s.%s.Thing()\n' % (pkg, sub, pkg, sub))
    fn = os.path.join(root, 'user.py')
    s1 = 'from %s import val\nval.\n' % mod
    s2 = 'from %s import val\nval.hello\n' % mod
    s3 = 'import %s\n%s.%s.\n' % (mod, mod, pkg)
    s4 = 'import %s\n%s.%s.%s.flag\n' % (mod, mod, pkg, sub)
    s5 = 'import %s.%s\n%s.%s.\n' % (pkg, sub, pkg, sub)
    return [['assist', s1, [2, 4], fn], ['location', s2, [2, 9], fn],
            ['assist', s3, [2, len(mod) + len(pkg) + 2], fn],
            ['location', s4, [2, len(mod) + len(pkg) + len(sub) + 7], fn],
            ['assist', s5, [2, len(pkg) + len(sub) + 2], fn],
            ['lint', s2, None, fn]]


def evalweb_scenario(rng, root, partial_rvalues=None):
    """a cached project module whose evaluation goes through instance attributes, factory functions,
    recursive functions and attribute assignments with computed receivers (FuncScope.resolve,
    ClassObject tables, SourceScope.assigns, MultiValue._rvalues, util.Partial)"""
    t1, t2 = rng.sample(['Thing', 'Widget', 'Part', 'Gear'], 2)
    m1, m2 = rng.sample(['foo', 'bar', 'spin', 'turn'], 2)
    lines = ['class %s:' % t1, '    def %s(self):' % m1, '        pass', '    def %s(self):' % m2, '        pass',
             'class Holder:', '    def __init__(self):', '        self.member = %s()' % t1,
             'def make():', '    return Holder().member']
    reqs_expr = [('assist', 'm.make().'), ('location', 'm.make().%s' % m1), ('assist', 'm.%s.' % t1), ('assist', 'm.Holder().')]
    if rng.random() < 0.8:
        lines += ['obj = make()', 'obj.attr = 1']
        reqs_expr += [('assist', 'm.obj.')]
    if rng.random() < 0.8:
        lines += ['class Registry:', '    parent = None', "    kind = 'registry'", '    def __init__(self, parent=None):',
                  '        self.parent = parent', '    def lookup(self, key):', '        pass',
                  'class Entry:', '    value = None', '    def get(self):', '        return self.value',
                  'def root_of(reg):', '    if reg.parent is None:', '        result = reg', '    else:',
                  '        result = root_of(reg.parent)', '    return result',
                  'default = root_of(Registry(Registry()))', "default.title = 'root'"]
        reqs_expr += [('assist', 'm.Registry.'), ('assist', 'm.Entry.'), ('assist', 'm.Registry().'),
                      ('location', 'm.Registry.lookup'), ('location', 'm.Entry().get'), ('assist', 'm.default.')]
    if partial_rvalues or (partial_rvalues is None and rng.random() < 0.6):
        # instance attributes defined through each other (a value first seen while the other is in progress)
        lines += ['class C2:', '    dd = 1', 'class B2:', '    b = C2()', 'class A2:', '    def __init__(self):',
                  '        self.x = self.y.a', '        self.x = B2()', '        self.y = self.x.b']
        reqs_expr += [('assist', 'm.A2().x.'), ('assist', 'm.A2().y.')]
    if rng.random() < 0.75:
        # a module-level object built through an instance METHOD, attributes then set on it: the module's
        # attribute assignments may first be collected while the object's own definition is being evaluated
        rep, bld = rng.choice([('Report', 'Builder'), ('Page', 'Maker'), ('Doc', 'Factory')])
        at1, at2 = rng.sample(['title', 'author', 'stamp', 'owner'], 2)
        lines += ['class %s:' % rep, '    def render(self):', '        pass',
                  'class %s:' % bld, '    def build(self):', '        return %s()' % rep,
                  '%s_obj = %s().build()' % (rep.lower(), bld), "%s_obj.%s = 'x'" % (rep.lower(), at1), "%s_obj.%s = 'y'" % (rep.lower(), at2)]
        first = [('assist', 'm.%s_obj.' % rep.lower()), ('assist', 'm.%s().' % rep), ('location', 'm.%s_obj.%s' % (rep.lower(), at1))]
        if rng.random() < 0.5:
            reqs_expr = first + reqs_expr          # asked first on the Project in the forward order
        else:
            reqs_expr += first
    if rng.random() < 0.6:
        lines += ['class %s(%s):' % (t2, t1), '    def extra(self):', '        return make()', 'spare = %s().extra()' % t2, 'spare.mark = 2']
        reqs_expr += [('assist', 'm.%s().extra().' % t2), ('assist', 'm.spare.')]
    open(os.path.join(root, 'm.py'), 'w').write('\n'.join(lines) + '\n')
    fn = os.path.join(root, 'main.py')
    reqs = []
    for kind, expr in reqs_expr:
        src = 'import m\n' + expr + '\n'
        reqs.append([kind, src, [2, len(expr) if kind == 'assist' else len(expr) - 1], fn])
    reqs.append(['lint', 'import m\nprint(m.make().%s)\n' % m1, None, fn])
    return reqs


def loopcarried_scenario(rng, root, link=None, base=None):
    """a cached project module with a loop-carried module-level name that is rebound again after the
    loop; its loop binding goes through an instance attribute assigned from that same name (evaluation
    cycles through MultiName alternatives, AssignedAttribute.resolve, MultiValue._rvalues, class objects
    that keep the EvalCtx of the request that created them)"""
    link = rng.random() < 0.5 if link is None else link
    base = rng.random() < 0.6 if base is None else base
    L = ['import sys', 'flag = len(sys.argv) > 5']
    if base:
        L += ['class Base(object):', "    kind = 'base'"]
    L += ['class W:', '    def __init__(self):', '        self.deep = 1',
          'class X:', '    def __init__(self):', '        self.x = 1',
          'class Y:', '    def __init__(self):', '        self.y = 1',
          'class A%s:' % ('(Base)' if base else ''), '    def __init__(self):', '        self.a = 1'] + ([] if link else ['        self.w = W()'])
    L += ['class B:', '    def __init__(self):', '        self.b = 1'] + (['        self.link = X()'] if link else [])
    L += ['class C:', '    def __init__(self):', '        self.c = 1'] + (['        self.link = Y()'] if link else [])
    L += ['class H:', '    def __init__(self):', '        self.v = cur%s' % ('.link' if link else ''),
          'def step():', '    if flag:', '        t = B()', '    else:', '        t = H().v.w', '    return t',
          'cur = A()', '%s flag:' % rng.choice(['while', 'while']), '    cur = step()', 'snapshot = cur', 'if flag:', '    cur = C()']
    open(os.path.join(root, 'm.py'), 'w').write('\n'.join(L) + '\n')
    fn = os.path.join(root, 'main.py')
    exprs = ['m.snapshot.', 'm.H().v.', 'm.B().', 'm.cur.'] + (['m.A().'] if base else ['m.C().'])
    reqs = [['assist', 'import m\n%s\n' % e, [2, len(e)], fn] for e in exprs]
    reqs.append(['location', 'import m\nm.snapshot.a\n', [2, 12], fn])
    return reqs


def project_histories(ctx, nproj, nseq):
    """multi-module projects; the order of assist / location / lint requests on one long-lived
    Project is permuted and every answer compared with a fresh Project's"""
    bad = 0
    wpath = os.path.join(ctx.scratch, 'c04_api.py')
    open(wpath, 'w').write(API_WORK)
    # open findings: re-run their concrete inputs; KNOWN-FINDING only if that input still fails
    kdir = os.path.join(common.VERIF, 'corpus', 'C04')
    for kfn in sorted(os.listdir(kdir)) if os.path.isdir(kdir) else []:
        if not (kfn.startswith('known_') and kfn.endswith('.json')):
            continue
        k = json.load(open(os.path.join(kdir, kfn)))
        if 'files' not in k:
            continue
        root = os.path.join(ctx.scratch, kfn[:-5])
        os.makedirs(root)
        for name, content in k['files'].items():
            open(os.path.join(root, name), 'w').write(content)
        reqs = [[r[0], r[1], r[2], os.path.join(root, r[3])] for r in k['requests']]
        jpath = os.path.join(root, 'job.json')
        json.dump({'root': root, 'requests': reqs, 'sequences': k['sequences']}, open(jpath, 'w'))
        rc, out, err = common.run_py(wpath, [jpath], timeout=600)
        if rc == 0:
            res = json.loads(out)
            if any(a != res['fresh'][i] for seq, ans in zip(k['sequences'], res['seq']) for i, a in zip(seq, ans)):
                (ctx.known_finding if k['id'] in {f['id'] for f in ctx.open_findings()} else (lambda i, w: ctx.violation('%s: %s' % (i, w), {'kind': 'unregistered-finding', 'id': i})))(k['id'], 'star-import ring of project modules: the answer depends on which module of the ring '
                                  'was loaded first on the Project (input: corpus/C04/%s)' % kfn)
    jobs = []
    cdir = os.path.join(common.VERIF, 'corpus', 'C04')
    for f in sorted(os.listdir(cdir)) if os.path.isdir(cdir) else []:
        if f.startswith('project_') and f.endswith('.json'):
            k = json.load(open(os.path.join(cdir, f)))
            root = os.path.join(ctx.scratch, 'corpus_' + f[:-5])
            os.makedirs(root)
            for name, content in k['files'].items():
                os.makedirs(os.path.dirname(os.path.join(root, name)), exist_ok=True)
                open(os.path.join(root, name), 'w').write(content)
            reqs = [[r[0], r[1], r[2], os.path.join(root, r[3])] for r in k['requests']]
            jpath = os.path.join(root, 'job.json')
            json.dump({'root': root, 'requests': reqs, 'sequences': k['sequences']}, open(jpath, 'w'))
            jobs.append(('corpus:' + f, 0, root, reqs, k['sequences'], jpath))
    for pi in range(nproj):
        for kind, gen in (('relimport', relimport_scenario), ('instance', instance_scenario),
                          ('starcycle', starcycle_scenario), ('qualified', qualified_import_scenario),
                          ('evalweb', evalweb_scenario),
                          ('loopcarried', lambda r, d: loopcarried_scenario(r, d, link=False)),
                          ('loopcarried-link', lambda r, d: loopcarried_scenario(r, d, link=True, base=True))):
            root = os.path.join(ctx.scratch, 'scen_%s%d' % (kind, pi))
            os.makedirs(root)
            reqs = gen(ctx.rng, root)
            idx = list(range(len(reqs)))
            seqs = [idx, idx[::-1], [i for i in idx for _ in (0, 1)], idx + idx]
            # class request, instance request, the same class request again; near then far, far then near
            for i in idx:
                for j in idx:
                    if i != j and ctx.rng.random() < 0.25:
                        seqs.append([i, j, i])
            if kind.startswith('loopcarried'):          # every history of three different requests
                import itertools as _it
                seqs += [list(t) for t in _it.permutations(idx, 3)]
            for _ in range(nseq):
                p = idx[:]
                ctx.rng.shuffle(p)
                seqs.append(p)
            jpath = os.path.join(root, 'job.json')
            json.dump({'root': root, 'requests': reqs, 'sequences': seqs}, open(jpath, 'w'))
            jobs.append((kind, pi, root, reqs, seqs, jpath))

    def one(job):
        rc, out, err = common.run_py(wpath, [job[5]], timeout=600)
        if rc != 0:
            raise RuntimeError('api worker failed: ' + err[-1500:])
        return json.loads(out)

    from concurrent.futures import ThreadPoolExecutor
    with ThreadPoolExecutor(max_workers=8) as ex:
        results = list(ex.map(one, jobs))
    for (kind, pi, root, reqs, seqs, jpath), res in zip(jobs, results):
        ctx.histogram('project_scenario', kind)
        for seq, answers in zip(seqs, res['seq']):
            for pos, (i, a) in enumerate(zip(seq, answers)):
                ctx.count(('proj', kind, pi, tuple(seq[:pos + 1])), nontrivial=pos > 0)
                if a != res['fresh'][i]:
                    bad += 1
                    if bad <= 5:
                        files = {os.path.relpath(os.path.join(d, f), root): open(os.path.join(d, f)).read()
                                 for d, _, fs in os.walk(root) for f in fs if f.endswith('.py')}
                        ctx.violation('%s project: request %s at %s answered differently after %d earlier requests on the same '
                                      'Project: %r vs fresh %r' % (kind, reqs[i][0], reqs[i][2], pos, str(a)[:160], str(res['fresh'][i])[:160]),
                                      {'kind': 'project-history', 'scenario': kind, 'files': files, 'requests': reqs,
                                       'sequence': seq, 'index': pos})
                    break
    return bad


def run(ctx):
    proof_ok = ctx.coq_props()
    cov = ctx.coverage
    cov['rule'] = ('a case = (program, history, position in the history): every read site of corpus / hand-written / generated '
                   'programs and sampled read sites of real files, under all permutations (<= 6 sites) or forward / reverse / '
                   'inside-out / sampled permutations, on one analysis state; each answer compared with a fresh analysis asked '
                   'only that question, with lint, and in Coq with the memo model along the same history and with query_pure. '
                   'non-trivial = the program has a loop (a LoopFlow is resolved) and the query is not the first of its history')
    programs = []
    cdir = os.path.join(common.VERIF, 'corpus', 'C04')
    if os.path.isdir(cdir):
        for f in sorted(os.listdir(cdir)):
            if f.endswith('.json') and not f.startswith('known_') and not f.startswith('project_'):
                programs.append(('corpus/' + f, json.load(open(os.path.join(cdir, f)))['source']))
    for i, p in enumerate(fd.HAND_PROGRAMS):
        programs.append(('hand%d.py' % i, p))
    for i in range(ctx.pick(45, 300)):
        p, kinds = fd.gen_program(ctx.rng, size=ctx.rng.choice([5, 8, 12, 20]), allow_kw_star_walrus=True)
        for k, v in kinds.items():
            ctx.histogram('constructs', k, v)
        programs.append(('gen%d.py' % i, p))
    real = []
    for fn in stdlib_files(limit=ctx.pick(10, 60), rng=ctx.rng):
        try:
            text = open(fn, encoding='utf8').read()
        except (UnicodeDecodeError, OSError):
            continue
        if len(text) <= ctx.pick(40000, 120000):
            real.append((fn, text))
    programs += real

    hist_terms, hist_meta, pure_terms, pure_meta = [], [], [], []
    ndirect = 0
    nhist = 0
    dump_ok = True
    for fn, text in programs:
        real_file = os.path.isabs(fn)
        fname = fn if real_file else os.path.join(ctx.scratch, os.path.basename(fn))
        try:
            base = Analysis(text, fname)
        except (SyntaxError, UnicodeDecodeError, ValueError, RecursionError):
            continue
        except fd.DumpError as e:
            dump_ok = False
            ctx.histogram('dumper_failed_closed', str(e)[:60])
            continue
        nall = len(base.sites)
        if nall == 0:
            continue
        sel = list(range(nall))
        if real_file and nall > ctx.pick(10, 25):
            sel = sorted(ctx.rng.sample(sel, ctx.pick(10, 25)))
        has_loop = bool(base.g.loops)
        ctx.histogram('loops_per_program', min(len(base.g.loops), 6))
        # fresh single-query answers (the reference: a new analysis asked only this question)
        fresh = {}
        for k in sel:
            a = Analysis(text, fname)
            if not same_graph(a.g, base.g):
                raise fd.DumpError('two analyses of one text dump different graphs')
            fresh[k] = a.ask(k)
        orders = orders_for(ctx, len(sel), ctx.pick(6, 24) if len(sel) > 6 else ctx.pick(40, 150))
        if real_file:
            orders = orders[:ctx.pick(5, 10)]
        kept = 0
        for order in orders:
            a = Analysis(text, fname)
            hist = []
            failed = None
            for pos, j in enumerate(order):
                k = sel[j]
                ans = a.ask(k)
                hist.append(a.query(k) + (ans,))
                ctx.count((text, tuple(order[:pos + 1])), nontrivial=has_loop and pos > 0)
                if canon(ans) != canon(fresh[k]) and failed is None:
                    failed = (pos, k, ans)
            nhist += 1
            if failed is not None:
                ndirect += 1
                if ndirect <= 10:
                    pos, k, ans = failed
                    n = base.sites[k]
                    ctx.violation('read %s at %s answered %s after %d earlier queries but %s when asked first (%s)' % (
                        n.id, (n.lineno, n.col_offset), canon(ans), pos, canon(fresh[k]), os.path.basename(fn)),
                        {'kind': 'history', 'file': fn if real_file else None, 'source': text,
                         'order': [sel[j] for j in order], 'failing_position': pos})
            elif kept < ctx.pick(2, 6) and len(base.g.flows) < ctx.pick(600, 2500):
                t = fd.history_case(base.g, hist)
                if len(t) < 600000:
                    kept += 1
                    hist_terms.append(t)
                    hist_meta.append((fn, None if real_file else text, [sel[j] for j in order]))
        # lint walks the reads in AST order on one state: its E02 set must be the fresh KeyErrors
        if not real_file or len(text) < 20000:
            from supp.linter import lint
            try:
                e02 = sorted((r[2], r[3]) for r in lint(fd.project(), text, fname) if r[0] == 'E02')
                if len(sel) == nall:
                    want = sorted((base.sites[k].lineno, base.sites[k].col_offset) for k in sel if fresh[k] is None)
                    if e02 != want:
                        ndirect += 1
                        ctx.violation('lint reports E02 at %s but fresh single queries are undefined at %s (%s)' % (
                            e02[:5], want[:5], os.path.basename(fn)),
                            {'kind': 'lint', 'file': fn if real_file else None, 'source': text})
            except Exception as e:      # crashes are C08's business
                ctx.histogram('lint_crash', type(e).__name__)
        # memo-free model on small graphs
        if len(base.g.flows) <= 60:
            hist = [base.query(k) + (fresh[k],) for k in sel]
            pm = fd.Pure(base.g, limit=ctx.pick(3000, 20000))      # the memo-free evaluation is exponential
            try:
                for q in hist:
                    if canon(pm.query(q[0], q[1], q[2])) != canon(q[3]):
                        raise fd.DumpError('python mirror of query_pure disagrees')   # Coq decides below
                pure_terms.append(fd.history_case(base.g, hist))
                pure_meta.append((fn, text))
            except RuntimeError:
                ctx.histogram('pure_skipped', 'too large')
            except fd.DumpError:
                pure_terms.append(fd.history_case(base.g, hist))
                pure_meta.append((fn, text))
    cov['histories'] = nhist
    cov['direct_differences'] = ndirect
    ctx.log('%d histories on %d programs, %d differences; %d histories + %d pure cases to Coq' % (
        nhist, len(programs), ndirect, len(hist_terms), len(pure_terms)))

    # ---- API-level histories on one Project ----------------------------------------------------
    api_progs = [p for p in programs if not os.path.isabs(p[0])]
    ctx.rng.shuffle(api_progs)
    cov['api_differences'] = api_histories(ctx, api_progs[:ctx.pick(4, 30)], ctx.pick(2, 6))

    cov['project_history_differences'] = project_histories(ctx, ctx.pick(2, 20), ctx.pick(6, 30))
    ctx.log('api histories done')
    # ---- (I) ---------------------------------------------------------------------------------------
    imports = ['Model.Layout', 'Model.FlowGraph', 'Model.Memo']
    pre = fd.graph_prelude()
    bad_wf = fd.run_sharded(ctx, imports, pre, 'check_wf', hist_terms)
    cov['graphs_outside_wf_hypothesis'] = len(bad_wf)
    for i in bad_wf[:3]:
        fn, text, order = hist_meta[i]
        ctx.violation('hypothesis graph_wfb of theorem C04_memo_transparent is false on the graph supp built for %s: the '
                      'theorem does not cover it' % os.path.basename(fn),
                      {'kind': 'wf', 'theorem': 'C04_memo_transparent (graph_wfb)', 'file': fn if text is None else None,
                       'source': text}, found_input=False)
    bad_h = fd.run_sharded(ctx, imports, pre, 'check_history true', hist_terms)
    ctx.log('memo histories done in Coq')
    bad_p = fd.run_sharded(ctx, imports, pre, 'check_pure true', pure_terms)
    cov['correspondence_cases'] = len(hist_terms) + len(pure_terms)
    cov['correspondence_disagreements'] = len(bad_h) + len(bad_p)
    for i in bad_h[:3]:
        fn, text, order = hist_meta[i]
        ctx.violation('correspondence Model.Memo (query_memo along a history) vs scope.py no longer checks on %s; the direct '
                      'comparison with fresh single queries found no difference on this history' % os.path.basename(fn),
                      {'kind': 'correspondence', 'theorem': 'C04_* / Model.Memo', 'file': fn if text is None else None,
                       'source': text, 'order': order}, found_input=False)
    for i in bad_p[:3]:
        fn, text = pure_meta[i]
        ctx.violation('correspondence Model.FlowGraph.query_pure vs fresh single queries of scope.py no longer checks on %s' % os.path.basename(fn),
                      {'kind': 'correspondence', 'theorem': 'query_pure', 'source': text}, found_input=False)
    if not dump_ok:
        ctx.notes.append('graph dumper failed closed for some programs (see coverage.dumper_failed_closed): no model comparison there')
    if not proof_ok:
        ctx.violation('proof obligations of Props/C04.v not discharged: %s' % (ctx.notes,),
                      {'kind': 'proof', 'theorem': 'Props/C04.v', 'notes': ctx.notes,
                       'build_error': cov.get('build_error')}, found_input=False)
    ctx.sample({'program': fd.F1_WITNESS, 'note': 'F1 witness, in HAND_PROGRAMS'})


def replay(ctx, obj):
    r = obj['replay']
    text = r.get('source') or (open(r['file']).read() if r.get('file') else None)
    if text is None or 'order' not in r:
        print(obj.get('what'))
        return 1
    fname = os.path.join(ctx.scratch, 'replay.py')
    a = Analysis(text, fname)
    bad = 0
    for pos, k in enumerate(r['order']):
        ans = a.ask(k)
        fresh = Analysis(text, fname).ask(k)
        if canon(ans) != canon(fresh):
            n = a.sites[k]
            print('position %d read %s %s: %s vs fresh %s' % (pos, n.id, (n.lineno, n.col_offset), canon(ans), canon(fresh)))
            bad += 1
    print('differences:', bad)
    return 1 if bad else 0
