"""C17 - deterministic output; alternatives listed in source order.

Decided by: Coq theorems C17_* (Props/C17.v) on Model/FlowGraph.v: every row the lookup returns is
duplicate-free and sorted by position (undefined marker first), first_name is the least binding, the
row is a function of the set of alternatives  +  (I) the order the real code returns equals the
model's order on the dumped graph  +  the multi-process run: every multi-alternative answer,
exported-name list and lint result in several fresh interpreters with different PYTHONHASHSEED and
different amounts of prior allocation must be identical (direct evaluator, also the search engine).
"""
import ast
import json
import os
from concurrent.futures import ThreadPoolExecutor

import common
from common import stdlib_files
from props import flowdump as fd

LEVEL = 'proof'
ASSUMPTIONS = [
    'cross-process determinism cannot be exhibited by a model: it is established by running every multi-alternative request in several fresh interpreters (different PYTHONHASHSEED, different prior allocation) and comparing',
    'no two alternatives of one row share (location, declared_at): checked per row; rows with ties are compared as sets',
    'CPython dict insertion order and sorted() stability (trusted)',
    'attribute evaluation (CompositeValue, MultiValue, module exports) and module search order are outside the Coq model: covered by the scenario runs only',
]

WORKER = r'''
import sys, json, os
junk = [object() for _ in range(int(sys.argv[2]))]
junk2 = [str(i) * 3 for i in range(int(sys.argv[2]) // 7)]
sys.path.insert(0, os.environ['SUPP_REPO'])
import logging
logging.disable(logging.CRITICAL)
from supp.project import Project
from supp.assistant import location
from supp.linter import lint
from supp.util import Source, np, get_name_usages
from supp.nast import extract_scope
from supp.name import MultiName
jobs = json.load(open(sys.argv[1]))
proj = Project([os.path.dirname(sys.argv[1])])
out = []
for job in jobs:
    src = job['source']
    res = {'loc': [], 'alts': [], 'first': []}
    try:
        s = Source(src, job['file'])
        scope = extract_scope(s, proj)
        sites = [n for n in get_name_usages(s.tree) if hasattr(n, 'flow')]
        for k in job['sites']:
            n = sites[k]
            v = n.flow.names_at(np(n)).get(n.id)
            if type(v) is MultiName:
                res['alts'].append([[type(a).__name__, list(a.location), list(getattr(a, 'declared_at', (0, 0)))] for a in v.alt_names])
                res['first'].append(v.name)
            else:
                res['alts'].append(None)
        ex = scope.exported_names
        res['exported'] = [[k, list(getattr(v, 'declared_at', (0, 0)))] for k, v in ex.items()]
    except Exception as e:
        res['error'] = type(e).__name__
    for (l, c) in job['positions']:
        try:
            r = location(proj, src, (l, c), job['file'])
            res['loc'].append([[list(d['loc']) for d in x] if isinstance(x, list) else list(x['loc']) for x in r])
        except Exception as e:
            res['loc'].append('EXC:' + type(e).__name__)
    if job.get('lint'):
        try:
            res['lint'] = [list(x[:4]) for x in lint(proj, src, job['file'])]
        except Exception as e:
            res['lint'] = 'EXC:' + type(e).__name__
    out.append(res)
json.dump(out, sys.stdout)
'''

WORKER2 = r'''
import sys, json, os
junk = [object() for _ in range(int(sys.argv[2]))]
junk2 = [str(i) * 3 for i in range(int(sys.argv[2]) // 7)]
sys.path.insert(0, os.environ['SUPP_REPO'])
import logging
logging.disable(logging.CRITICAL)
from supp.project import Project
from supp.assistant import location, assist
jobs = json.load(open(sys.argv[1]))
out = []
for job in jobs:
    res = []
    for kind, src, pos, fn in job['requests']:
        try:
            proj = Project(job['roots'])
            if kind == 'location':
                r = location(proj, src, tuple(pos), fn)
                res.append([[[list(d['loc']), d['file']] for d in x] if isinstance(x, list) else [list(x['loc']), x['file']] for x in r])
                r2 = location(proj, src, tuple(pos), fn)          # and once more on the same Project
                res.append(r2 == r)
            else:
                p, names = assist(proj, src, tuple(pos), fn)
                res.append([p, [n for n in names if not n.startswith('__')][:60]])
        except Exception as e:
            res.append('EXC:' + type(e).__name__)
    shared = []
    for seq in job.get('shared', []):          # the same requests on ONE long-lived Project
        proj = Project(job['roots'])
        row = []
        for i in seq:
            kind, src, pos, fn = job['requests'][i]
            try:
                if kind == 'location':
                    r = location(proj, src, tuple(pos), fn)
                    row.append([[[list(d['loc']), d['file']] for d in x] if isinstance(x, list) else [list(x['loc']), x['file']] for x in r])
                else:
                    p, names = assist(proj, src, tuple(pos), fn)
                    row.append([p, [n for n in names if not n.startswith('__')][:60]])
            except Exception as e:
                row.append('EXC:' + type(e).__name__)
        shared.append(row)
    out.append({'res': res, 'shared': shared})
json.dump(out, sys.stdout)
'''


def gen_case_scenario(rng, base, idx):
    """proposals that differ only in case (DEBUG / Debug / debug) from set-backed sources: module
    members, attributes of a multi-alternative value, package + submodule names.  Expected: the
    plain sorted order, in every process."""
    root = os.path.join(base, 'case%d' % idx)
    os.makedirs(os.path.join(root, 'casedpkg'))
    stems = rng.sample(['debug', 'alpha', 'mode', 'item', 'path'], 3)
    variants = []
    for st in stems:
        variants += [st, st.upper(), st.capitalize()]
    st0 = stems[0]
    variants += ['_' + st0, '_' + stems[1], st0 + '1', st0 + '01', st0 + '_1', '_%s1' % stems[2]]
    rng.shuffle(variants)
    open(os.path.join(root, 'cased.py'), 'w').write(''.join('%s = %d\n' % (v, i) for i, v in enumerate(variants)))
    open(os.path.join(root, 'casedpkg', '__init__.py'), 'w').write('%s = 1\n%s = 2\n_%s = 3\n' % (stems[0].upper(), stems[0], stems[0]))
    for v in (stems[1], stems[1].upper(), stems[1].capitalize(), '_' + stems[1], '_' + stems[2], stems[2], stems[2] + '2', stems[2] + '02'):
        open(os.path.join(root, 'casedpkg', v + '.py'), 'w').write('x = 1\n')
    cls = ('class K1(object):\n' + ''.join('    %s = 1\n' % v for v in variants[:5]) +
           'class K2(object):\n' + ''.join('    %s = 2\n' % v for v in variants[4:]) +
           'if c:\n    obj = K1()\nelse:\n    obj = K2()\nobj.\n')
    fn = os.path.join(root, 'main.py')
    reqs = [['assist', 'from cased import \n', [1, 18], fn],
            ['assist', 'import cased\ncased.\n', [2, 6], fn],
            ['assist', 'from casedpkg import \n', [1, 21], fn],
            ['assist', 'import casedpkg.\n', [1, 16], fn],
            ['assist', cls, [cls.count('\n'), 4], fn],
            ['assist', ''.join('%s = 1\n' % v for v in variants) + '\n', [len(variants) + 1, 0], fn]]
    return [root], reqs, ['sorted'] * len(reqs)


def gen_starcycle_scenario(rng, base, idx):
    """two project modules star-importing each other: the member list of each on a fresh Project,
    after the other one was asked about, and repeated, must be the same list"""
    root = os.path.join(base, 'cyc%d' % idx)
    os.makedirs(root)
    a, b = rng.sample(['cyca', 'cycb', 'ringx', 'ringy'], 2)
    open(os.path.join(root, a + '.py'), 'w').write('from %s import *\n%s_own = 1\nshared_%d = 1\n' % (b, a, idx))
    open(os.path.join(root, b + '.py'), 'w').write('from %s import *\n%s_own = 2\n' % (a, b))
    fn = os.path.join(root, 'main.py')
    reqs = [['assist', 'import %s\n%s.\n' % (a, a), [2, len(a) + 1], fn],
            ['assist', 'import %s\n%s.\n' % (b, b), [2, len(b) + 1], fn],
            ['assist', 'from %s import \n' % a, [1, len(a) + 13], fn],
            ['location', 'from %s import %s_own\n%s_own\n' % (a, b, b), [2, len(b) + 4], fn]]
    shared = [[0, 1, 0, 1], [1, 0, 1, 0], [2, 1, 2, 0], [1, 3, 0, 3], [3, 3, 0, 0]]
    return [root], reqs, [None] * len(reqs), shared


def gen_multivalue_order_scenario(rng, root, idx):
    """an instance attribute assigned in a try body, its handlers, its else clause and another
    method: go-to-definition on a use lists the assignments in source order (positions from ast)"""
    attr = rng.choice(['conn', 'state', 'handle'])
    nh = rng.randint(1, 3)
    lines = ['class Client%d(object):' % idx, '    def connect(self, addr):', '        try:',
             '            self.%s = open_it(addr)' % attr]
    for j in range(nh):
        lines += ['        except E%d:' % j, '            self.%s = %d' % (attr, j)]
    if rng.random() < 0.8:
        lines += ['        else:', '            self.%s = wrap(self.%s)' % (attr, attr)]
    if rng.random() < 0.5:
        lines += ['        finally:', '            self.%s = None' % attr]
    lines += ['        return self.%s' % attr, '    def close(self):', '        self.%s = None' % attr]
    src = '\n'.join(lines) + '\n'
    use = lines.index('        return self.%s' % attr) + 1
    tree = ast.parse(src)
    exp = sorted([n.lineno, n.col_offset] for n in ast.walk(tree)
                 if isinstance(n, ast.Attribute) and n.attr == attr and isinstance(n.ctx, ast.Store))
    fn = os.path.join(root, 'client%d.py' % idx)
    return [['location', src, [use, len(lines[use - 1])], fn]], [('locs', exp)]


def gen_bases_scenario(rng, root, idx):
    """a class whose base is a multiply-bound name (if/elif/else or try/except switch) whose
    alternatives all define the same member: go-to-definition of the inherited member on the class and
    on an instance (the sorted completion list does not show the order of the bases)"""
    k = rng.randint(2, 4)
    member = rng.choice(['run', 'open_it', 'read'])
    lines, defpos = [], []
    use_try = k == 2 and rng.random() < 0.5
    if use_try:
        lines += ['try:', '    class Base(object):', '        def %s(self):' % member]
        defpos.append((len(lines), 12))
        lines += ['            return 0', 'except E:', '    class Base(object):', '        def %s(self):' % member]
        defpos.append((len(lines), 12))
        lines += ['            return 1']
    else:
        for j in range(k):
            kw = 'if c0:' if j == 0 else ('elif c%d:' % j if j < k - 1 else 'else:')
            lines += [kw, '    class Base(object):', '        def %s(self):' % member]
            defpos.append((len(lines), 12))
            lines += ['            return %d' % j]
    lines += ['class Derived(Base):', '    def own(self):', '        return 1', 'd = Derived()']
    fn = os.path.join(root, 'bases%d.py' % idx)
    reqs, exps = [], []
    for expr in ('d', 'Derived', 'Derived()'):
        src = '\n'.join(lines + ['%s.%s' % (expr, member)]) + '\n'
        reqs.append(['location', src, [len(lines) + 1, len(expr) + 1 + len(member)], fn])
        exps.append([fn, list(defpos[0])])
    return reqs, exps


def gen_failing_middle_scenario(rng, base, idx):
    """a request that fails in the middle of a sequence (its buffer assigns an attribute on a name
    imported from a project module that does not parse), then the earlier requests again: identical
    requests must be answered identically, on the same Project and on new ones in the same process"""
    root = os.path.join(base, 'fail%d' % idx)
    os.makedirs(root)
    cls = rng.choice(['Account', 'Item', 'Record'])
    a1, a2 = rng.sample(['owner', 'balance', 'title', 'size'], 2)
    open(os.path.join(root, 'models.py'), 'w').write(
        "class %s(object):\n    kind = 'k'\n    def __init__(self, x):\n        self.%s = x\n        self.%s = 0\n"
        "    def deposit(self, n):\n        self.%s = self.%s + n\n" % (cls, a1, a2, a2, a2))
    open(os.path.join(root, 'conf.py'), 'w').write('class Settings(object):\n    DEBUG = False\nsettings = Settings(\n')
    fn = os.path.join(root, 'main.py')
    good = 'from models import %s\nacc = %s(1)\nacc.\n' % (cls, cls)
    good2 = 'from models import %s\nacc = %s(1)\nacc.%s\n' % (cls, cls, a2)
    failing = ('from conf import settings\nfrom models import %s\nsettings.DEBUG = True\nclass Savings(%s):\n'
               '    def __init__(self, x):\n        %s.__init__(self, x)\n        self.rate = 1\nacc = Savings(1)\nacc.\n' % (cls, cls, cls))
    reqs = [['assist', good, [3, 4], fn], ['location', good2, [3, 4 + len(a2)], fn],
            ['assist', failing, [9, 4], fn],
            ['assist', good, [3, 4], fn], ['location', good2, [3, 4 + len(a2)], fn]]
    return [root], reqs, [None] * 5, [[0, 1, 2, 0, 1], [2, 0, 1], [0, 2, 0]]


def gen_multivalue_repeat_scenario(rng, base, idx):
    """instance attributes of a class in a cached project module with several assigned values,
    also defined through each other: the identical request twice (and interleaved) on one Project"""
    root = os.path.join(base, 'mvr%d' % idx)
    os.makedirs(root)
    h, t = rng.choice([('head', 'tail'), ('left', 'right'), ('first', 'rest')])
    open(os.path.join(root, 'chain.py'), 'w').write(
        'class C(object):\n    dd = 1\n    def cc(self):\n        pass\nclass B(object):\n    b = C()\n    def bb(self):\n        pass\n'
        'class A(object):\n    aa = 1\n'
        'class K(object):\n    def __init__(self):\n        self.%(h)s = self.%(t)s.a\n        self.%(h)s = B()\n        self.%(t)s = self.%(h)s.b\n'
        '        self.multi = A()\n    def other(self):\n        self.multi = B()\n' % {'h': h, 't': t})
    fn = os.path.join(root, 'main.py')
    reqs = []
    for attr in (h, t, 'multi'):
        src = 'import chain\no = chain.K()\no.%s.\n' % attr
        reqs.append(['assist', src, [3, len(attr) + 3], fn])
    reqs.append(['location', 'import chain\no = chain.K()\no.multi.bb\n', [3, 10], fn])
    return [root], reqs, [None] * 4, [[0, 0, 0], [1, 1], [2, 2, 2], [3, 3], [0, 1, 0, 1], [1, 0, 1, 0], [2, 0, 2, 1]]


def gen_two_files_pkg_scenario(rng, base, idx):
    """two files of one project importing different submodules of one package with qualified
    imports (the package does not bind them): the same Project handles both files in sequence"""
    root = os.path.join(base, 'tf%d' % idx)
    pkg = rng.choice(['pkg', 'libz', 'toolsq'])
    s1, s2 = rng.sample(['alpha', 'beta', 'gamma', 'delta'], 2)
    os.makedirs(os.path.join(root, pkg))
    open(os.path.join(root, pkg, '__init__.py'), 'w').write('VERSION = 1\n\ndef setup():\n    pass\n')
    open(os.path.join(root, pkg, s1 + '.py'), 'w').write('def %s_func():\n    pass\n' % s1)
    open(os.path.join(root, pkg, s2 + '.py'), 'w').write('def %s_func():\n    pass\n' % s2)
    fa, fb = os.path.join(root, 'a.py'), os.path.join(root, 'b.py')
    open(fa, 'w').write('import %s.%s\n' % (pkg, s1))
    open(fb, 'w').write('import %s.%s\n' % (pkg, s2))
    reqs = [['assist', 'import %s.%s\n%s.\n' % (pkg, s1, pkg), [2, len(pkg) + 1], fa],
            ['assist', 'import %s.%s\n%s.\n' % (pkg, s2, pkg), [2, len(pkg) + 1], fb],
            ['location', 'import %s.%s\n%s.%s\n' % (pkg, s1, pkg, s1), [2, len(pkg) + 1 + len(s1)], fa],
            ['location', 'import %s.%s\n%s.%s\n' % (pkg, s2, pkg, s2), [2, len(pkg) + 1 + len(s2)], fb]]
    return [root], reqs, [None] * 4, [[0, 1, 0, 1], [1, 0, 1, 0], [2, 3, 2], [3, 2], [0, 3], [1, 2]]


def gen_settings_app_scenario(rng, base, idx):
    """a project module in which the receiver of an attribute assignment is derived from an
    instance attribute (`app = App(); cfg = app.config; cfg.debug = True`): the first request
    evaluates that very name, then requests about the instance and the class"""
    root = os.path.join(base, 'sa%d' % idx)
    os.makedirs(root)
    app, cfg = rng.choice([('App', 'Config'), ('Server', 'Options'), ('Tool', 'Prefs')])
    opt = rng.choice(['debug', 'verbose', 'level'])
    open(os.path.join(root, 'settings.py'), 'w').write(
        'class %(cfg)s(object):\n    %(opt)s = False\n    name = 1\n'
        'class %(app)s(object):\n    def __init__(self):\n        self.config = %(cfg)s()\n'
        '    if flag:\n        def run(self):\n            return 1\n    else:\n        def run(self):\n            return 2\n'
        '    def stop(self):\n        pass\n'
        'app = %(app)s()\ncfg = app.config\ncfg.%(opt)s = True\n' % {'app': app, 'cfg': cfg, 'opt': opt})
    fn = os.path.join(root, 'main.py')
    reqs = [['assist', 'from settings import cfg\ncfg.\n', [2, 4], fn],
            ['location', 'from settings import app\napp.run\n', [2, 7], fn],
            ['assist', 'from settings import app\napp.\n', [2, 4], fn],
            ['assist', 'import settings\nsettings.%s.\n' % app, [2, 10 + len(app)], fn],
            ['assist', 'import settings\nsettings.%s().config.\n' % app, [2, 19 + len(app)], fn]]
    return [root], reqs, [None] * 5, [[0, 1, 2, 3], [0, 0, 3, 3], [2, 0, 1], [3, 0, 3], [4, 0, 2], [0, 4, 1]]


def gen_instance_class_scenario(rng, base, idx):
    """class of a cached project module with attributes assigned through self: a request about an
    instance, then about the class, on one Project vs a fresh one"""
    root = os.path.join(base, 'ic%d' % idx)
    os.makedirs(root)
    cls = rng.choice(['Square', 'Shape', 'Cell'])
    a1, a2 = rng.sample(['side', 'color', 'area_', 'label'], 2)
    open(os.path.join(root, 'shapes.py'), 'w').write(
        'class %s(object):\n    sides = 4\n    def __init__(self):\n        self.%s = 1\n    def paint(self):\n        self.%s = 2\n' % (cls, a1, a2))
    fn = os.path.join(root, 'main.py')
    reqs = [['assist', 'import shapes\nshapes.%s.\n' % cls, [2, 8 + len(cls)], fn],
            ['assist', 'import shapes\nshapes.%s().\n' % cls, [2, 10 + len(cls)], fn],
            ['location', 'import shapes\nshapes.%s.%s\n' % (cls, a1), [2, 8 + len(cls) + len(a1)], fn],
            ['location', 'import shapes\nshapes.%s().%s\n' % (cls, a2), [2, 10 + len(cls) + len(a2)], fn]]
    return [root], reqs, [None] * 4, [[1, 0], [0, 1, 0], [3, 2], [1, 2, 0], [3, 0, 1]]


def gen_attr_scenario(rng, root, idx):
    """A name bound in several branches to DIFFERENT objects sharing an attribute, reached
    (a) directly, (b) through function results, (c) through self.x assigned in several methods
    (MultiValue), (d) through a project module exporting a multiply-defined name.
    Returns (requests, expectations): expectation = [file, (line, col)] of the definition of the
    attribute in the class bound FIRST in source order."""
    k = rng.randint(2, 5)
    names = ['C%d' % i for i in range(k)]
    attr = rng.choice(['run', 'go', 'value_of'])
    lines, defpos = [], {}
    for n in names:
        lines.append('class %s(object):' % n)
        if rng.random() < 0.5:
            lines.append('    tag = %r' % n)
        lines.append('    def %s(self):' % attr)
        defpos[n] = (len(lines), 8)
        lines.append('        return %d' % rng.randint(0, 9))
    order = names[:]
    rng.shuffle(order)
    shape = rng.choice(['branch', 'func', 'multivalue', 'module', 'try'])
    reqs, exps = [], []
    fn = os.path.join(root, 'main%d.py' % idx)

    def branches(target, exprs, indent=''):
        out = []
        for j, e in enumerate(exprs):
            kw = 'if' if j == 0 else ('elif' if j < len(exprs) - 1 else 'else')
            out.append(indent + (kw + ' c%d:' % j if kw != 'else' else 'else:'))
            out.append(indent + '    %s = %s' % (target, e))
        return out

    if shape in ('branch', 'func', 'try'):
        if shape == 'func':
            for n in order:
                lines += ['def mk_%s():' % n, '    return %s()' % n]
            exprs = ['mk_%s()' % n for n in order]
        else:
            exprs = ['%s()' % n for n in order]
        if shape == 'try':
            lines += ['try:', '    worker = %s' % exprs[0], 'except E:', '    worker = %s' % exprs[1], 'else:', '    pass']
        else:
            lines += branches('worker', exprs)
        lines.append('worker.%s' % attr)
        src = '\n'.join(lines) + '\n'
        reqs.append(['location', src, [len(lines), len('worker.') + len(attr)], fn])
        exps.append([fn, list(defpos[order[0]])])
        reqs.append(['assist', src[:-len(attr) - 1] + '\n', [len(lines), len('worker.')], fn])
        exps.append(None)
    elif shape == 'multivalue':
        lines.append('class Holder(object):')
        for j, n in enumerate(order):
            lines += ['    def m%d(self):' % j, '        self.x = %s()' % n]
        lines += ['    def use(self):', '        self.x.%s' % attr]
        src = '\n'.join(lines) + '\n'
        reqs.append(['location', src, [len(lines), len('        self.x.') + len(attr)], fn])
        exps.append([fn, list(defpos[order[0]])])
    else:
        mod = 'm%d' % idx
        mlines = lines + branches('exported', ['%s()' % n for n in order])
        open(os.path.join(root, mod + '.py'), 'w').write('\n'.join(mlines) + '\n')
        mfn = os.path.join(root, mod + '.py')
        src = 'from %s import exported\nexported.%s\nimport %s\n%s.exported.%s\n' % (mod, attr, mod, mod, attr)
        reqs.append(['location', src, [2, len('exported.') + len(attr)], fn])
        exps.append([mfn, list(defpos[order[0]])])
        reqs.append(['location', src, [4, len(mod) + len('.exported.') + len(attr)], fn])
        exps.append([mfn, list(defpos[order[0]])])
    return shape, reqs, exps


def gen_roots_scenario(rng, base, idx):
    """the same module name under several source roots (and under a root and sys.path): the first
    root must win, in every process"""
    k = rng.randint(2, 4)
    roots = []
    mod = rng.choice(['shared_conf', 'settings_x', 'util_dup'])
    for j in range(k):
        r = os.path.join(base, 'roots%d' % idx, 'r%d' % j)
        os.makedirs(r)
        roots.append(r)
        pad = '\n' * rng.randint(0, 4)
        open(os.path.join(r, mod + '.py'), 'w').write('%svalue = %d\nonly_%d = True\n' % (pad, j, j))
    stdlib_dup = rng.random() < 0.5
    if stdlib_dup:                       # a source root against a sys.path entry
        open(os.path.join(roots[0], 'colorsys.py'), 'w').write('value = 0\nmine = True\n')
    rng.shuffle(roots)
    fn = os.path.join(roots[0], 'main.py')
    first = os.path.join(roots[0], mod + '.py')
    npad = open(first).read().count('\n') - 2
    reqs = [['location', 'import %s\n%s.value\n' % (mod, mod), [2, len(mod) + 6], fn],
            ['location', 'import %s\n' % mod, [1, 7 + len(mod)], fn],
            ['assist', 'import %s\n%s.\n' % (mod, mod), [2, len(mod) + 1], fn],
            ['assist', 'from %s import \n' % mod, [1, len('from %s import ' % mod)], fn]]
    exps = [[first, [npad + 1, 0]], [first, [1, 0]], None, None]
    if stdlib_dup and os.path.exists(os.path.join(roots[0], 'colorsys.py')):
        reqs.append(['location', 'import colorsys\ncolorsys.value\n', [2, 14], fn])
        exps.append([os.path.join(roots[0], 'colorsys.py'), [1, 0]])
    return roots, reqs, exps


def project_scenarios(ctx, nproc):
    """attribute evaluation through CompositeValue / MultiValue / module exports and multi-root
    projects, in the fresh-interpreter matrix"""
    base = os.path.join(ctx.scratch, 'scen')
    os.makedirs(base)
    jobs, meta = [], []
    for i in range(ctx.pick(40, 400)):
        root = os.path.join(base, 'attr%d' % i)
        os.makedirs(root)
        shape, reqs, exps = gen_attr_scenario(ctx.rng, root, i)
        jobs.append({'roots': [root], 'requests': reqs})
        meta.append(('attr:' + shape, exps))
        ctx.histogram('scenario', 'attr:' + shape)
    for i in range(ctx.pick(15, 120)):
        roots, reqs, exps = gen_roots_scenario(ctx.rng, base, i)
        jobs.append({'roots': roots, 'requests': reqs})
        meta.append(('roots', exps))
        ctx.histogram('scenario', 'roots')
    for i in range(ctx.pick(12, 120)):
        root = os.path.join(base, 'bases%d' % i)
        os.makedirs(root)
        reqs, exps = gen_bases_scenario(ctx.rng, root, i)
        jobs.append({'roots': [root], 'requests': reqs})
        meta.append(('bases', exps))
        ctx.histogram('scenario', 'bases')
    for name, gen in (('failing-middle', gen_failing_middle_scenario), ('instance-class', gen_instance_class_scenario),
                      ('multivalue-repeat', gen_multivalue_repeat_scenario), ('two-files-pkg', gen_two_files_pkg_scenario),
                      ('settings-app', gen_settings_app_scenario)):
        for i in range(ctx.pick(4, 40)):
            roots, reqs, exps, shared = gen(ctx.rng, base, i)
            jobs.append({'roots': roots, 'requests': reqs, 'shared': shared})
            meta.append((name, exps))
            ctx.histogram('scenario', name)
    for i in range(ctx.pick(6, 60)):
        roots, reqs, exps = gen_case_scenario(ctx.rng, base, i)
        jobs.append({'roots': roots, 'requests': reqs})
        meta.append(('case', exps))
        ctx.histogram('scenario', 'case')
    for i in range(ctx.pick(6, 60)):
        roots, reqs, exps, shared = gen_starcycle_scenario(ctx.rng, base, i)
        jobs.append({'roots': roots, 'requests': reqs, 'shared': shared})
        meta.append(('starcycle', exps))
        ctx.histogram('scenario', 'starcycle')
    for i in range(ctx.pick(10, 100)):
        root = os.path.join(base, 'mv%d' % i)
        os.makedirs(root)
        reqs, exps = gen_multivalue_order_scenario(ctx.rng, root, i)
        jobs.append({'roots': [root], 'requests': reqs})
        meta.append(('multivalue-order', exps))
        ctx.histogram('scenario', 'multivalue-order')
    path = os.path.join(ctx.scratch, 'scen_jobs.json')
    json.dump(jobs, open(path, 'w'))
    wpath = os.path.join(ctx.scratch, 'c17_worker2.py')
    open(wpath, 'w').write(WORKER2)

    def one(cfg):
        seed, alloc = cfg
        rc, out, err = common.run_py(wpath, [path, str(alloc)], timeout=800, hashseed=seed)
        if rc != 0:
            raise RuntimeError('scenario worker failed (seed %s): %s' % (seed, err[-2000:]))
        return json.loads(out)

    with ThreadPoolExecutor(max_workers=nproc) as ex:
        results = list(ex.map(one, CONFIGS[:nproc]))
    nbad = 0
    for j, job in enumerate(jobs):
        kind, exps = meta[j]
        outs = [json.dumps(results[p][j], sort_keys=True) for p in range(nproc)]
        ctx.count(('scenario', j, kind, job['requests'][0][1]), nontrivial=True)
        what = None
        if len(set(outs)) > 1:
            what = 'answers differ between fresh processes: %s' % sorted(set(outs))[:2]
        else:
            res = results[0][j]['res']
            # the same requests on one long-lived Project: every answer = the fresh-Project answer
            fresh_by_req, ri0 = [], 0
            for (rk, _s, _p, _f) in job['requests']:
                fresh_by_req.append(res[ri0])
                ri0 += 2 if rk == 'location' else 1
            seen_req = {}
            for i, rq in enumerate(job['requests']):
                key = json.dumps(rq)
                if key in seen_req and fresh_by_req[seen_req[key]] != fresh_by_req[i]:
                    what = ('identical requests answered differently in one process (new Project each): %s, later %s'
                            % (str(fresh_by_req[seen_req[key]])[:120], str(fresh_by_req[i])[:120]))
                seen_req.setdefault(key, i)
            for seq, row in zip(job.get('shared', []), results[0][j]['shared']):
                for pos, (i, a) in enumerate(zip(seq, row)):
                    if a != fresh_by_req[i]:
                        what = ('request %d answered %s after %d earlier requests on the same Project, %s on a fresh one'
                                % (i, str(a)[:120], pos, str(fresh_by_req[i])[:120]))
                        break
            ri = 0
            for (rk, src, pos, fn), exp in zip(job['requests'], exps):
                r = res[ri]
                if rk == 'location':
                    if res[ri + 1] is not True:
                        what = 'two identical location() calls on one Project differ'
                    ri += 2
                    if isinstance(exp, tuple) and exp[0] == 'locs' and not isinstance(r, str):
                        got = [d[0] for x in r for d in (x if x and isinstance(x[0], list) and isinstance(x[0][0], list) else [x])]
                        if got != exp[1]:
                            what = 'definitions are not listed in source order: got %s, ast says %s' % (got, exp[1])
                    elif exp is not None and not isinstance(r, str):
                        first = r[0] if r else None
                        if isinstance(first, list) and first and isinstance(first[0], list) and isinstance(first[0][0], list):
                            first = first[0]
                        got = [first[1], first[0]] if first else None
                        if got != exp:
                            what = 'location() is not the first alternative in source order / the first root: got %s expected %s' % (got, exp)
                else:
                    ri += 1
                    if exp == 'sorted' and not isinstance(r, str) and r[1] != sorted(r[1]):
                        what = 'proposals are not in sorted order: %s' % (r[1][:12],)
        if what:
            nbad += 1
            if nbad <= 8:
                ctx.violation('%s scenario: %s' % (kind, what[:400]),
                              {'kind': 'scenario', 'scenario': kind, 'roots': job['roots'], 'requests': job['requests'],
                               'files': {os.path.relpath(os.path.join(d, f), base): open(os.path.join(d, f)).read()
                                         for r in job['roots'] for d, _, fs in os.walk(r) for f in fs if f.endswith('.py')}})
    ctx.coverage['scenario_jobs'] = len(jobs)
    ctx.coverage['scenario_disagreements'] = nbad


CONFIGS = [('0', 0), ('1', 1000), ('2', 20000), ('31337', 333), ('4', 5000), ('random', 77777)]


def run_workers(ctx, jobs, nproc):
    path = os.path.join(ctx.scratch, 'jobs_%d.json' % len(os.listdir(ctx.scratch)))
    json.dump(jobs, open(path, 'w'))
    wpath = os.path.join(ctx.scratch, 'c17_worker.py')
    open(wpath, 'w').write(WORKER)

    def one(cfg):
        seed, alloc = cfg
        rc, out, err = common.run_py(wpath, [path, str(alloc)], timeout=800, hashseed=seed)
        if rc != 0:
            raise RuntimeError('worker failed (seed %s): %s' % (seed, err[-2000:]))
        return json.loads(out)

    with ThreadPoolExecutor(max_workers=nproc) as ex:
        return list(ex.map(one, CONFIGS[:nproc]))


def prepare(ctx, text, filename, max_sites, want_lint=True):
    """Analyse in-process; select multi-alternative read sites. Returns (job, graph case data) or None."""
    from supp.util import np
    try:
        src, scope = fd.analyse(text, filename)
        g = fd.dump_graph(scope)
    except (SyntaxError, UnicodeDecodeError, ValueError, RecursionError):
        return None
    except fd.DumpError as e:
        ctx.histogram('dumper_failed_closed', str(e)[:60])
        return None
    sites = fd.read_sites(src)
    multi = []
    for k, n in enumerate(sites):
        real = fd.real_answer(g, n)
        if real is not None and len(real) > 1 and None not in real:
            multi.append((k, n, real))
    if len(multi) > max_sites:
        multi = ctx.rng.sample(multi, max_sites)
        multi.sort(key=lambda t: t[0])
    hist = []
    ties = False
    for k, n, real in multi:
        keys = [fd.alt_key(g, a) for a in real]
        if len(set(keys)) != len(keys):
            ties = True
        hist.append((g.flow_index[id(n.flow)], np(n), g.nid(n.id), real))
    lines = text.splitlines()
    positions = []
    for k, n, _ in multi:
        if n.lineno <= len(lines) and lines[n.lineno - 1].isascii():
            positions.append((n.lineno, n.col_offset + len(n.id)))
    job = {'source': text, 'file': filename, 'sites': [k for k, _, _ in multi], 'positions': positions,
           'lint': want_lint}
    return job, g, hist, ties, len(sites)


def run(ctx):
    proof_ok = ctx.coq_props()
    cov = ctx.coverage
    cov['rule'] = ('programs = corpus + hand-written + generated (flowdump.Gen) + real files; a case = one read site whose '
                   'answer has >1 alternatives (non-trivial), plus exported names and lint output per program; each case is '
                   'run in N fresh interpreters (PYTHONHASHSEED / prior allocation differ) and its order compared with the '
                   'other processes and with the model order (Coq, on the dumped graph)')
    nproc = ctx.pick(4, 6)
    programs = []
    cdir = os.path.join(common.VERIF, 'corpus', 'C17')
    if os.path.isdir(cdir):
        for f in sorted(os.listdir(cdir)):
            if f.endswith('.json'):
                programs.append(('corpus/' + f, json.load(open(os.path.join(cdir, f)))['source']))
    for i, p in enumerate(fd.HAND_PROGRAMS):
        programs.append(('hand%d.py' % i, p))
    ngen = ctx.pick(120, 1500)
    for i in range(ngen):
        p, kinds = fd.gen_program(ctx.rng)
        for k, v in kinds.items():
            ctx.histogram('constructs', k, v)
        programs.append(('gen%d.py' % i, p))
    nreal = ctx.pick(25, 250)
    for fn in stdlib_files(limit=nreal, rng=ctx.rng):
        try:
            text = open(fn, encoding='utf8').read()
        except (UnicodeDecodeError, OSError):
            continue
        if len(text) > ctx.pick(60000, 200000):
            continue
        programs.append((fn, text))

    jobs, metas, terms, term_meta = [], [], [], []
    for fn, text in programs:
        real_file = os.path.isabs(fn)
        r = prepare(ctx, text, fn if real_file else os.path.join(ctx.scratch, os.path.basename(fn)),
                    ctx.pick(4, 8) if real_file else 12)
        if r is None:
            continue
        job, g, hist, ties, nsites = r
        jobs.append(job)
        metas.append((fn, text if not real_file else None, hist, g))
        for h in hist:
            ctx.count((fn, h[0], h[1], h[2]), nontrivial=True)
            ctx.histogram('alternatives_per_row', len(h[3]))
        ctx.count((fn, 'exported'), nontrivial=False)
        if hist and len(fd.history_case(g, hist)) < 400000:
            terms.append('(%s, %s)' % ('true' if ties else 'false', fd.history_case(g, hist)))
            term_meta.append(len(jobs) - 1)
    ctx.log('%d programs, %d multi-alternative sites' % (len(jobs), sum(len(m[2]) for m in metas)))

    # ---- multi-process run (direct evaluator) ---------------------------------------------------
    results = run_workers(ctx, jobs, nproc)
    cov['processes'] = nproc
    nviol = 0
    for j, job in enumerate(jobs):
        outs = [results[p][j] for p in range(nproc)]
        fn, text, hist, g = metas[j]
        for field in ('alts', 'loc', 'exported', 'lint', 'first', 'error'):
            vals = [json.dumps(o.get(field), sort_keys=True) for o in outs]
            if len(set(vals)) > 1:
                nviol += 1
                if nviol <= 10:
                    ctx.violation('%s of %s differs between fresh processes: %s' % (field, os.path.basename(fn), sorted(set(vals))[:3]),
                                  {'kind': 'multiprocess', 'field': field, 'file': fn if text is None else None,
                                   'source': text, 'sites': job['sites'], 'positions': job['positions']})
                break
        # order inside each process = source order (sorted by (declared_at, location), UndefinedName first)
        o = outs[0]
        for row in (o.get('alts') or []):
            if row is None:
                continue
            keys = [(a[0] != 'UndefinedName', a[2], a[1]) for a in row]
            if keys != sorted(keys):
                nviol += 1
                if nviol <= 10:
                    ctx.violation('alternatives not in source order in %s: %s' % (os.path.basename(fn), row),
                                  {'kind': 'order', 'file': fn if text is None else None, 'source': text, 'row': row})
                break
        for x in (o.get('loc') or []):
            for grp in (x if isinstance(x, list) else []):
                if isinstance(grp, list) and grp and isinstance(grp[0], list) and grp != sorted(grp):
                    nviol += 1
                    if nviol <= 10:
                        ctx.violation('location() lists definitions out of source order in %s: %s' % (os.path.basename(fn), grp),
                                      {'kind': 'order', 'file': fn if text is None else None, 'source': text, 'row': grp})
                    break
    cov['multiprocess_disagreements'] = nviol

    # ---- attribute evaluation / multi-root projects in the same process matrix -------------------
    project_scenarios(ctx, nproc)

    # ---- (I): order of the real code (this process) = model order ----------------------------------
    prelude = fd.graph_prelude() + '''
Definition check_c17 (c : bool * hcase) : bool :=
  check_history (fst c) (snd c).
'''
    bad = fd.run_sharded(ctx, ['Model.Layout', 'Model.FlowGraph', 'Model.Memo'], prelude, 'check_c17', terms)
    cov['correspondence_cases'] = len(terms)
    cov['correspondence_disagreements'] = len(bad)
    for i in bad[:5]:
        fn, text, hist, g = metas[term_meta[i]]
        keys = [[fd.alt_key(g, a) for a in h[3]] for h in hist]
        unsorted = [k for k in keys if k != sorted(k)]
        ctx.violation('order of alternatives returned by supp differs from the model order (sorted by position) in %s; '
                      'rows out of source order: %s' % (os.path.basename(fn), unsorted[:3]),
                      {'kind': 'model-order', 'file': fn if text is None else None, 'source': text,
                       'rows': [[list(map(str, k)) for k in ks] for ks in keys][:10]},
                      found_input=bool(unsorted))
    if not proof_ok:
        ctx.violation('proof obligations of Props/C17.v not discharged: %s' % (ctx.notes,),
                      {'kind': 'proof', 'theorem': 'Props/C17.v', 'notes': ctx.notes,
                       'build_error': cov.get('build_error')}, found_input=False)
    for m in metas[:3]:
        if m[2]:
            ctx.sample({'file': os.path.basename(m[0]), 'row_keys': [str(fd.alt_key(m[3], a)) for a in m[2][0][3]]})


def replay(ctx, obj):
    r = obj['replay']
    text = r.get('source')
    if text is None and r.get('file'):
        text = open(r['file']).read()
    if text is None:
        print(obj.get('what'))
        return 1
    job = {'source': text, 'file': os.path.join(ctx.scratch, 'replay.py'), 'sites': r.get('sites', []),
           'positions': r.get('positions', []), 'lint': True}
    if not job['sites']:
        p = prepare(ctx, text, job['file'], 50)
        if p:
            job = p[0]
    res = run_workers(ctx, [job], 6)
    vals = {json.dumps(x[0], sort_keys=True) for x in res}
    for v in sorted(vals)[:6]:
        print(v[:600])
    print('distinct outputs over 6 processes:', len(vals))
    return 1 if len(vals) > 1 else 0
