"""C03 - no phantom definitions; "possibly undefined" exact; never-bound names flagged.

Coq: Props/C03.v (exactness of supp's alternatives on Return-free programs whose try statements
can raise at both designated points; refutation witness K1 for early returns). Harness: the C02
machinery with the generator restricted to that fragment, the oracle continuing after a failed
read (as the semantics does), decision lists enumerated EXHAUSTIVELY (loops <= 2 trips), and the
dynamic union of delivered bindings compared with supp's alternatives for equality."""
import json
import os

from props import c02, pygen
from props import reach_common as rc

LEVEL = 'proof'
ASSUMPTIONS = c02.ASSUMPTIONS + [
    'domain of the theorem: no return (K1), no walrus under and/or/if-else/comprehension-if (K2); comprehension variables and except names not read after their construct',
    'loop bound 2 suffices for reaching definitions: a lemma inside the completeness proof (while_head_exec/for_head_exec use at most 2 trips), a bound only for the CPython side',
]

K1_TREE = [('if', [], [('assign', [], [(1, 'x')], 'plain'), ('return',)], [('assign', [], [(2, 'x')], 'plain')]), ('expr', [(10, 'x')])]

K2_SRC = '''def main(a, g):
    if a and (y := g()):
        pass
    return y
'''


def known_k1(ctx):
    """early return in a branch -> phantom definition (nast.py has no flow termination)"""
    src, reads, binds, obs = rc.analyse_program(ctx, K1_TREE, 'func', None)
    runs, ex = rc.enumerate_decisions(rc.Oracle(pygen.render_instrumented(K1_TREE, 'func'), 'func', cont=True), 50)
    bad = c02.direct_c03(obs, reads, runs, ex)
    return any(b.startswith('phantom') for b in bad)


def known_k2(ctx):
    """walrus under `and`: supp says y is certainly bound at the read; CPython: NameError when a is falsy"""
    import ast
    from supp.util import Source, np
    from supp.nast import extract_scope
    from supp.name import MultiName, UndefinedName
    proj, d = rc.project(ctx)
    source = Source(K2_SRC, os.path.join(d, 'k2.py'))
    extract_scope(source, proj)
    node = [n for n in ast.walk(source.tree) if isinstance(n, ast.Name) and n.id == 'y' and isinstance(n.ctx, ast.Load)][0]
    nm = node.flow.names_at(np(node)).get('y')
    has_undef = nm is None or (isinstance(nm, MultiName) and any(isinstance(a, UndefinedName) for a in nm.alt_names))
    ns = {}
    exec(K2_SRC, ns)
    try:
        ns['main'](0, lambda: 1)
        unbound_possible = False
    except NameError:
        unbound_possible = True
    return unbound_possible and not has_undef


def run(ctx):
    c02.run(ctx, mode='C03')
    for f in ctx.open_findings():
        if f['id'] == 'K1' and known_k1(ctx):
            ctx.known_finding('K1', 'early return in a branch: `if c: x = 1; return / else: x = 2 / print(x)` lists the phantom definition x = 1 (Coq: C03_full_refuted)')
        if f['id'] == 'K2' and known_k2(ctx):
            ctx.known_finding('K2', '`if a and (y := g()): pass` then `y`: reported as certainly bound although the walrus is skipped when a is falsy')


replay = c02.replay
