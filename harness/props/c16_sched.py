"""C16 helper: (1) a Python mirror of coq/Model/Client.v used ONLY to explore the model's state
graph and produce schedules (every schedule is re-evaluated by the Coq model inside Coq and
replayed on the real class; the mirror's own prediction is compared too, so a mirror bug shows
up as a harness error, never as a silent pass); (2) the deterministic line-granularity
scheduler that drives the REAL supp.remote.Environment with instrumented fakes.

No file of /repo is edited: Popen / Client / time / Thread / the lock are replaced by
assignment from this process, preemption is done with sys.settrace on supp/remote.py frames.
"""
import sys
import threading
import _thread


def _sem():
    """binary semaphore, initially 0 (a raw lock: C-level hand-off, no Condition)"""
    l = _thread.allocate_lock()
    l.acquire()
    return l

# ----------------------------------------------------------------------------------------
# (1) mirror of Model/Client.v  (keep in the same order as the Coq file)
# ----------------------------------------------------------------------------------------
PREPARE, CALL, CLOSE = 0, 1, 2
OPNAME = {PREPARE: 'Prepare', CALL: 'Call', CLOSE: 'Close'}

EXN = ['AttrErr', 'TypeErr', 'OSErr', 'EOFErr', 'HangErr', 'LaunchErr', 'TimeoutErr', 'RuntimeErr']
EXN_CODE = {n: i + 1 for i, n in enumerate(EXN)}

COK, CRETRY, CTIMEOUT = 0, 1, 2

START_PC = {PREPARE: ('PAcq',), CALL: ('CEntry',), CLOSE: ('KTry',)}


class Cfg(object):
    def __init__(self, fix_f2=True, fix_f3=True):
        self.fix_f2 = fix_f2
        self.fix_f3 = fix_f3

    def coq(self):
        return '(Build_cfg %s %s)' % ('true' if self.fix_f2 else 'false', 'true' if self.fix_f3 else 'false')


class Oracle(object):
    """popen: list of bool (True = ok), conn: list of COK/CRETRY/CTIMEOUT; defaults ok."""

    def __init__(self, popen=(), conn=()):
        self.popen = tuple(popen)
        self.conn = tuple(conn)

    def p(self, k):
        return self.popen[k] if k < len(self.popen) else True

    def c(self, k):
        return self.conn[k] if k < len(self.conn) else COK

    def coq(self):
        return '(mk_oracle [%s] [%s])' % ('; '.join('true' if b else 'false' for b in self.popen),
                                         '; '.join(('COk', 'CRetry', 'CTimeout')[c] for c in self.conn))

    def key(self):
        return (self.popen, self.conn)


# shared = (lock, handle, conn, launches, popens, attempts, connects, failed, epoch, inflight)
# conn = None | (closed, gotclose, pending)
LOCK, HANDLE, CONN, LAUNCHES, POPENS, ATTEMPTS, CONNECTS, FAILED, EPOCH, INFLIGHT = range(10)


def init_state(scripts):
    sh = (None, None, None, 0, 0, 0, 0, 0, 0, 0)
    clients = tuple((tuple(s), START_PC[s[0]] if s else ('PAcq',), (), 0) for s in scripts)
    return (sh, clients, ())


def _set(sh, **kw):
    l = list(sh)
    for k, v in kw.items():
        l[globals()[k.upper()]] = v
    return tuple(l)


def finished(st, h):
    return h < len(st) and st[h][0] == 'SDone'


def run_popen(o, sh, ok_pc, exc):
    """common body of the Popen step; returns (sh', outcome)"""
    k = sh[POPENS]
    if o.p(k):
        return _set(sh, popens=k + 1, launches=sh[LAUNCHES] + 1, inflight=sh[INFLIGHT] + 1), ok_pc
    return _set(sh, popens=k + 1), exc('LaunchErr')


def run_connect(o, sh, ok, retry, exc):
    k = sh[ATTEMPTS]
    r = o.c(k)
    if r == COK:
        return _set(sh, attempts=k + 1, conn=(False, False, 0), connects=sh[CONNECTS] + 1,
                    inflight=sh[INFLIGHT] - 1 if sh[INFLIGHT] else 0), ok
    if r == CRETRY:
        return _set(sh, attempts=k + 1), retry
    return _set(sh, attempts=k + 1, failed=sh[FAILED] + 1,
                inflight=sh[INFLIGHT] - 1 if sh[INFLIGHT] else 0), exc('TimeoutErr')


def cstep(cfg, o, i, sh, st, p):
    """one line of client thread i at pc p. Returns None (blocked) or (sh', st', outcome);
    outcome = ('goto', pc) | ('done',) | ('raise', e) | ('answer',)"""
    lock, handle, conn = sh[LOCK], sh[HANDLE], sh[CONN]
    G = lambda *pc: ('goto', tuple(pc))
    k = p[0]
    # ---- prepare(): remote.py:73-82
    if k in ('PAcq', 'PAcqW'):
        if lock is None:
            return _set(sh, lock=i), st, G('PTestH')
        return (sh, st, G('PAcqW')) if k == 'PAcq' else None
    if k == 'PTestH':
        return sh, st, (G('PRet1') if handle is not None else G('PHas'))
    if k == 'PRet1':
        return sh, st, G('PRel')
    if k == 'PHas':
        return sh, st, (G('PRet2') if conn is not None else G('PMk'))
    if k == 'PRet2':
        return sh, st, G('PRel')
    if k == 'PMk':
        return _set(sh, handle=len(st)), st + (('SNew',),), G('PStart')
    if k == 'PStart':
        if handle is None:
            return sh, st, G('PRelExc', 'AttrErr')
        if handle < len(st) and st[handle] == ('SNew',):
            st2 = st[:handle] + (('S68',),) + st[handle + 1:]
            return sh, st2, G('PRel')
        return sh, st, G('PRelExc', 'RuntimeErr')
    if k == 'PRel':
        return _set(sh, lock=None), st, ('done',)
    if k == 'PRelExc':
        return _set(sh, lock=None), st, ('raise', p[1])
    # ---- public wrapper + _call(): remote.py:92-104
    if k == 'CEntry':
        return sh, st, G('CTry')
    if k == 'CTry':
        return sh, st, G('CGet')
    if k == 'CGet':
        return sh, st, (G('CSend') if conn is not None else G('CExc'))
    if k == 'CExc':
        return sh, st, G('CRun')
    if k == 'CRun':
        return sh, st, G('RAcq')
    # ---- run(): remote.py:84-90
    if k in ('RAcq', 'RAcqW'):
        if lock is None:
            return _set(sh, lock=i), st, (G('RRead') if cfg.fix_f3 else G('RTest'))
        return (sh, st, G('RAcqW')) if k == 'RAcq' else None
    if k == 'RTest':      # as-is: if self.prepare_thread:
        return sh, st, (G('RJoin') if handle is not None else G('RHas'))
    if k == 'RJoin':      # as-is: self.prepare_thread.join()  (second read of the handle)
        if handle is None:
            return sh, st, G('RRelExc', 'AttrErr')
        return sh, st, (G('RHas') if finished(st, handle) else G('RJoinW', handle))
    if k == 'RRead':      # fixed: thread = self.prepare_thread
        return sh, st, G('RTestL', handle)
    if k == 'RTestL':     # fixed: if thread:
        return sh, st, (G('RJoinL', p[1]) if p[1] is not None else G('RHas'))
    if k == 'RJoinL':     # fixed: thread.join()
        return sh, st, (G('RHas') if finished(st, p[1]) else G('RJoinW', p[1]))
    if k == 'RJoinW':
        return (sh, st, G('RHas')) if finished(st, p[1]) else None
    if k == 'RHas':
        return sh, st, (G('RRel') if conn is not None else G('RCallRun'))
    if k == 'RCallRun':
        return sh, st, G('RPopen')
    if k == 'RPopen':
        sh2, out = run_popen(o, sh, G('RConnect'), lambda e: G('RRelExc', e))
        return sh2, st, out
    if k == 'RConnect':
        sh2, out = run_connect(o, sh, G('RRel'), G('RConnect'), lambda e: G('RRelExc', e))
        return sh2, st, out
    if k == 'RRel':
        return _set(sh, lock=None), st, G('CSend')
    if k == 'RRelExc':
        return _set(sh, lock=None), st, ('raise', p[1])
    if k == 'CSend':
        if conn is None:
            return sh, st, ('raise', 'AttrErr')
        closed, got, pend = conn
        if closed:
            return sh, st, ('raise', 'OSErr')
        return _set(sh, conn=(closed, got, pend if got else pend + 1)), st, G('CRecv')
    if k == 'CRecv':
        if conn is None:
            return sh, st, ('raise', 'AttrErr')
        closed, got, pend = conn
        if closed:
            return sh, st, ('raise', 'OSErr')
        if pend > 0:
            return _set(sh, conn=(closed, got, pend - 1)), st, G('CIsOk')
        return sh, st, ('raise', 'EOFErr' if got else 'HangErr')
    if k == 'CIsOk':
        return sh, st, G('CRet')
    if k == 'CRet':
        return sh, st, ('answer',)
    # ---- close(): remote.py:186-196
    if k == 'KTry':
        return sh, st, G('KGet')
    if k == 'KGet':
        return sh, st, (G('KSend') if conn is not None else G('KExc'))
    if k == 'KExc':
        return sh, st, G('KPass')
    if k == 'KPass':
        return sh, st, ('done',)
    if k == 'KSend':
        if conn is None:
            return sh, st, ('raise', 'AttrErr')
        if not cfg.fix_f2:
            return sh, st, ('raise', 'TypeErr')
        closed, got, pend = conn
        if closed:
            return sh, st, ('raise', 'OSErr')
        return _set(sh, conn=(closed, True, pend)), st, G('KClose')
    if k == 'KClose':
        if conn is None:
            return sh, st, ('raise', 'AttrErr')
        return _set(sh, conn=(True, conn[1], conn[2])), st, G('KDel')
    if k == 'KDel':
        if conn is None:
            return sh, st, ('raise', 'AttrErr')
        return _set(sh, conn=None, epoch=sh[EPOCH] + 1), st, ('done',)
    raise AssertionError(p)


def sstep(o, h, sh, status):
    """one line of starter h (remote.py:67-71). Returns None or (sh', status')"""
    k = status[0]
    if k in ('SNew', 'SDone'):
        return None
    if k == 'S68':
        return sh, ('S69',)
    if k == 'S69':
        return sh, ('SPopen',)
    if k == 'SPopen':
        sh2, out = run_popen(o, sh, ('SConnect',), lambda e: ('S71', e))
        return sh2, out
    if k == 'SConnect':
        sh2, out = run_connect(o, sh, ('S71', None), ('SConnect',), lambda e: ('S71', e))
        return sh2, out
    if k == 'S71':
        return _set(sh, handle=None), ('SDone', status[1])
    raise AssertionError(status)


def advance(t, outcome):
    script, pc, exns, ans = t
    kind = outcome[0]
    if kind == 'goto':
        return (script, outcome[1], exns, ans)
    if kind == 'raise':
        exns = exns + (outcome[1],)
    elif kind == 'answer':
        ans += 1
    script = script[1:]
    return (script, START_PC[script[0]] if script else ('PAcq',), exns, ans)


def step(cfg, o, s, tid):
    """tid = ('C', i) | ('S', h). None = blocked / finished / no such thread."""
    sh, clients, st = s
    if tid[0] == 'C':
        i = tid[1]
        if i >= len(clients) or not clients[i][0]:
            return None
        r = cstep(cfg, o, i, sh, st, clients[i][1])
        if r is None:
            return None
        sh2, st2, out = r
        return (sh2, clients[:i] + (advance(clients[i], out),) + clients[i + 1:], st2)
    h = tid[1]
    if h >= len(st):
        return None
    r = sstep(o, h, sh, st[h])
    if r is None:
        return None
    sh2, status = r
    return (sh2, clients, st[:h] + (status,) + st[h + 1:])


def tids(s):
    return [('C', i) for i in range(len(s[1]))] + [('S', h) for h in range(len(s[2]))]


def enabled(cfg, o, s):
    return [t for t in tids(s) if step(cfg, o, s, t) is not None]


# ---- location of a pc in the source: (function code, line offset from the def line, kind)
# kind: 0 = about to execute that line, 1 = blocked acquiring the lock, 2 = blocked in join,
#       3 = inside _run about to call Popen, 4 = inside _run about to call Client
FUNC = {'prepare': 1, 'run': 2, '_threaded_run': 3, '_call': 4, 'close': 5, 'eval': 6}


def pc_loc(cfg, p):
    k = p[0]
    f3 = 1 if cfg.fix_f3 else 0
    P = {'PAcq': (1, 1, 0), 'PAcqW': (1, 1, 1), 'PTestH': (1, 2, 0), 'PRet1': (1, 3, 0), 'PHas': (1, 5, 0),
         'PRet2': (1, 6, 0), 'PMk': (1, 8, 0), 'PStart': (1, 9, 0), 'PRel': (1, 1, 0), 'PRelExc': (1, 1, 0),
         'CEntry': (6, 1, 0), 'CTry': (4, 1, 0), 'CGet': (4, 2, 0), 'CExc': (4, 3, 0), 'CRun': (4, 4, 0),
         'RAcq': (2, 1, 0), 'RAcqW': (2, 1, 1), 'RTest': (2, 2, 0), 'RJoin': (2, 3, 0),
         'RRead': (2, 2, 0), 'RTestL': (2, 3, 0), 'RJoinL': (2, 4, 0), 'RJoinW': (2, 3 + f3, 2),
         'RHas': (2, 5 + f3, 0), 'RCallRun': (2, 6 + f3, 0), 'RPopen': (2, 6 + f3, 3), 'RConnect': (2, 6 + f3, 4),
         'RRel': (2, 1, 0), 'RRelExc': (2, 1, 0),
         'CSend': (4, 6, 0), 'CRecv': (4, 7, 0), 'CIsOk': (4, 9, 0), 'CRet': (4, 10, 0),
         'KTry': (5, 3, 0), 'KGet': (5, 4, 0), 'KExc': (5, 5, 0), 'KPass': (5, 6, 0), 'KSend': (5, 8, 0),
         'KClose': (5, 9, 0), 'KDel': (5, 10, 0)}
    return P[k]


def st_loc(status):
    return {'SNew': (0, 0, 5), 'S68': (3, 1, 0), 'S69': (3, 2, 0), 'SPopen': (3, 2, 3), 'SConnect': (3, 2, 4),
            'S71': (3, 4, 0), 'SDone': (0, 0, 6)}[status[0]]


def observe(cfg, o, s):
    """canonical observation (nested python ints) - the same shape the real scheduler builds"""
    sh, clients, st = s
    conn = sh[CONN]
    connv = [0, 0, 0, 0] if conn is None else [1, int(conn[0]), int(conn[1]), conn[2]]
    en = set(enabled(cfg, o, s))
    res = [sh[LAUNCHES], sh[POPENS], sh[ATTEMPTS]] + connv + [0 if sh[HANDLE] is None else sh[HANDLE] + 1,
                                                             0 if sh[LOCK] is None else sh[LOCK] + 1, len(st)]
    for i, (script, pc, exns, ans) in enumerate(clients):
        loc = pc_loc(cfg, pc) if script else (0, 0, 6)
        res += [len(script), loc[0], loc[1], loc[2], ans, int(('C', i) in en), len(exns)] + [EXN_CODE[e] for e in exns]
    for h, status in enumerate(st):
        loc = st_loc(status)
        e = status[1] if status[0] in ('S71', 'SDone') else None
        res += [loc[0], loc[1], loc[2], int(('S', h) in en), 0 if e is None else EXN_CODE[e]]
    return res


# ---- exploration: a set of schedules covering every reachable (state, thread) transition
def explore(cfg, o, scripts, max_states=2000000):
    """DFS over the mirror's state graph. Returns (paths, nstates, nedges): every enabled
    transition of every reachable state lies on at least one path (a path = list of tids)."""
    s0 = init_state(scripts)
    seen = {s0}
    paths = []
    nedges = 0
    # iterative DFS keeping the current path
    stack = [(s0, iter(enabled(cfg, o, s0)))]
    path = []
    extended = False
    while stack:
        s, it = stack[-1]
        t = next(it, None)
        if t is None:
            if not extended:
                pass
            stack.pop()
            if path:
                path.pop()
            continue
        nedges += 1
        s2 = step(cfg, o, s, t)
        if s2 in seen:
            paths.append(path + [t])      # covers this edge; stops at a visited state
            continue
        seen.add(s2)
        if len(seen) > max_states:
            raise RuntimeError('state space too large')
        en2 = enabled(cfg, o, s2)
        if not en2:
            paths.append(path + [t])      # terminal state
            continue
        path.append(t)
        stack.append((s2, iter(en2)))
    return paths, len(seen), nedges


def build_graph(cfg, o, scripts, max_states=3000000):
    """Reachable state graph of the mirror: (states list, out-edges per state [(tid, dst id)])."""
    s0 = init_state(scripts)
    ids = {s0: 0}
    states = [s0]
    out = []
    k = 0
    while k < len(states):
        s = states[k]
        es = []
        for t in tids(s):
            s2 = step(cfg, o, s, t)
            if s2 is None:
                continue
            j = ids.get(s2)
            if j is None:
                j = len(states)
                ids[s2] = j
                states.append(s2)
                if j > max_states:
                    raise RuntimeError('state space too large')
            es.append((t, j))
        out.append(es)
        k += 1
    return states, out


def edge_cover(out, rng=None, limit_paths=None):
    """Greedy cover of every edge of a DAG (self-loops allowed) by paths from state 0.
    Returns list of paths (lists of tids)."""
    n = len(out)
    covered = [[False] * len(es) for es in out]
    # useful[s] = number of out-edges of s that are uncovered or lead to a state with useful > 0
    preds = [[] for _ in range(n)]
    for s, es in enumerate(out):
        for k, (_t, d) in enumerate(es):
            if d != s:
                preds[d].append((s, k))
    useful = [len(es) for es in out]     # initially every edge is uncovered, hence useful
    total_unc = sum(useful)

    def drop(s):
        # state s lost one useful edge
        work = [s]
        while work:
            x = work.pop()
            useful[x] -= 1
            if useful[x] == 0:
                for (p, k) in preds[x]:
                    if covered[p][k]:
                        work.append(p)

    paths = []
    while total_unc > 0 and useful[0] > 0:
        s = 0
        path = []
        new = 0
        while True:
            es = out[s]
            pick = None
            cand = [k for k in range(len(es)) if not covered[s][k]]
            if cand:
                pick = cand[0] if rng is None else rng.choice(cand)
            else:
                cand = [k for k in range(len(es)) if es[k][1] != s and useful[es[k][1]] > 0]
                if not cand:
                    break
                pick = cand[0] if rng is None else rng.choice(cand)
            t, d = es[pick]
            path.append(t)
            if not covered[s][pick]:
                covered[s][pick] = True
                total_unc -= 1
                new += 1
                if d == s or useful[d] == 0:
                    drop(s)
            s2 = d
            if s2 == s:
                # self-loop (cannot happen with finite oracles; guard against spinning)
                if not any(not c for c in covered[s]) and not any(
                        es[k][1] != s and useful[es[k][1]] > 0 for k in range(len(es))):
                    break
            s = s2
        assert new > 0
        paths.append(path)
        if limit_paths and len(paths) >= limit_paths:
            break
    return paths


# ----------------------------------------------------------------------------------------
# (2) deterministic scheduler for the REAL supp.remote.Environment
# ----------------------------------------------------------------------------------------
class SchedAbort(BaseException):
    """raised inside a controlled thread to unwind it when a replay ends early"""


class HangError(Exception):
    """fake connection: recv with no reply outstanding (the real client would block)"""


class HarnessError(Exception):
    """the instrumentation could not be installed / observed (fail closed)"""


class _T(object):
    """a controlled thread"""

    def __init__(self, kind, idx):
        self.kind = kind            # 'C' | 'S'
        self.idx = idx
        self.go = _sem()
        self.ready = _sem()
        self.first = True
        self.status = ('new',)      # ('new',) ('line', f, off) ('lock', f, off) ('join', h, f, off)
        #                             ('popen', f, off) ('connect', f, off) ('done',)
        self.real = None
        self.exns = []
        self.answers = 0
        self.remaining = 0
        self.exn = None             # starter: exception that ended it


class RealRun(object):
    """One replay: fresh Environment, fresh fakes, fresh threads."""

    def __init__(self, scripts, oracle, repo_remote=None):
        import supp.remote as R
        self.R = repo_remote or R
        self.file = self.R.__file__
        if self.file.endswith('.pyc'):
            self.file = self.file[:-1]
        self.scripts = [list(s) for s in scripts]
        self.o = oracle
        self.back = _sem()
        self.local = threading.local()
        self.abort = False
        self.launches = self.popens = self.attempts = 0
        self.clock = 0.0
        self.clients = [_T('C', i) for i in range(len(scripts))]
        self.starters = []
        self.lock_owner = None
        self.env = None
        self.problems = []

    # ---- baton ---------------------------------------------------------------------------
    def me(self):
        return getattr(self.local, 't', None)

    def _park(self, t, status):
        """called by the running controlled thread: publish status, give the baton back, wait"""
        if self.abort:
            raise SchedAbort()
        t.status = status
        if t.first:
            t.first = False
            t.ready.release()
        else:
            self.back.release()
        t.go.acquire()
        if self.abort:
            raise SchedAbort()

    def _where(self):
        """(function name, line offset) of the innermost traced supp/remote.py frame"""
        f = sys._getframe(2)
        while f is not None:
            c = f.f_code
            if c.co_filename == self.file and c.co_name != '_run':
                return c.co_name, f.f_lineno - c.co_firstlineno
            f = f.f_back
        return '?', 0

    def _tracer(self, frame, event, arg):
        c = frame.f_code
        if c.co_filename != self.file or c.co_name in ('_run', '__init__'):
            return None
        return self._local_tracer

    def _local_tracer(self, frame, event, arg):
        if self.abort:
            return None                 # unwinding: never park again
        if event == 'line':
            t = self.me()
            if t is not None:
                c = frame.f_code
                self._park(t, ('line', c.co_name, frame.f_lineno - c.co_firstlineno))
        return self._local_tracer

    # ---- stand-ins ------------------------------------------------------------------------
    def make_standins(run):
        class SLock(object):
            def acquire(self, blocking=True, timeout=-1):
                t = run.me()
                if t is None:
                    raise HarnessError('lock used outside a controlled thread')
                if run.lock_owner is not None:
                    if not blocking:
                        return False
                    run._park(t, ('lock',) + run._where())
                    if run.lock_owner is not None:
                        raise HarnessError('resumed while the lock is held')
                run.lock_owner = t
                return True

            def release(self):
                if run.lock_owner is None:
                    raise RuntimeError('release unlocked lock')
                run.lock_owner = None

            def locked(self):
                return run.lock_owner is not None

            def __enter__(self):
                self.acquire()
                return True

            def __exit__(self, *a):
                self.release()

        class SThread(object):
            def __init__(self, group=None, target=None, name=None, args=(), kwargs=None, daemon=None):
                self._target, self._args, self._kwargs = target, args, kwargs or {}
                self.name = name or 'starter'
                self.daemon = daemon
                self.t = _T('S', len(run.starters))
                run.starters.append(self.t)
                self.t.handle = self

            def start(self):
                t = self.t
                if t.real is not None:
                    raise RuntimeError('threads can only be started once')
                t.real = threading.Thread(target=self._main, daemon=True)
                t.real.start()
                t.ready.acquire()          # until it reaches its first line

            def _main(self):
                t = self.t
                run.local.t = t
                sys.settrace(run._tracer)
                try:
                    try:
                        self._target(*self._args, **self._kwargs)
                    except SchedAbort:
                        return
                    except BaseException as e:      # what threading.excepthook would print
                        t.exn = e
                finally:
                    sys.settrace(None)
                    if not run.abort:
                        t.status = ('done',)
                        if t.first:
                            t.first = False
                            t.ready.release()
                        else:
                            run.back.release()

            def join(self, timeout=None):
                me = run.me()
                t = self.t
                if t.status != ('done',):
                    if me is None:
                        raise HarnessError('join outside a controlled thread')
                    if t is me:
                        raise RuntimeError('cannot join current thread')
                    run._park(me, ('join', t.idx) + run._where())
                    if t.status != ('done',):
                        raise HarnessError('resumed before the joined thread finished')

            def is_alive(self):
                return self.t.real is not None and self.t.status != ('done',)

        class FakePopen(object):
            pid = 0
            returncode = None

            def __init__(self, args, *a, **kw):
                t = run.me()
                if t is not None:
                    run._park(t, ('popen',) + run._where())
                k = run.popens
                run.popens += 1
                if not run.o.p(k):
                    raise FileNotFoundError(2, 'No such file or directory (planned by the oracle)')
                run.launches += 1

            def poll(self):
                return None

            def wait(self, timeout=None):
                return 0

            def kill(self):
                pass

            terminate = kill

        class FakeConn(object):
            def __init__(self):
                self.closed = False
                self.gotclose = False
                self.queue = []
                self.sent = []

            def send_bytes(self, b):
                if self.closed:
                    raise OSError('handle is closed')
                from supp.umsgpack import loads, dumps
                msg = loads(b)
                self.sent.append(msg[0])
                if msg[0] == 'close':
                    self.gotclose = True
                elif not self.gotclose:
                    self.queue.append(dumps((42, True)))

            def recv_bytes(self):
                if self.closed:
                    raise OSError('handle is closed')
                if self.queue:
                    return self.queue.pop(0)
                if self.gotclose:
                    raise EOFError()
                raise HangError('recv with no reply outstanding')

            def close(self):
                self.closed = True

        def FakeClient(address, *a, **kw):
            t = run.me()
            if t is not None:
                run._park(t, ('connect',) + run._where())
            k = run.attempts
            run.attempts += 1
            r = run.o.c(k)
            if r == COK:
                return FakeConn()
            if r == CTIMEOUT:
                run.clock += 10.0
            raise ConnectionRefusedError(111, 'Connection refused (planned by the oracle)')

        class FakeTime(object):
            @staticmethod
            def time():
                return run.clock

            @staticmethod
            def sleep(d):
                run.clock += d

        return SLock, SThread, FakePopen, FakeConn, FakeClient, FakeTime

    # ---- life cycle -----------------------------------------------------------------------
    def __enter__(self):
        import subprocess
        import multiprocessing.connection as mc
        R = self.R
        SLock, SThread, FakePopen, FakeConn, FakeClient, FakeTime = self.make_standins()
        self.FakeConn, self.SThread, self.SLock = FakeConn, SThread, SLock
        self._saved = (subprocess.Popen, mc.Client, R.__dict__.get('Thread'), R.__dict__.get('Lock'),
                       R.__dict__.get('time'))
        for nm in ('Thread', 'Lock', 'time'):
            if nm not in R.__dict__:
                raise HarnessError('supp.remote no longer has a module-level %r to replace' % nm)
        subprocess.Popen = FakePopen
        mc.Client = FakeClient
        R.Thread, R.Lock, R.time = SThread, SLock, FakeTime
        try:
            self.env = R.Environment(executable='/nonexistent/python-of-the-harness')
            lk = getattr(self.env, 'prepare_lock', None)
            if not isinstance(lk, SLock):
                raise HarnessError('Environment.prepare_lock is not created from supp.remote.Lock')
            for t, script in zip(self.clients, self.scripts):
                t.remaining = len(script)
                if not script:
                    t.status = ('done',)
                    continue
                t.real = threading.Thread(target=self._client_main, args=(t, script), daemon=True)
                t.real.start()
                t.ready.acquire()
        except BaseException:
            self.__exit__(None, None, None)
            raise
        return self

    def _client_main(self, t, script):
        self.local.t = t
        sys.settrace(self._tracer)
        env = self.env
        try:
            for op in script:
                try:
                    if op == PREPARE:
                        env.prepare()
                    elif op == CALL:
                        r = env.eval('1')
                        if r != 42:
                            self.problems.append('reply %r' % (r,))
                        t.answers += 1
                    else:
                        env.close()
                except SchedAbort:
                    return
                except Exception as e:
                    t.exns.append(e)
                t.remaining -= 1
        except SchedAbort:
            return
        finally:
            sys.settrace(None)
            if not self.abort:
                t.status = ('done',)
                if t.first:
                    t.first = False
                    t.ready.release()
                else:
                    self.back.release()

    def __exit__(self, *exc):
        import subprocess
        import multiprocessing.connection as mc
        self.abort = True
        for t in self.clients + self.starters:
            if t.real is not None and t.status != ('done',):
                t.go.release()
        for t in self.clients + self.starters:
            if t.real is not None:
                t.real.join(10)
                if t.real.is_alive():
                    self.problems.append('thread did not unwind')
        subprocess.Popen, mc.Client, self.R.Thread, self.R.Lock, self.R.time = self._saved
        return False

    # ---- stepping and observing -------------------------------------------------------------
    def thread(self, tid):
        kind, i = tid
        l = self.clients if kind == 'C' else self.starters
        return l[i] if i < len(l) else None

    def is_enabled(self, t):
        st = t.status[0]
        if st in ('done', 'new'):
            return False
        if st == 'lock':
            return self.lock_owner is None
        if st == 'join':
            return self.starters[t.status[1]].status == ('done',)
        return True

    def step(self, tid):
        """let thread tid execute one line; False when it is blocked / finished / absent"""
        t = self.thread(tid)
        if t is None or not self.is_enabled(t):
            return False
        t.go.release()
        self.back.acquire()
        return True

    @staticmethod
    def exn_code(e):
        if isinstance(e, HangError):
            return EXN_CODE['HangErr']
        if isinstance(e, FileNotFoundError):
            return EXN_CODE['LaunchErr']
        if isinstance(e, AttributeError):
            return EXN_CODE['AttrErr']
        if isinstance(e, TypeError):
            return EXN_CODE['TypeErr']
        if isinstance(e, EOFError):
            return EXN_CODE['EOFErr']
        if isinstance(e, OSError):
            return EXN_CODE['OSErr']
        if isinstance(e, RuntimeError):
            return EXN_CODE['RuntimeErr']
        if type(e) is Exception and str(e).startswith('Supp server launching timeout'):
            return EXN_CODE['TimeoutErr']
        return 99

    def _loc(self, t):
        st = t.status
        k = st[0]
        if k == 'done':
            return (0, 0, 6)
        if k == 'new':
            return (0, 0, 5)
        if k == 'join':
            f, off, kind = st[2], st[3], 2
        else:
            f, off = st[1], st[2]
            kind = {'line': 0, 'lock': 1, 'popen': 3, 'connect': 4}[k]
        return (FUNC.get(f, 90), off, kind)

    def observe(self):
        env = self.env
        d = getattr(env, '__dict__', {})
        if 'conn' in d:
            c = d['conn']
            connv = [1, int(c.closed), int(c.gotclose), len(c.queue)] if isinstance(c, self.FakeConn) else [9, 9, 9, 9]
        else:
            connv = [1, 9, 9, 9] if hasattr(env, 'conn') else [0, 0, 0, 0]
        h = getattr(env, 'prepare_thread', 98)
        hv = 0 if h is None else (h.t.idx + 1 if isinstance(h, self.SThread) else 99)
        lo = self.lock_owner
        res = [self.launches, self.popens, self.attempts] + connv + [hv, 0 if lo is None else lo.idx + 1,
                                                                  len(self.starters)]
        for t in self.clients:
            loc = self._loc(t)
            res += [t.remaining, loc[0], loc[1], loc[2], t.answers, int(self.is_enabled(t)), len(t.exns)]
            res += [self.exn_code(e) for e in t.exns]
        for t in self.starters:
            loc = self._loc(t)
            res += [loc[0], loc[1], loc[2], int(self.is_enabled(t)), 0 if t.exn is None else self.exn_code(t.exn)]
        return res

    def enabled_tids(self):
        return [(t.kind, t.idx) for t in self.clients + self.starters if self.is_enabled(t)]


def replay_real(scripts, oracle, schedule, observe_every=True):
    """Run one schedule on the real class. Returns (observations, problems): observations[0] is
    the initial one, observations[k] the one after schedule[k-1] (a disabled pick is a stutter)."""
    with RealRun(scripts, oracle) as run:
        obs = [run.observe()]
        for tid in schedule:
            run.step(tid)
            if observe_every:
                obs.append(run.observe())
        if not observe_every:
            obs.append(run.observe())
        return obs, list(run.problems)


def replay_mirror(cfg, oracle, scripts, schedule):
    s = init_state(scripts)
    obs = [observe(cfg, oracle, s)]
    for tid in schedule:
        s2 = step(cfg, oracle, s, tid)
        if s2 is not None:
            s = s2
        obs.append(observe(cfg, oracle, s))
    return obs
