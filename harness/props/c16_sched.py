"""C16 helper: (1) a Python mirror of coq/Model/Client.v used ONLY to explore the model's state
graph and produce schedules (every schedule is re-evaluated by the Coq model inside Coq and
replayed on the real class; the mirror's own prediction is compared too, so a mirror bug shows
up as a harness error, never as a silent pass); (2) the deterministic line-granularity
scheduler that drives the REAL supp.remote.Environment with instrumented fakes.

No file of /repo is edited: Popen / Client / time / Thread / the lock are replaced by
assignment from this process, preemption is done with sys.settrace on supp/remote.py frames.
"""
import sys
import threading
import _thread


def _sem():
    """binary semaphore, initially 0 (a raw lock: C-level hand-off, no Condition)"""
    l = _thread.allocate_lock()
    l.acquire()
    return l

# ----------------------------------------------------------------------------------------
# (1) mirror of Model/Client.v  (keep in the same order as the Coq file)
# ----------------------------------------------------------------------------------------
PREPARE, CALL, CLOSE = 0, 1, 2
OPNAME = {PREPARE: 'Prepare', CALL: 'Call', CLOSE: 'Close'}

EXN = ['AttrErr', 'TypeErr', 'OSErr', 'EOFErr', 'HangErr', 'LaunchErr', 'TimeoutErr', 'RuntimeErr']
EXN_CODE = {n: i + 1 for i, n in enumerate(EXN)}

COK, CRETRY, CTIMEOUT = 0, 1, 2

START_PC = {PREPARE: ('PAcq',), CALL: ('CEntry',), CLOSE: ('KTry',)}


class Cfg(object):
    def __init__(self, fix_f2=True, fix_f3=True):
        self.fix_f2 = fix_f2
        self.fix_f3 = fix_f3

    def coq(self):
        return '(Build_cfg %s %s)' % ('true' if self.fix_f2 else 'false', 'true' if self.fix_f3 else 'false')


class Oracle(object):
    """popen: list of bool (True = ok), conn: list of COK/CRETRY/CTIMEOUT; defaults ok."""

    def __init__(self, popen=(), conn=()):
        self.popen = tuple(popen)
        self.conn = tuple(conn)

    def p(self, k):
        return self.popen[k] if k < len(self.popen) else True

    def c(self, k):
        return self.conn[k] if k < len(self.conn) else COK

    def coq(self):
        return '(mk_oracle [%s] [%s])' % ('; '.join('true' if b else 'false' for b in self.popen),
                                         '; '.join(('COk', 'CRetry', 'CTimeout')[c] for c in self.conn))

    def key(self):
        return (self.popen, self.conn)


# shared = (lock, handle, conn, launches, popens, attempts, connects, failed, epoch, inflight, naddr, srv)
# conn = None | (closed, gotclose, pending, addr); srv = addresses given to launched servers, newest first
LOCK, HANDLE, CONN, LAUNCHES, POPENS, ATTEMPTS, CONNECTS, FAILED, EPOCH, INFLIGHT, NADDR, SRV = range(12)


def init_state(scripts):
    sh = (None, None, None, 0, 0, 0, 0, 0, 0, 0, 0, ())
    clients = tuple((tuple(s), START_PC[s[0]] if s else ('PAcq',), (), 0) for s in scripts)
    return (sh, clients, ())


def _set(sh, **kw):
    l = list(sh)
    for k, v in kw.items():
        l[globals()[k.upper()]] = v
    return tuple(l)


def finished(st, h):
    return h < len(st) and st[h][0] == 'SDone'


def run_popen(o, a, sh, ok_pc, exc):
    """common body of the Popen step; returns (sh', outcome)"""
    k = sh[POPENS]
    if o.p(k):
        return _set(sh, popens=k + 1, launches=sh[LAUNCHES] + 1, inflight=sh[INFLIGHT] + 1,
                    srv=(a,) + sh[SRV]), ok_pc
    return _set(sh, popens=k + 1), exc('LaunchErr')


def run_connect(o, a, sh, ok, retry, exc):
    k = sh[ATTEMPTS]
    r = o.c(k)
    if r == COK:
        return _set(sh, attempts=k + 1, conn=(False, False, 0, a), connects=sh[CONNECTS] + 1,
                    inflight=sh[INFLIGHT] - 1 if sh[INFLIGHT] else 0), ok
    if r == CRETRY:
        return _set(sh, attempts=k + 1), retry
    return _set(sh, attempts=k + 1, failed=sh[FAILED] + 1,
                inflight=sh[INFLIGHT] - 1 if sh[INFLIGHT] else 0), exc('TimeoutErr')


def cstep(cfg, o, i, sh, st, p):
    """one line of client thread i at pc p. Returns None (blocked) or (sh', st', outcome);
    outcome = ('goto', pc) | ('done',) | ('raise', e) | ('answer',)"""
    lock, handle, conn = sh[LOCK], sh[HANDLE], sh[CONN]
    G = lambda *pc: ('goto', tuple(pc))
    k = p[0]
    # ---- prepare(): remote.py:73-82
    if k in ('PAcq', 'PAcqW'):
        if lock is None:
            return _set(sh, lock=i), st, G('PTestH')
        return (sh, st, G('PAcqW')) if k == 'PAcq' else None
    if k == 'PTestH':
        return sh, st, (G('PRet1') if handle is not None else G('PHas'))
    if k == 'PRet1':
        return sh, st, G('PRel')
    if k == 'PHas':
        return sh, st, (G('PRet2') if conn is not None else G('PMk'))
    if k == 'PRet2':
        return sh, st, G('PRel')
    if k == 'PMk':
        return _set(sh, handle=len(st)), st + (('SNew',),), G('PStart')
    if k == 'PStart':
        if handle is None:
            return sh, st, G('PRelExc', 'AttrErr')
        if handle < len(st) and st[handle] == ('SNew',):
            st2 = st[:handle] + (('S68',),) + st[handle + 1:]
            return sh, st2, G('PRel')
        return sh, st, G('PRelExc', 'RuntimeErr')
    if k == 'PRel':
        return _set(sh, lock=None), st, ('done',)
    if k == 'PRelExc':
        return _set(sh, lock=None), st, ('raise', p[1])
    # ---- public wrapper + _call(): remote.py:92-104
    if k == 'CEntry':
        return sh, st, G('CTry')
    if k == 'CTry':
        return sh, st, G('CGet')
    if k == 'CGet':
        return sh, st, (G('CSend') if conn is not None else G('CExc'))
    if k == 'CExc':
        return sh, st, G('CRun')
    if k == 'CRun':
        return sh, st, G('RAcq')
    # ---- run(): remote.py:84-90
    if k in ('RAcq', 'RAcqW'):
        if lock is None:
            return _set(sh, lock=i), st, (G('RRead') if cfg.fix_f3 else G('RTest'))
        return (sh, st, G('RAcqW')) if k == 'RAcq' else None
    if k == 'RTest':      # as-is: if self.prepare_thread:
        return sh, st, (G('RJoin') if handle is not None else G('RHas'))
    if k == 'RJoin':      # as-is: self.prepare_thread.join()  (second read of the handle)
        if handle is None:
            return sh, st, G('RRelExc', 'AttrErr')
        return sh, st, (G('RHas') if finished(st, handle) else G('RJoinW', handle))
    if k == 'RRead':      # fixed: thread = self.prepare_thread
        return sh, st, G('RTestL', handle)
    if k == 'RTestL':     # fixed: if thread:
        return sh, st, (G('RJoinL', p[1]) if p[1] is not None else G('RHas'))
    if k == 'RJoinL':     # fixed: thread.join()
        return sh, st, (G('RHas') if finished(st, p[1]) else G('RJoinW', p[1]))
    if k == 'RJoinW':
        return (sh, st, G('RHas')) if finished(st, p[1]) else None
    if k == 'RHas':
        return sh, st, (G('RRel') if conn is not None else G('RCallRun'))
    if k == 'RCallRun':       # addr = arbitrary_address(...): a new address on every _run
        return _set(sh, naddr=sh[NADDR] + 1), st, G('RPopen', sh[NADDR])
    if k == 'RPopen':
        sh2, out = run_popen(o, p[1], sh, G('RConnect', p[1]), lambda e: G('RRelExc', e))
        return sh2, st, out
    if k == 'RConnect':
        sh2, out = run_connect(o, p[1], sh, G('RRel'), G('RConnect', p[1]), lambda e: G('RRelExc', e))
        return sh2, st, out
    if k == 'RRel':
        return _set(sh, lock=None), st, G('CSend')
    if k == 'RRelExc':
        return _set(sh, lock=None), st, ('raise', p[1])
    if k == 'CSend':
        if conn is None:
            return sh, st, ('raise', 'AttrErr')
        closed, got, pend, ad = conn
        if closed:
            return sh, st, ('raise', 'OSErr')
        return _set(sh, conn=(closed, got, pend if got else pend + 1, ad)), st, G('CRecv')
    if k == 'CRecv':
        if conn is None:
            return sh, st, ('raise', 'AttrErr')
        closed, got, pend, ad = conn
        if closed:
            return sh, st, ('raise', 'OSErr')
        if pend > 0:
            return _set(sh, conn=(closed, got, pend - 1, ad)), st, G('CIsOk')
        return sh, st, ('raise', 'EOFErr' if got else 'HangErr')
    if k == 'CIsOk':
        return sh, st, G('CRet')
    if k == 'CRet':
        return sh, st, ('answer',)
    # ---- close(): remote.py:186-196
    if k == 'KTry':
        return sh, st, G('KGet')
    if k == 'KGet':
        return sh, st, (G('KSend') if conn is not None else G('KExc'))
    if k == 'KExc':
        return sh, st, G('KPass')
    if k == 'KPass':
        return sh, st, ('done',)
    if k == 'KSend':
        if conn is None:
            return sh, st, ('raise', 'AttrErr')
        if not cfg.fix_f2:
            return sh, st, ('raise', 'TypeErr')
        closed, got, pend, ad = conn
        if closed:
            return sh, st, ('raise', 'OSErr')
        return _set(sh, conn=(closed, True, pend, ad)), st, G('KClose')
    if k == 'KClose':
        if conn is None:
            return sh, st, ('raise', 'AttrErr')
        return _set(sh, conn=(True, conn[1], conn[2], conn[3])), st, G('KDel')
    if k == 'KDel':
        if conn is None:
            return sh, st, ('raise', 'AttrErr')
        return _set(sh, conn=None, epoch=sh[EPOCH] + 1), st, ('done',)
    raise AssertionError(p)


def sstep(o, h, sh, status):
    """one line of starter h (remote.py:67-71). Returns None or (sh', status')"""
    k = status[0]
    if k in ('SNew', 'SDone'):
        return None
    if k == 'S68':
        return sh, ('S69',)
    if k == 'S69':
        return _set(sh, naddr=sh[NADDR] + 1), ('SPopen', sh[NADDR])
    if k == 'SPopen':
        sh2, out = run_popen(o, status[1], sh, ('SConnect', status[1]), lambda e: ('S71', e))
        return sh2, out
    if k == 'SConnect':
        sh2, out = run_connect(o, status[1], sh, ('S71', None), ('SConnect', status[1]), lambda e: ('S71', e))
        return sh2, out
    if k == 'S71':
        return _set(sh, handle=None), ('SDone', status[1])
    raise AssertionError(status)


def advance(t, outcome):
    script, pc, exns, ans = t
    kind = outcome[0]
    if kind == 'goto':
        return (script, outcome[1], exns, ans)
    if kind == 'raise':
        exns = exns + (outcome[1],)
    elif kind == 'answer':
        ans += 1
    script = script[1:]
    return (script, START_PC[script[0]] if script else ('PAcq',), exns, ans)


def step(cfg, o, s, tid):
    """tid = ('C', i) | ('S', h). None = blocked / finished / no such thread."""
    sh, clients, st = s
    if tid[0] == 'C':
        i = tid[1]
        if i >= len(clients) or not clients[i][0]:
            return None
        r = cstep(cfg, o, i, sh, st, clients[i][1])
        if r is None:
            return None
        sh2, st2, out = r
        return (sh2, clients[:i] + (advance(clients[i], out),) + clients[i + 1:], st2)
    h = tid[1]
    if h >= len(st):
        return None
    r = sstep(o, h, sh, st[h])
    if r is None:
        return None
    sh2, status = r
    return (sh2, clients, st[:h] + (status,) + st[h + 1:])


def tids(s):
    return [('C', i) for i in range(len(s[1]))] + [('S', h) for h in range(len(s[2]))]


def enabled(cfg, o, s):
    return [t for t in tids(s) if step(cfg, o, s, t) is not None]


# ---- location of a pc in the source: (function code, line offset from the def line, kind)
# kind: 0 = about to execute that line, 1 = blocked acquiring the lock, 2 = blocked in join,
#       3 = inside _run about to call Popen, 4 = inside _run about to call Client
FUNC = {'prepare': 1, 'run': 2, '_threaded_run': 3, '_call': 4, 'close': 5, 'eval': 6}


def pc_loc(cfg, p):
    k = p[0]
    f3 = 1 if cfg.fix_f3 else 0
    P = {'PAcq': (1, 1, 0), 'PAcqW': (1, 1, 1), 'PTestH': (1, 2, 0), 'PRet1': (1, 3, 0), 'PHas': (1, 5, 0),
         'PRet2': (1, 6, 0), 'PMk': (1, 8, 0), 'PStart': (1, 9, 0), 'PRel': (1, 1, 0), 'PRelExc': (1, 1, 0),
         'CEntry': (6, 1, 0), 'CTry': (4, 1, 0), 'CGet': (4, 2, 0), 'CExc': (4, 3, 0), 'CRun': (4, 4, 0),
         'RAcq': (2, 1, 0), 'RAcqW': (2, 1, 1), 'RTest': (2, 2, 0), 'RJoin': (2, 3, 0),
         'RRead': (2, 2, 0), 'RTestL': (2, 3, 0), 'RJoinL': (2, 4, 0), 'RJoinW': (2, 3 + f3, 2),
         'RHas': (2, 5 + f3, 0), 'RCallRun': (2, 6 + f3, 0), 'RPopen': (2, 6 + f3, 3), 'RConnect': (2, 6 + f3, 4),
         'RRel': (2, 1, 0), 'RRelExc': (2, 1, 0),
         'CSend': (4, 6, 0), 'CRecv': (4, 7, 0), 'CIsOk': (4, 9, 0), 'CRet': (4, 10, 0),
         'KTry': (5, 3, 0), 'KGet': (5, 4, 0), 'KExc': (5, 5, 0), 'KPass': (5, 6, 0), 'KSend': (5, 8, 0),
         'KClose': (5, 9, 0), 'KDel': (5, 10, 0)}
    return P[k]


def st_loc(status):
    return {'SNew': (0, 0, 5), 'S68': (3, 1, 0), 'S69': (3, 2, 0), 'SPopen': (3, 2, 3), 'SConnect': (3, 2, 4),
            'S71': (3, 4, 0), 'SDone': (0, 0, 6)}[status[0]]


def observe(cfg, o, s):
    """canonical observation (nested python ints) - the same shape the real scheduler builds"""
    sh, clients, st = s
    conn = sh[CONN]
    connv = [0, 0, 0, 0] if conn is None else [1, int(conn[0]), int(conn[1]), conn[2]]
    en = set(enabled(cfg, o, s))
    seen = []                       # addresses in the order they were first given to a launched server
    for a in reversed(sh[SRV]):
        if a not in seen:
            seen.append(a)
    res = [sh[LAUNCHES], sh[POPENS], sh[ATTEMPTS]] + connv + [0 if sh[HANDLE] is None else sh[HANDLE] + 1,
                                                             0 if sh[LOCK] is None else sh[LOCK] + 1, len(st)]
    res += [len(seen), seen.index(sh[SRV][0]) + 1 if sh[SRV] else 0,
            0 if conn is None else (seen.index(conn[3]) + 1 if conn[3] in seen else 0)]
    for i, (script, pc, exns, ans) in enumerate(clients):
        loc = pc_loc(cfg, pc) if script else (0, 0, 6)
        res += [len(script), loc[0], loc[1], loc[2], ans, int(('C', i) in en), len(exns)] + [EXN_CODE[e] for e in exns]
    for h, status in enumerate(st):
        loc = st_loc(status)
        e = status[1] if status[0] == 'SDone' else None
        res += [loc[0], loc[1], loc[2], int(('S', h) in en), 0 if e is None else EXN_CODE[e]]
    return res


# ---- exploration: a set of schedules covering every reachable (state, thread) transition
def explore(cfg, o, scripts, max_states=2000000):
    """DFS over the mirror's state graph. Returns (paths, nstates, nedges): every enabled
    transition of every reachable state lies on at least one path (a path = list of tids)."""
    s0 = init_state(scripts)
    seen = {s0}
    paths = []
    nedges = 0
    # iterative DFS keeping the current path
    stack = [(s0, iter(enabled(cfg, o, s0)))]
    path = []
    extended = False
    while stack:
        s, it = stack[-1]
        t = next(it, None)
        if t is None:
            if not extended:
                pass
            stack.pop()
            if path:
                path.pop()
            continue
        nedges += 1
        s2 = step(cfg, o, s, t)
        if s2 in seen:
            paths.append(path + [t])      # covers this edge; stops at a visited state
            continue
        seen.add(s2)
        if len(seen) > max_states:
            raise RuntimeError('state space too large')
        en2 = enabled(cfg, o, s2)
        if not en2:
            paths.append(path + [t])      # terminal state
            continue
        path.append(t)
        stack.append((s2, iter(en2)))
    return paths, len(seen), nedges


def build_graph(cfg, o, scripts, max_states=3000000):
    """Reachable state graph of the mirror: (states list, out-edges per state [(tid, dst id)])."""
    s0 = init_state(scripts)
    ids = {s0: 0}
    states = [s0]
    out = []
    k = 0
    while k < len(states):
        s = states[k]
        es = []
        for t in tids(s):
            s2 = step(cfg, o, s, t)
            if s2 is None:
                continue
            j = ids.get(s2)
            if j is None:
                j = len(states)
                ids[s2] = j
                states.append(s2)
                if j > max_states:
                    raise RuntimeError('state space too large')
            es.append((t, j))
        out.append(es)
        k += 1
    return states, out


def edge_cover(out, rng=None, limit_paths=None):
    """Greedy cover of every edge of a DAG (self-loops allowed) by paths from state 0.
    Returns list of paths (lists of tids)."""
    n = len(out)
    covered = [[False] * len(es) for es in out]
    # useful[s] = number of out-edges of s that are uncovered or lead to a state with useful > 0
    preds = [[] for _ in range(n)]
    for s, es in enumerate(out):
        for k, (_t, d) in enumerate(es):
            if d != s:
                preds[d].append((s, k))
    useful = [len(es) for es in out]     # initially every edge is uncovered, hence useful
    total_unc = sum(useful)

    def drop(s):
        # state s lost one useful edge
        work = [s]
        while work:
            x = work.pop()
            useful[x] -= 1
            if useful[x] == 0:
                for (p, k) in preds[x]:
                    if covered[p][k]:
                        work.append(p)

    paths = []
    while total_unc > 0 and useful[0] > 0:
        s = 0
        path = []
        new = 0
        while True:
            es = out[s]
            pick = None
            cand = [k for k in range(len(es)) if not covered[s][k]]
            if cand:
                pick = cand[0] if rng is None else rng.choice(cand)
            else:
                cand = [k for k in range(len(es)) if es[k][1] != s and useful[es[k][1]] > 0]
                if not cand:
                    break
                pick = cand[0] if rng is None else rng.choice(cand)
            t, d = es[pick]
            path.append(t)
            if not covered[s][pick]:
                covered[s][pick] = True
                total_unc -= 1
                new += 1
                if d == s or useful[d] == 0:
                    drop(s)
            s2 = d
            if s2 == s:
                # self-loop (cannot happen with finite oracles; guard against spinning)
                if not any(not c for c in covered[s]) and not any(
                        es[k][1] != s and useful[es[k][1]] > 0 for k in range(len(es))):
                    break
            s = s2
        assert new > 0
        paths.append(path)
        if limit_paths and len(paths) >= limit_paths:
            break
    return paths


# ----------------------------------------------------------------------------------------
# (2) deterministic scheduler for the REAL supp.remote.Environment
# ----------------------------------------------------------------------------------------
class SchedAbort(BaseException):
    """raised inside a controlled thread to unwind it when a replay ends early"""


class HangError(Exception):
    """fake connection: recv with no reply outstanding (the real client would block)"""


class HarnessError(Exception):
    """the instrumentation could not be installed / observed (fail closed)"""


class _T(object):
    """a controlled thread"""

    def __init__(self, kind, idx):
        self.kind = kind            # 'C' | 'S'
        self.idx = idx
        self.go = _sem()
        self.ready = _sem()
        self.first = True
        self.status = ('new',)      # ('new',) ('line', f, off) ('lock', f, off) ('join', h, f, off)
        #                             ('popen', f, off) ('connect', f, off) ('done',)
        self.real = None
        self.exns = []
        self.answers = 0
        self.remaining = 0
        self.exn = None             # starter: exception that ended it


class RealRun(object):
    """One replay: fresh Environment, fresh fakes, fresh threads."""

    def __init__(self, scripts, oracle, repo_remote=None):
        import supp.remote as R
        self.R = repo_remote or R
        self.file = self.R.__file__
        if self.file.endswith('.pyc'):
            self.file = self.file[:-1]
        self.scripts = [list(s) for s in scripts]
        self.o = oracle
        self.back = _sem()
        self.local = threading.local()
        self.abort = False
        self.launches = self.popens = self.attempts = 0
        self.addr_index = {}          # listener address -> number, in order of first use by a launched server
        self.srv_addrs = []           # address given to each launched server
        self.clock = 0.0
        self.clients = [_T('C', i) for i in range(len(scripts))]
        self.starters = []
        self.lock_owner = None
        self.env = None
        self.problems = []

    # ---- baton ---------------------------------------------------------------------------
    def me(self):
        return getattr(self.local, 't', None)

    def _park(self, t, status):
        """called by the running controlled thread: publish status, give the baton back, wait"""
        if self.abort:
            raise SchedAbort()
        t.status = status
        if t.first:
            t.first = False
            t.ready.release()
        else:
            self.back.release()
        t.go.acquire()
        if self.abort:
            raise SchedAbort()

    def _where(self):
        """(function name, line offset) of the innermost traced supp/remote.py frame"""
        f = sys._getframe(2)
        while f is not None:
            c = f.f_code
            if c.co_filename == self.file and c.co_name != '_run':
                return c.co_name, f.f_lineno - c.co_firstlineno
            f = f.f_back
        return '?', 0

    def _tracer(self, frame, event, arg):
        c = frame.f_code
        if c.co_filename != self.file or c.co_name in ('_run', '__init__'):
            return None
        return self._local_tracer

    def _local_tracer(self, frame, event, arg):
        if self.abort:
            return None                 # unwinding: never park again
        if event == 'line':
            t = self.me()
            if t is not None:
                c = frame.f_code
                self._park(t, ('line', c.co_name, frame.f_lineno - c.co_firstlineno))
        return self._local_tracer

    # ---- stand-ins ------------------------------------------------------------------------
    def make_standins(run):
        class SLock(object):
            def acquire(self, blocking=True, timeout=-1):
                t = run.me()
                if t is None:
                    raise HarnessError('lock used outside a controlled thread')
                if run.lock_owner is not None:
                    if not blocking:
                        return False
                    run._park(t, ('lock',) + run._where())
                    if run.lock_owner is not None:
                        raise HarnessError('resumed while the lock is held')
                run.lock_owner = t
                return True

            def release(self):
                if run.lock_owner is None:
                    raise RuntimeError('release unlocked lock')
                run.lock_owner = None

            def locked(self):
                return run.lock_owner is not None

            def __enter__(self):
                self.acquire()
                return True

            def __exit__(self, *a):
                self.release()

        class SThread(object):
            def __init__(self, group=None, target=None, name=None, args=(), kwargs=None, daemon=None):
                self._target, self._args, self._kwargs = target, args, kwargs or {}
                self.name = name or 'starter'
                self.daemon = daemon
                self.t = _T('S', len(run.starters))
                run.starters.append(self.t)
                self.t.handle = self

            def start(self):
                t = self.t
                if t.real is not None:
                    raise RuntimeError('threads can only be started once')
                t.real = threading.Thread(target=self._main, daemon=True)
                t.real.start()
                t.ready.acquire()          # until it reaches its first line

            def _main(self):
                t = self.t
                run.local.t = t
                sys.settrace(run._tracer)
                try:
                    try:
                        self._target(*self._args, **self._kwargs)
                    except SchedAbort:
                        return
                    except BaseException as e:      # what threading.excepthook would print
                        t.exn = e
                finally:
                    sys.settrace(None)
                    if not run.abort:
                        t.status = ('done',)
                        if t.first:
                            t.first = False
                            t.ready.release()
                        else:
                            run.back.release()

            def join(self, timeout=None):
                me = run.me()
                t = self.t
                if t.status != ('done',):
                    if me is None:
                        raise HarnessError('join outside a controlled thread')
                    if t is me:
                        raise RuntimeError('cannot join current thread')
                    run._park(me, ('join', t.idx) + run._where())
                    if t.status != ('done',):
                        raise HarnessError('resumed before the joined thread finished')

            def is_alive(self):
                return self.t.real is not None and self.t.status != ('done',)

        class FakePopen(object):
            pid = 0
            returncode = None

            def __init__(self, args, *a, **kw):
                t = run.me()
                if t is not None:
                    run._park(t, ('popen',) + run._where())
                k = run.popens
                run.popens += 1
                if not run.o.p(k):
                    raise FileNotFoundError(2, 'No such file or directory (planned by the oracle)')
                run.launches += 1
                addr = args[2] if isinstance(args, (list, tuple)) and len(args) > 2 else repr(args)
                run.addr_index.setdefault(addr, len(run.addr_index))
                run.srv_addrs.append(addr)

            def poll(self):
                return None

            def wait(self, timeout=None):
                return 0

            def kill(self):
                pass

            terminate = kill

        class FakeConn(object):
            def __init__(self, address=None):
                self.address = address
                self.closed = False
                self.gotclose = False
                self.queue = []
                self.sent = []

            def send_bytes(self, b):
                if self.closed:
                    raise OSError('handle is closed')
                from supp.umsgpack import loads, dumps
                msg = loads(b)
                self.sent.append(msg[0])
                if msg[0] == 'close':
                    self.gotclose = True
                elif not self.gotclose:
                    self.queue.append(dumps((42, True)))

            def recv_bytes(self):
                if self.closed:
                    raise OSError('handle is closed')
                if self.queue:
                    return self.queue.pop(0)
                if self.gotclose:
                    raise EOFError()
                raise HangError('recv with no reply outstanding')

            def close(self):
                self.closed = True

        def FakeClient(address, *a, **kw):
            t = run.me()
            if t is not None:
                run._park(t, ('connect',) + run._where())
            k = run.attempts
            run.attempts += 1
            r = run.o.c(k)
            if r == COK:
                return FakeConn(address)
            if r == CTIMEOUT:
                run.clock += 10.0
            raise ConnectionRefusedError(111, 'Connection refused (planned by the oracle)')

        class FakeTime(object):
            @staticmethod
            def time():
                return run.clock

            monotonic = perf_counter = time

            @staticmethod
            def sleep(d):
                run.clock += d

        return SLock, SThread, FakePopen, FakeConn, FakeClient, FakeTime

    # ---- life cycle -----------------------------------------------------------------------
    def __enter__(self):
        import subprocess
        import multiprocessing.connection as mc
        R = self.R
        SLock, SThread, FakePopen, FakeConn, FakeClient, FakeTime = self.make_standins()
        self.FakeConn, self.SThread, self.SLock = FakeConn, SThread, SLock
        self._saved = (subprocess.Popen, mc.Client, R.__dict__.get('Thread'), R.__dict__.get('Lock'),
                       R.__dict__.get('time'))
        for nm in ('Thread', 'Lock', 'time'):
            if nm not in R.__dict__:
                raise HarnessError('supp.remote no longer has a module-level %r to replace' % nm)
        subprocess.Popen = FakePopen
        mc.Client = FakeClient
        R.Thread, R.Lock, R.time = SThread, SLock, FakeTime
        try:
            self.env = R.Environment(executable='/nonexistent/python-of-the-harness')
            lk = getattr(self.env, 'prepare_lock', None)
            if not isinstance(lk, SLock):
                raise HarnessError('Environment.prepare_lock is not created from supp.remote.Lock')
            for t, script in zip(self.clients, self.scripts):
                t.remaining = len(script)
                if not script:
                    t.status = ('done',)
                    continue
                t.real = threading.Thread(target=self._client_main, args=(t, script), daemon=True)
                t.real.start()
                t.ready.acquire()
        except BaseException:
            self.__exit__(None, None, None)
            raise
        return self

    def _client_main(self, t, script):
        self.local.t = t
        sys.settrace(self._tracer)
        env = self.env
        try:
            for op in script:
                try:
                    if op == PREPARE:
                        env.prepare()
                    elif op == CALL:
                        r = env.eval('1')
                        if r != 42:
                            self.problems.append('reply %r' % (r,))
                        t.answers += 1
                    else:
                        env.close()
                except SchedAbort:
                    return
                except Exception as e:
                    t.exns.append(e)
                t.remaining -= 1
        except SchedAbort:
            return
        finally:
            sys.settrace(None)
            if not self.abort:
                t.status = ('done',)
                if t.first:
                    t.first = False
                    t.ready.release()
                else:
                    self.back.release()

    def __exit__(self, *exc):
        import subprocess
        import multiprocessing.connection as mc
        self.abort = True
        for t in self.clients + self.starters:
            if t.real is not None and t.status != ('done',):
                t.go.release()
        for t in self.clients + self.starters:
            if t.real is not None:
                t.real.join(10)
                if t.real.is_alive():
                    self.problems.append('thread did not unwind')
        subprocess.Popen, mc.Client, self.R.Thread, self.R.Lock, self.R.time = self._saved
        return False

    # ---- stepping and observing -------------------------------------------------------------
    def thread(self, tid):
        kind, i = tid
        l = self.clients if kind == 'C' else self.starters
        return l[i] if i < len(l) else None

    def is_enabled(self, t):
        st = t.status[0]
        if st in ('done', 'new'):
            return False
        if st == 'lock':
            return self.lock_owner is None
        if st == 'join':
            return self.starters[t.status[1]].status == ('done',)
        return True

    def step(self, tid):
        """let thread tid execute one line; False when it is blocked / finished / absent"""
        t = self.thread(tid)
        if t is None or not self.is_enabled(t):
            return False
        t.go.release()
        self.back.acquire()
        return True

    @staticmethod
    def exn_code(e):
        if isinstance(e, HangError):
            return EXN_CODE['HangErr']
        if isinstance(e, FileNotFoundError):
            return EXN_CODE['LaunchErr']
        if isinstance(e, AttributeError):
            return EXN_CODE['AttrErr']
        if isinstance(e, TypeError):
            return EXN_CODE['TypeErr']
        if isinstance(e, EOFError):
            return EXN_CODE['EOFErr']
        if isinstance(e, OSError):
            return EXN_CODE['OSErr']
        if isinstance(e, RuntimeError):
            return EXN_CODE['RuntimeErr']
        if type(e) is Exception and str(e).startswith('Supp server launching timeout'):
            return EXN_CODE['TimeoutErr']
        return 99

    def _loc(self, t):
        st = t.status
        k = st[0]
        if k == 'done':
            return (0, 0, 6)
        if k == 'new':
            return (0, 0, 5)
        if k == 'join':
            f, off, kind = st[2], st[3], 2
        else:
            f, off = st[1], st[2]
            kind = {'line': 0, 'lock': 1, 'popen': 3, 'connect': 4}[k]
        return (FUNC.get(f, 90), off, kind)

    def observe(self):
        env = self.env
        d = getattr(env, '__dict__', {})
        if 'conn' in d:
            c = d['conn']
            connv = [1, int(c.closed), int(c.gotclose), len(c.queue)] if isinstance(c, self.FakeConn) else [9, 9, 9, 9]
        else:
            connv = [1, 9, 9, 9] if hasattr(env, 'conn') else [0, 0, 0, 0]
        h = getattr(env, 'prepare_thread', 98)
        hv = 0 if h is None else (h.t.idx + 1 if isinstance(h, self.SThread) else 99)
        lo = self.lock_owner
        res = [self.launches, self.popens, self.attempts] + connv + [hv, 0 if lo is None else lo.idx + 1,
                                                                  len(self.starters)]
        ai = self.addr_index
        c = d.get('conn')
        res += [len(ai), ai[self.srv_addrs[-1]] + 1 if self.srv_addrs else 0,
                (ai.get(c.address, -1) + 1) if isinstance(c, self.FakeConn) else 0]
        for t in self.clients:
            loc = self._loc(t)
            res += [t.remaining, loc[0], loc[1], loc[2], t.answers, int(self.is_enabled(t)), len(t.exns)]
            res += [self.exn_code(e) for e in t.exns]
        for t in self.starters:
            loc = self._loc(t)
            res += [loc[0], loc[1], loc[2], int(self.is_enabled(t)), 0 if t.exn is None else self.exn_code(t.exn)]
        return res

    def enabled_tids(self):
        return [(t.kind, t.idx) for t in self.clients + self.starters if self.is_enabled(t)]


def replay_real(scripts, oracle, schedule, observe_every=True):
    """Run one schedule on the real class. Returns (observations, problems): observations[0] is
    the initial one, observations[k] the one after schedule[k-1] (a disabled pick is a stutter)."""
    with RealRun(scripts, oracle) as run:
        obs = [run.observe()]
        for tid in schedule:
            run.step(tid)
            if observe_every:
                obs.append(run.observe())
        if not observe_every:
            obs.append(run.observe())
        return obs, list(run.problems)


def replay_mirror(cfg, oracle, scripts, schedule):
    s = init_state(scripts)
    obs = [observe(cfg, oracle, s)]
    for tid in schedule:
        s2 = step(cfg, oracle, s, tid)
        if s2 is not None:
            s = s2
        obs.append(observe(cfg, oracle, s))
    return obs


# ----------------------------------------------------------------------------------------
# (3) schedule trees and the digest compared inside Coq (Model/Client.v: mix, digest_trie)
# ----------------------------------------------------------------------------------------
DIGEST_K = 6364136223846793005
DIGEST_MASK = (1 << 63) - 1


def mix(acc, obs):
    a = (acc * DIGEST_K + 77) & DIGEST_MASK
    for x in obs:
        if not 0 <= x < 64:
            raise HarnessError('observed field %r does not fit the packing' % (x,))
        a = (a * DIGEST_K + x + 1) & DIGEST_MASK
    return a


class TrieNode(object):
    __slots__ = ('obs', 'kids')

    def __init__(self):
        self.obs = None
        self.kids = {}


def trie_insert(root, path, obs, problems):
    """obs[k] = observation after path[:k]"""
    node = root
    for k in range(len(obs)):
        if node.obs is None:
            node.obs = obs[k]
        elif node.obs != obs[k]:
            problems.append(('nondeterministic', path[:k], node.obs, obs[k]))
        if k < len(path):
            nxt = node.kids.get(path[k])
            if nxt is None:
                nxt = node.kids[path[k]] = TrieNode()
            node = nxt


def tid_term(t):
    kind, i = t
    if kind == 'C':
        return 'c%d' % i if i < 4 else '(cN %d)' % i
    return 's%d' % i if i < 6 else '(sN %d)' % i


def trie_term_and_digest(root):
    """Gallina term of the schedule tree and the pre-order digest of its observations
    (iterative: trees are up to ~100 deep but wide)."""
    acc = [0]
    nodes = [0]

    def rec(node):
        acc[0] = mix(acc[0], node.obs)
        nodes[0] += 1
        parts = []
        for t, k in node.kids.items():
            parts.append((tid_term(t), rec(k)))
        s = 'KNil'
        for tt, kt in reversed(parts):
            s = '(KK %s %s %s)' % (tt, kt, s)
        return '(Nd %s)' % s

    old = sys.getrecursionlimit()
    sys.setrecursionlimit(max(old, 20000))
    try:
        term = rec(root)
    finally:
        sys.setrecursionlimit(old)
    return term, acc[0], nodes[0]


def scripts_term(scripts):
    return '[%s]' % '; '.join('[%s]' % '; '.join(OPNAME[x] for x in s) for s in scripts)


def bfs_paths(cfg, o, scripts, max_states=3000000):
    """Schedules covering every transition of the mirror's reachable state graph: the BFS-tree
    path to a state followed by each non-tree transition out of it, plus the tree path to
    every terminal state. Returns (paths, nstates, nedges, nterminal)."""
    s0 = init_state(scripts)
    ids = {s0: 0}
    parent = [None]          # (parent id, tid)
    states = [s0]
    nontree = []             # (src id, tid)
    terminal = []
    nedges = 0
    k = 0
    while k < len(states):
        s = states[k]
        any_edge = False
        for t in tids(s):
            s2 = step(cfg, o, s, t)
            if s2 is None:
                continue
            any_edge = True
            nedges += 1
            j = ids.get(s2)
            if j is None:
                j = len(states)
                ids[s2] = j
                states.append(s2)
                parent.append((k, t))
                if j > max_states:
                    raise RuntimeError('state space too large')
            else:
                nontree.append((k, t))
        if not any_edge:
            terminal.append(k)
        k += 1

    def treepath(j):
        p = []
        while parent[j] is not None:
            j, t = parent[j]
            p.append(t)
        p.reverse()
        return p

    paths = [treepath(k) + [t] for (k, t) in nontree] + [treepath(k) for k in terminal]
    pcs = set()
    for (_sh, clients, st) in states:
        for (script, pc, _e, _a) in clients:
            if script:
                pcs.add(pc[0])
        for status in st:
            pcs.add(status[0])
    bfs_paths.last_pcs = pcs
    return paths, len(states), nedges, len(terminal)


def decode(obs, nclients):
    """structured view of an observation vector"""
    d = {'launches': obs[0], 'popens': obs[1], 'attempts': obs[2], 'conn': obs[3:7], 'handle': obs[7],
         'lock': obs[8], 'nstarters': obs[9], 'addresses': obs[10], 'server_addr': obs[11], 'conn_addr': obs[12],
         'clients': [], 'starters': []}
    k = 13
    for _ in range(nclients):
        ne = obs[k + 6]
        d['clients'].append({'remaining': obs[k], 'loc': tuple(obs[k + 1:k + 4]), 'answers': obs[k + 4],
                             'enabled': obs[k + 5], 'exns': obs[k + 7:k + 7 + ne]})
        k += 7 + ne
    for _ in range(d['nstarters']):
        d['starters'].append({'loc': tuple(obs[k:k + 3]), 'enabled': obs[k + 3], 'exn': obs[k + 4]})
        k += 5
    return d


STARTUP_EXNS = (EXN_CODE['LaunchErr'], EXN_CODE['TimeoutErr'], EXN_CODE['RuntimeErr'])


def property_failures(obs, scripts, oracle):
    """DIRECT evaluation of C16 on one observed state of the real class (no model involved).
    Returns a list of strings (empty = the state is fine)."""
    d = decode(obs, len(scripts))
    bad = []
    ok_oracle = all(oracle.popen) and all(c == COK for c in oracle.conn)
    closefree = all(CLOSE not in s for s in scripts)
    exns = [e for c in d['clients'] for e in c['exns']]
    sexn = [s['exn'] for s in d['starters'] if s['exn']]
    if d['addresses'] != d['launches']:
        bad.append('a launch reused the listener address of an earlier launch of this client (%d launches, %d addresses)'
                   % (d['launches'], d['addresses']))
    if d['conn'][0] and d['conn_addr'] != d['server_addr']:
        bad.append('the connection does not go to the address of the most recently launched server')
    if EXN_CODE['TypeErr'] in exns:
        bad.append('an operation raised TypeError (close() must send the close request)')
    if 99 in exns or 99 in sexn:
        bad.append('an operation raised an unexpected exception class')
    if ok_oracle:
        if any(e in STARTUP_EXNS for e in exns) or sexn:
            bad.append('start-up exception although launch and connect succeed')
        if closefree:
            if d['launches'] > 1:
                bad.append('%d servers launched in one session' % d['launches'])
            if exns:
                bad.append('a caller observed an exception (codes %r) in a close-free run' % (exns,))
    live = [c for c in d['clients'] if c['remaining']]
    active = [s for s in d['starters'] if s['loc'][2] not in (6,)]
    if not any(c['enabled'] for c in d['clients']) and not any(s['enabled'] for s in d['starters']):
        if live or active:
            bad.append('deadlock: unfinished threads and none can run')
        elif ok_oracle and closefree:
            ncalls = sum(1 for s in scripts for x in s if x == CALL)
            nops = sum(len(s) for s in scripts)
            if sum(c['answers'] for c in d['clients']) != ncalls:
                bad.append('not every call was answered')
            if nops and d['launches'] != 1:
                bad.append('%d servers launched, expected exactly 1' % d['launches'])
    return bad


def run_job(job):
    """Worker: explore (or take the given schedules), replay on the real class, compare with the
    mirror exactly, evaluate the property directly, return Coq cases + statistics."""
    import time as _time
    t0 = _time.time()
    cfg = Cfg(*job['cfg'])
    o = Oracle(*job['oracle'])
    scripts = [tuple(s) for s in job['scripts']]
    res = {'scripts': scripts, 'oracle': o.key(), 'cases': [], 'mismatch': [], 'direct': [], 'problems': [],
           'nodes': 0, 'steps': 0, 'paths': 0, 'states': 0, 'edges': 0, 'kind': job['kind'],
           'branches': {}, 'terminals': 0}
    if job['kind'] == 'exhaustive':
        paths, ns, ne, nt = bfs_paths(cfg, o, scripts)
        res['states'], res['edges'], res['terminals'] = ns, ne, nt
        res['pcs'] = sorted(bfs_paths.last_pcs)
        if job.get('sample') and len(paths) > job['sample']:
            import random as _random
            rng = _random.Random(job.get('seed', 0))
            paths = rng.sample(paths, job['sample'])
            res['sampled'] = True
    elif job['kind'] in ('walks', 'preempt'):
        paths = None
    else:
        paths = [[tuple(t) for t in p] for p in job['schedules']]
    chunk = job.get('chunk', 4000)
    root = TrieNode()
    inroot = 0
    seen_fail = set()

    def flush():
        nonlocal root, inroot
        if root.obs is not None:
            term, dg, n = trie_term_and_digest(root)
            res['cases'].append((term, dg, n))
            res['nodes'] += n
        root = TrieNode()
        inroot = 0

    def account(path, obs):
        nonlocal inroot
        res['paths'] += 1
        res['steps'] += len(path)
        mo = replay_mirror(cfg, o, scripts, path)
        if mo != obs:
            k = next(i for i in range(len(obs)) if i >= len(mo) or mo[i] != obs[i])
            if len(res['mismatch']) < 5:
                res['mismatch'].append({'schedule': path[:k], 'real': obs[k], 'model': mo[k] if k < len(mo) else None})
            else:
                res['mismatch'].append(None)
        for k, ob in enumerate(obs):
            fails = property_failures(ob, scripts, o)
            if fails:
                key = tuple(fails)
                if key not in seen_fail and len(res['direct']) < 5:
                    seen_fail.add(key)
                    res['direct'].append({'schedule': path[:k], 'what': fails, 'observation': ob})
                break
        for e in decode(obs[-1], len(scripts))['clients']:
            for code in e['exns']:
                res['branches'][code] = res['branches'].get(code, 0) + 1
        trie_insert(root, path, obs, res['problems'])
        inroot += 1
        if inroot >= chunk:
            flush()

    if job['kind'] == 'preempt':
        # single-preemption search, independent of the model: thread X runs k lines, then the others
        # run to completion in a fixed priority order, then X - for every X, k and order
        import itertools as _it
        nt = len(scripts)
        cand = [('C', i) for i in range(nt)] + [('S', 0)]
        for order in _it.permutations(cand):
            if len(order) > 3 and order[-1][0] == 'C' and order[-1][1] != nt - 1 and job.get('fewer_orders'):
                continue
            x = order[0]
            for k in range(job.get('maxk', 28)):
                with RealRun(scripts, o) as run:
                    obs = [run.observe()]
                    path = []
                    if x == ('S', 0):            # the starter exists only after some prepare(): run it first
                        for _ in range(12):
                            if run.step(('C', 0)):
                                path.append(('C', 0))
                                obs.append(run.observe())
                            if run.starters:
                                break
                    for _ in range(k):
                        if not run.step(x):
                            break
                        path.append(x)
                        obs.append(run.observe())
                    while len(path) < 400:
                        en = run.enabled_tids()
                        if not en:
                            break
                        tid = next((t for t in order[1:] + (x,) if t in en), en[0])
                        run.step(tid)
                        path.append(tid)
                        obs.append(run.observe())
                    res['problems'] += run.problems
                account(path, obs)
    elif paths is not None:
        for p in paths:
            obs, prob = replay_real(scripts, o, p)
            res['problems'] += prob
            account(p, obs)
    else:
        import random as _random
        rng = _random.Random(job['seed'])
        for _w in range(job['walks']):
            with RealRun(scripts, o) as run:
                obs = [run.observe()]
                path = []
                limit = job.get('maxlen', 400)
                while len(path) < limit:
                    en = run.enabled_tids()
                    if not en:
                        break
                    if rng.random() < 0.08:
                        alltids = [(t.kind, t.idx) for t in run.clients + run.starters]
                        tid = rng.choice(alltids + [('S', len(run.starters)), ('C', len(run.clients))])
                    elif rng.random() < 0.5 and path and path[-1] in en:
                        tid = path[-1]          # longer runs of one thread reach deeper states
                    else:
                        tid = rng.choice(en)
                    run.step(tid)
                    path.append(tid)
                    obs.append(run.observe())
                res['problems'] += run.problems
            account(path, obs)
    flush()
    res['secs'] = _time.time() - t0
    return res


# ----------------------------------------------------------------------------------------
# (4) real-subprocess part (direct evaluator; run in a fresh interpreter: `python c16_sched.py real`)
# ----------------------------------------------------------------------------------------
def real_subprocess_checks():
    import json
    import os
    import subprocess
    import time
    import supp.remote as R

    import threading as _th
    per_thread = {}
    fallback = [None]
    RealPopen = subprocess.Popen
    # server processes inherit stdout/stderr: a leaked server must not keep the harness' pipe open
    result_fd = os.dup(1)
    devnull = os.open(os.devnull, os.O_RDWR)
    os.dup2(devnull, 1)
    os.dup2(devnull, 2)

    class _Launched(object):
        """the list of server processes launched by the calling thread (one list per part)"""

        def _l(self):
            me = _th.get_ident()
            if me not in per_thread and fallback[0] is not None:
                return fallback[0]          # a starter thread created by prepare(): counts for the running scenario
            return per_thread.setdefault(me, [])

        def append(self, p):
            self._l().append(p)

        def __len__(self):
            return len(self._l())

        def __getitem__(self, k):
            return self._l()[k]

    launched = _Launched()

    class CountingPopen(RealPopen):
        def __init__(self, *a, **kw):
            RealPopen.__init__(self, *a, **kw)
            launched.append(self)

    subprocess.Popen = CountingPopen
    out = {}

    def wait_exit(p, limit=30.0):
        t0 = time.time()
        while time.time() - t0 < limit:
            if p.poll() is not None:
                return round(time.time() - t0, 2)
            time.sleep(0.05)
        return None

    def attempt(name, fn):
        # a real launch has a fixed 5 s budget (remote.py:60); on a loaded machine a healthy server may
        # need longer to start - that is not what this part decides, so such a run is repeated
        per_thread[_th.get_ident()] = []
        try:
            _attempt(name, fn)
        finally:
            per_thread.pop(_th.get_ident(), None)      # thread idents are reused by later threads

    def _attempt(name, fn):
        for k in range(4):
            try:
                out[name] = fn()
                out[name]['attempts'] = k + 1
                return
            except BaseException as e:      # noqa
                import traceback
                out[name] = {'ok': False, 'what': 'harness/impl exception %s: %s' % (type(e).__name__, e),
                             'traceback': traceback.format_exc()[-1500:], 'attempts': k + 1}
                if not (type(e) is Exception and str(e).startswith('Supp server launching timeout exceed')):
                    return
                time.sleep(2.0)

    # (a) close() ends the session, the server exits, the client works again with ONE new server
    def part_a():
        r = {'ok': False}
        n0 = len(launched)
        env = R.Environment()
        try:
            v1 = env.eval('return 41 + 1')
            r['first_reply'] = v1
            r['launched_by_first_call'] = len(launched) - n0
            p1 = launched[-1]
            try:
                env.close()
                r['close_exception'] = None
            except Exception as e:
                r['close_exception'] = '%s: %s' % (type(e).__name__, e)
            r['conn_attr_after_close'] = hasattr(env, 'conn')
            r['server_exit_after_close_s'] = wait_exit(p1, 30.0 if r['close_exception'] is None else 3.0)
            r['server_returncode'] = p1.poll()
            if r['close_exception'] is None:
                v2 = env.eval('return 6 * 7')
                r['reply_after_close'] = v2
                r['launched_total'] = len(launched) - n0
                p2 = launched[-1]
                r['new_server_alive'] = p2.poll() is None and p2 is not p1
                v3 = env.eval('return 1')
                r['launched_after_third_call'] = len(launched) - n0
                r['ok'] = (v1 == 42 and v2 == 42 and v3 == 1 and r['launched_by_first_call'] == 1
                           and r['server_exit_after_close_s'] is not None and not r['conn_attr_after_close']
                           and r['launched_total'] == 2 and r['new_server_alive']
                           and r['launched_after_third_call'] == 2)
        finally:
            for p in launched[n0:]:
                if p.poll() is None:
                    p.kill()
                p.wait()
        return r

    # (b) the server exits on its own when the client end of the connection disappears
    def part_b():
        r = {'ok': False}
        n0 = len(launched)
        env = R.Environment()
        try:
            r['reply'] = env.eval('return 7')
            p = launched[-1]
            r['alive_before'] = p.poll() is None
            env.conn.close()            # no close request is sent: the pipe just goes away
            r['server_exit_after_disconnect_s'] = wait_exit(p)
            r['server_returncode'] = p.poll()
            r['ok'] = r['reply'] == 7 and r['alive_before'] and r['server_exit_after_disconnect_s'] is not None
        finally:
            for p in launched[n0:]:
                if p.poll() is None:
                    p.kill()
                p.wait()
        return r

    # (c) launch failure raises the documented timeout exception; a later call can retry
    def part_c():
        r = {'ok': False}
        n0 = len(launched)
        env = R.Environment(executable='/bin/false')
        try:
            t0 = time.time()
            try:
                env.eval('return 1')
                r['first'] = 'no exception'
            except Exception as e:
                r['first'] = '%s: %s' % (type(e).__name__, str(e)[:80])
                r['first_is_documented_timeout'] = (type(e) is Exception and
                                                    str(e).startswith('Supp server launching timeout exceed'))
            r['first_took_s'] = round(time.time() - t0, 2)
            r['conn_attr_after_failure'] = hasattr(env, 'conn')
            r['lock_free_after_failure'] = env.prepare_lock.acquire(False)
            if r['lock_free_after_failure']:
                env.prepare_lock.release()
            import sys as _sys
            env.executable = _sys.executable
            r['retry_reply'] = env.eval('return 9')
            r['launched_total'] = len(launched) - n0
            env.close()
            r['exit_after_close_s'] = wait_exit(launched[-1])
            # a missing executable fails at once with the OS error (no server process at all)
            env2 = R.Environment(executable='/nonexistent/python')
            try:
                env2.eval('return 1')
                r['missing_executable'] = 'no exception'
            except Exception as e:
                r['missing_executable'] = type(e).__name__
            r['ok'] = (r.get('first_is_documented_timeout') is True and not r['conn_attr_after_failure']
                       and r['lock_free_after_failure'] and r['retry_reply'] == 9 and r['launched_total'] == 2
                       and r['exit_after_close_s'] is not None and r['missing_executable'] == 'FileNotFoundError')
        finally:
            for p in launched[n0:]:
                if p.poll() is None:
                    p.kill()
                p.wait()
        return r

    # (d) close() and immediate reuse while the PREVIOUS server is slow to go away: the new session must be
    #     served by a newly launched server on its own listener address, whatever the old process is doing
    def part_d():
        import signal
        r = {'ok': False}
        n0 = len(launched)

        def timed(fn, limit=25.0):
            box = {}
            mine = launched._l()

            def tgt():
                per_thread[_th.get_ident()] = mine      # launches of the helper thread count for this part
                try:
                    box['v'] = fn()
                except BaseException as e:      # noqa
                    box['e'] = e
                finally:
                    per_thread.pop(_th.get_ident(), None)   # thread idents are reused
            th = _th.Thread(target=tgt, daemon=True)
            th.start()
            th.join(limit)
            if th.is_alive():
                return None, 'no answer within %ss' % limit
            if 'e' in box:
                e = box['e']
                if type(e) is Exception and str(e).startswith('Supp server launching timeout exceed'):
                    raise e                     # environmental: the whole part is repeated
                return None, '%s: %s' % (type(e).__name__, str(e)[:80])
            return box['v'], None

        try:
            # d1: the old server lingers while exiting (atexit handler, e.g. flushing logs)
            env = R.Environment()
            pid1 = env.eval('import os\nreturn os.getpid()')
            env.eval('import atexit, time\natexit.register(time.sleep, 1.5)\nreturn 1')
            p1 = launched[-1]
            env.close()
            r['old_still_running_at_reuse'] = p1.poll() is None
            pid2, err = timed(lambda: env.eval('import os\nreturn os.getpid()'))
            r['lingering'] = {'first_pid': pid1, 'second_pid': pid2, 'error': err,
                              'launched': len(launched) - n0}
            ok1 = err is None and pid2 is not None and pid2 != pid1 and len(launched) - n0 == 2
            if err is None:
                env.close()
            r['lingering']['old_exit_s'] = wait_exit(p1)
            # d2: the old server is stopped (cannot even read the close request) when the client moves on
            n1 = len(launched)
            env = R.Environment()
            pid3 = env.eval('import os\nreturn os.getpid()')
            p3 = launched[-1]
            os.kill(p3.pid, signal.SIGSTOP)
            try:
                env.close()
                pid4, err2 = timed(lambda: env.eval('import os\nreturn os.getpid()'))
            finally:
                os.kill(p3.pid, signal.SIGCONT)
            r['stopped'] = {'first_pid': pid3, 'second_pid': pid4, 'error': err2, 'launched': len(launched) - n1,
                            'old_exit_after_cont_s': wait_exit(p3)}
            ok2 = (err2 is None and pid4 is not None and pid4 != pid3 and len(launched) - n1 == 2
                   and r['stopped']['old_exit_after_cont_s'] is not None)
            if err2 is None:
                env.close()
            r['ok'] = bool(ok1 and ok2)
        finally:
            for p in launched[n0:]:
                if p.poll() is None:
                    try:
                        os.kill(p.pid, signal.SIGCONT)
                    except OSError:
                        pass
                    try:
                        p.wait(5)
                    except Exception:
                        p.kill()
                p.wait()
        return r

    # (e) the server of a session ends when its connection ends: after k requests (k = 0: the session was only
    #     pre-started with prepare()) the connection ends by close(), by the client end being closed, by the
    #     client PROCESS dying, or by undecodable bytes; the server process must be gone within the deadline
    CLIENT_SRC = r"""
import os, sys, time, subprocess
root, k = sys.argv[1], int(sys.argv[2])
sys.path.insert(0, root)
pids = []
RealPopen = subprocess.Popen
class P(RealPopen):
    def __init__(self, *a, **kw):
        RealPopen.__init__(self, *a, **kw)
        pids.append(self.pid)
subprocess.Popen = P
from supp.remote import Environment
env = Environment()
replies = 0
if k == 0:
    env.prepare()
    deadline = time.time() + 25
    while not hasattr(env, 'conn') and time.time() < deadline:
        time.sleep(0.05)
    time.sleep(0.3)
else:
    for j in range(k):
        if env.eval('return %d' % j) == j:
            replies += 1
sys.stdout.write('%d %d %d\n' % (pids[-1] if pids else -1, replies, int(hasattr(env, 'conn'))))
sys.stdout.flush()
os._exit(0)
"""

    def pid_running(pid):
        try:
            with open('/proc/%d/stat' % pid) as f:
                data = f.read()
        except (IOError, OSError):
            return False
        return data.rsplit(')', 1)[1].split()[0] not in ('Z', 'X')

    def scenario(k, ending):
        import signal
        sc = {'requests': k, 'ending': ending, 'replies': 0, 'exited': False, 'exit_s': None}
        if ending == 'client_dies':
            repo_root = os.path.dirname(os.path.dirname(os.path.abspath(R.__file__)))
            cp = RealPopen([sys.executable, '-c', CLIENT_SRC, repo_root, str(k)], stdout=subprocess.PIPE,
                           stderr=subprocess.DEVNULL)
            try:
                import select
                rd, _, _ = select.select([cp.stdout], [], [], 60.0)
                line = cp.stdout.readline().decode() if rd else ''
            finally:
                if cp.poll() is None:
                    try:
                        cp.wait(10)
                    except Exception:
                        cp.kill()
                        cp.wait()
            parts = line.split()
            if len(parts) != 3 or int(parts[0]) <= 0 or not int(parts[2]):
                sc['error'] = 'client process did not bring the server up: %r' % line
                sc['inconclusive'] = True
                return sc
            pid = int(parts[0])
            sc['replies'] = int(parts[1])
            t0 = time.time()
            while time.time() - t0 < 20.0:
                if not pid_running(pid):
                    sc['exited'] = True
                    sc['exit_s'] = round(time.time() - t0, 2)
                    break
                time.sleep(0.05)
            if not sc['exited']:
                try:
                    os.kill(pid, signal.SIGKILL)
                except OSError:
                    pass
            return sc
        n0 = len(launched)
        fallback[0] = launched._l()
        env = R.Environment()
        try:
            if k == 0:
                env.prepare()
                deadline = time.time() + 25
                while not hasattr(env, 'conn') and time.time() < deadline:
                    time.sleep(0.05)
                if not hasattr(env, 'conn'):
                    sc['error'] = 'prepare() did not bring the server up within 25 s'
                    sc['inconclusive'] = True
                    return sc
                time.sleep(0.3)
            else:
                for j in range(k):
                    if env.eval('return %d' % j) == j:
                        sc['replies'] += 1
            p = launched[-1]
            if ending == 'close':
                env.close()
            elif ending == 'conn_closed':
                env.conn.close()
            else:
                env.conn.send_bytes(b'\xc1')        # 0xc1 is not MessagePack
            sc['exit_s'] = wait_exit(p, 20.0)
            sc['exited'] = sc['exit_s'] is not None
        finally:
            fallback[0] = None
            for p in launched[n0:]:
                if p.poll() is None:
                    p.kill()
                p.wait()
        return sc

    def part_e():
        r = {'ok': False, 'scenarios': []}
        for k, ending in ((0, 'conn_closed'), (0, 'close'), (0, 'client_dies'), (1, 'client_dies'),
                          (2, 'conn_closed'), (1, 'close'), (0, 'garbage'), (2, 'garbage')):
            for _try in range(3):
                try:
                    sc = scenario(k, ending)
                except Exception as e:
                    if type(e) is Exception and str(e).startswith('Supp server launching timeout exceed'):
                        sc = {'requests': k, 'ending': ending, 'inconclusive': True, 'error': str(e)[:80]}
                    else:
                        sc = {'requests': k, 'ending': ending, 'replies': 0, 'exited': False,
                              'error': '%s: %s' % (type(e).__name__, str(e)[:80])}
                if not sc.get('inconclusive'):
                    break
                time.sleep(2.0)
            r['scenarios'].append(sc)
        r['ok'] = all(sc.get('exited') and sc.get('replies') == sc['requests'] and not sc.get('inconclusive')
                      for sc in r['scenarios'] if sc['ending'] != 'garbage')
        return r

    def ab():
        attempt('a', part_a)
        attempt('b', part_b)
        attempt('d', part_d)

    ths = [_th.Thread(target=ab), _th.Thread(target=attempt, args=('c', part_c)),
           _th.Thread(target=attempt, args=('e', part_e))]
    for t in ths:
        t.start()
    for t in ths:
        t.join()
    subprocess.Popen = RealPopen
    os.write(result_fd, ('C16REAL ' + json.dumps(out, default=repr) + '\n').encode())


if __name__ == '__main__':
    if len(sys.argv) > 1 and sys.argv[1] == 'real':
        real_subprocess_checks()
