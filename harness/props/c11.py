"""C11 - every reported position points at the identifier it names.

Decided by: Coq theorems C11_* (Props/C11.v) on Model/Text.v (find_id_loc for all texts) +
(I) correspondence of the model with SourceScope.find_id_loc on recorded real calls and random
texts + direct evaluation of the property on every binding of real files / generated layouts.
"""
import ast
import os
import re
import sys

from common import coq_list, coq_N, coq_nat, stdlib_files

LEVEL = 'proof'
ASSUMPTIONS = [
    'CPython parser positions (lineno/col_offset) of Name/arg/handler nodes are correct on ASCII lines (trusted, sampled by the direct evaluator)',
    'every layout of import/def/class that Python accepts flanks the name with the delimiter sets: established by the direct evaluator on real files and generated layouts, not by proof',
]


def split_lines(text):
    """lines as the tokenizer / ast count them (NOT str.splitlines, which also breaks at form feeds)"""
    lines = re.split('\r\n|\r|\n', text)
    if lines and lines[-1] == '' and len(lines) > 1:
        lines.pop()
    return lines or ['']


def chars(s):
    return coq_list([coq_N(ord(c)) for c in s])


def dset_term(delims, ends, scope_mod):
    """`ends` is a tag ('import' / 'def': the model's OWN delimiter tables, so that an edit of the
    tables in scope.py shows up as a disagreement) or a literal string (other call sites)."""
    if not delims:
        return 'None'
    if ends == 'import':
        return '(Some (import_delims, import_end_delims))'
    if ends == 'def':
        return '(Some (import_delims, def_end_delims))'
    return '(Some (%s, %s))' % (chars(scope_mod.IMPORT_DELIMETERS), chars(ends))


def case_term(lines, id_, sl, pos, shift, delims, ends, res, scope_mod):
    # only the 51-line window matters; pass the window and sl=1-relative numbers to keep terms small
    win = lines[sl - 1: sl + 50]
    return '(%s, %s, %s, %s, %s, (%s, %s))' % (
        coq_list([chars(l) for l in win]), chars(id_), coq_nat(pos), coq_nat(shift),
        dset_term(delims, ends, scope_mod), coq_nat(res[0] - sl + 1), coq_nat(res[1]))


PRELUDE = '''
Definition check_case (c : list (list N) * list N * nat * nat * dset * (nat * nat)) : bool :=
  match c with
  | (lines, id, pos, shift, d, (l, col)) =>
      let r := find_id_loc lines id 1 pos shift d in
      Nat.eqb (fst r) l && Nat.eqb (snd r) col
  end.
'''


def record_calls(files, ctx):
    """Analyse files with the real code while recording every find_id_loc call."""
    from supp import scope as sc
    from supp.util import Source
    from supp.nast import extract
    calls = []
    orig = sc.SourceScope.find_id_loc

    def rec(self, id, start, shift=0, delimeters=True, *a, **kw):
        res = orig(self, id, start, shift, delimeters, *a, **kw)
        explicit = a[0] if a else kw.get('end_delimeters')
        caller = sys._getframe(1).f_code.co_name
        cls = type(sys._getframe(1).f_locals.get('self')).__name__
        if cls in ('FuncScope', 'ClassScope') and caller == '__init__':
            ends = 'def'              # a def / class name: the model's own DEF table
        elif explicit is None or explicit is getattr(sc, 'IMPORT_END_DELIMETERS', None):
            ends = 'import'           # an import alias: the model's own IMPORT table
        else:
            ends = explicit           # other call sites (e.g. the `import` keyword search): literal
        calls.append((self.source.lines, id, start, shift, delimeters, ends, res))
        return res

    sc.SourceScope.find_id_loc = rec
    scopes = []
    try:
        for fn in files:
            try:
                text = open(fn, encoding='utf8').read()
                src = Source(text, fn)
                src.tree
            except (SyntaxError, UnicodeDecodeError, ValueError):
                continue
            try:
                scope = sc.SourceScope(src)
                extract(src.tree, scope.flow)
            except RecursionError:
                continue
            scopes.append((fn, text, scope))
    finally:
        sc.SourceScope.find_id_loc = orig
    return calls, scopes


def binding_failures(fn, text, scope):
    """Direct evaluator of C11 on one analysed file: list of failing bindings."""
    from supp.name import ImportedName
    tree = scope.source.tree
    lines = split_lines(text)
    handlers = {(h.lineno, h.col_offset) for h in ast.walk(tree) if isinstance(h, ast.ExceptHandler)}
    bad = []
    n = 0
    # line spans of the statements that bind each identifier through import / def / class
    spans = {}
    for node in ast.walk(tree):
        if isinstance(node, (ast.Import, ast.ImportFrom)):
            for a in node.names:
                ident = a.asname or a.name.split('.')[0]
                spans.setdefault(ident, []).append((node.lineno, getattr(node, 'end_lineno', node.lineno)))
        elif isinstance(node, (ast.FunctionDef, ast.AsyncFunctionDef, ast.ClassDef)):
            spans.setdefault(node.name, []).append((node.lineno, node.body[0].lineno))
    positions = {}
    from supp.scope import FuncScope, ClassScope
    for _flow, name in scope.all_names:
        if getattr(name, 'is_star', False) or getattr(name, 'location', None) == (0, 0):
            continue
        if isinstance(name, (ImportedName, FuncScope, ClassScope)):
            l0 = name.declared_at[0]
            if name.name in spans and not any(a <= l0 <= b for a, b in spans[name.name]):
                bad.append((name.name, tuple(name.declared_at), 'position is outside every statement that binds this name'))
            key = tuple(name.declared_at)
            if key in positions and positions[key] is not name and positions[key].name == name.name:
                bad.append((name.name, key, 'two distinct bindings reported at the same position'))
            positions[key] = name
    for _flow, name in scope.all_names:
        if getattr(name, 'is_star', False):
            continue
        ident = name.name
        l, c = name.declared_at
        if not (1 <= l <= len(lines)):
            bad.append((ident, (l, c), 'line outside file'))
            continue
        line = lines[l - 1]
        if not line.isascii() or not ident.isascii():
            continue
        n += 1
        if (l, c) in handlers and not isinstance(name, ImportedName) and line[c:c + 6] == 'except':
            continue
        end = c + len(ident)
        ok = line[c:end] == ident and (c == 0 or not (line[c - 1].isalnum() or line[c - 1] == '_')) \
            and (end >= len(line) or not (line[end].isalnum() or line[end] == '_'))
        if not ok:
            bad.append((ident, (l, c), line[max(0, c - 10):c + 20]))
    return n, bad


LAYOUTS = [
    'import {a}', 'import {a}#c', 'import {a} # c', 'import {a};x=1', 'import {a} as {b}', 'import {a} as {b}#c',
    'import {a}.{b}', 'import {a}, {b}', 'import {a},{b}', 'import {a} as {b}, {c} as {d}',
    'from {a} import {b}', 'from {a} import {b} as {c}', 'from {a} import ({b})', 'from {a} import ({b}, {c})',
    'from {a} import (\n    {b},\n    {c} as {d},\n)', 'from {a} import {b}, \\\n    {c}', 'from {a} import {b}\\\n',
    'from {a} import (  {b}  ,{c})', 'from . import {b}', 'from .{a} import {b} as {c}',
    'from {a} import {b} as {a}', 'from {a} import {a}', 'from {a}.{b} import {b}',
    'def {a}(): pass', 'def  {a}(): pass', 'def\t{a}(): pass', 'def \\\n    {a}(): pass', 'def {a} (x): pass',
    'async def {a}(): pass', 'async  def   {a}(): pass', '@{b}\ndef {a}(): pass', '@{b}\n@{c}\nasync def {a}(): pass',
    'class {a}: pass', 'class {a}(object): pass', 'class  {a} : pass', 'class\t{a}: pass', 'class {a}#c\n(object): pass' if False else 'class {a} (\n  object): pass',
    'class {a}:#c\n pass', 'x = 1; import {a}', 'x = 1; from {a} import {b}; y = 2', 'if x: import {a}',
    'try:\n  import {a}\nexcept ImportError as {b}:\n  {b}', 'for {a}, ({b}, *{c}) in x: pass',
    'with open(x) as {a}, y as ({b}, {c}): pass', '{a} = {b} = 1', '({a}, {b}), *{c} = x', '[{a} for {b} in x]',
    'def {a}({b}, {c}=1, *{d}, **kw): pass', 'lambda {a}, *{b}: 0', 'def {a}({b}:int, /, {c}, *, {d}): pass',
    '{a}: int = 1', 'if ({a} := 1): pass', 'def d(): pass', 'async def d(): pass', 'async def de(): pass',
    'class c: pass', 'def f(f): pass', 'class A(A): pass',
    'def {a}[T](x: T): pass', 'class {a}[T]: pass', 'async def {a}[K, V](): pass', 'class {a}[T](object): pass',
    'from .import {a}\nimport {b}', 'from .import {a}\nfrom . import {b}\nimport {c}', 'from .import {a}, {b}\nx = 1\nimport {c} as {d}',
    'from . import {a}\nimport {a}', 'import {a}\nimport {a}', 'from {a} import {b}\nfrom {c} import {b}',
    'for i in [1]: print({a}); {a} = i', '{a} = 1; {b} = {a}; {a} = 2; {c} = {a}', 'while {a}: {b} = {a}; import {a}',
    'for {a} in [1]: {b} = {a}; {a} = {b}; def {b}(): pass',
    'x = 1\n\x0c\nimport {a}\ndef {b}(): pass\nclass {c}: pass', '\x0c\nfrom {a} import {b} as {c}\n\x0c\nimport {d}',
    'y = 2\n\x0b\nimport {a} as {b}', 'z = 3 # \x1c\nimport {a}\ndef {b}(): pass',
    # blanks and continuations around the dots of a dotted import; a later literal use of the dotted name
    'import {a} . {b}', 'import {c}, {a} . {b}', 'import {a} .{b}, {a}. {c}', 'import {a} \\\n    . {b}\n{a}.{b}',
    'import {a} . {b} as {c}', 'import {a}.{b}\nimport {a} . {b}\n{a}.{b}', 'from {a} . {b} import {c}',
    # a '#' inside a string literal earlier on the line of the binding
    "x = '#'; import {a}", "if x == '#': from {a} import {b} as {c}", 'def {a}({b}="#"): import {c}',
    # a bracketed list broken one name per line whose LATER alias equals the module name
    'from {a} import (\n    {b},\n    {c},\n    {a},\n)', 'from {a} import (\n    {b} as {c},\n    {d},\n    {a} as {b},\n)\n{a}',
    'from {a}.{b} import (\n    {c},\n    {d},\n    {b},\n    {a},\n)',
    # a decorator expression that contains the definition's own name as a word
    '@{b}({a} = None)\ndef {a}(): pass', '@{b}(lambda {a}: {a})\nasync def {a}({c}): pass', '@{b}({a}=1)\n@{c}\nclass {a}: pass',
    '@{b}.{a}\n@{a}\ndef {a}(): pass', 'def {b}(x): return x\n@{b}( {a} )\ndef {a}(): pass',
    # names at column 0 of a continuation line
    'import {a}, \\\n{b}', 'from {a} import (\n{b},\n{c})', 'def \\\n{a}(): pass', 'class \\\n{a}: pass',
]
NAMES = ['a', 'b', 'os', 'sys', 'x', 'foo', 'bar_1', 'de', 'd', 'def_', 'imp', 'as_', 'A', 'Cls', 'port', 'rom', 'f', 'e', 'n', '_p']


def gen_layouts(ctx, n):
    out = []
    for i in range(n):
        k = ctx.rng.randint(1, 4)
        parts = []
        indent = ''
        for _ in range(k):
            t = ctx.rng.choice(LAYOUTS)
            ns = ctx.rng.sample(NAMES, 4)
            s = t.format(a=ns[0], b=ns[1], c=ns[2], d=ns[3])
            if ctx.rng.random() < 0.3:
                s = 'if x:\n' + '\n'.join('    ' + l for l in s.split('\n'))
            parts.append(s)
        src = '\n'.join(parts) + ('\n' if ctx.rng.random() < 0.8 else '')
        try:
            ast.parse(src)
        except SyntaxError:
            continue
        out.append(src)
    return out


def random_text_cases(ctx, n, scope_mod):
    """Synthetic calls on random small texts over an alphabet rich in delimiters."""
    from supp.util import Source
    alpha = 'ab ab\t(),.;#\\:=x_[*'
    cases = []
    for i in range(n):
        nlines = ctx.rng.randint(1, 4)
        lines = [''.join(ctx.rng.choice(alpha) for _ in range(ctx.rng.randint(0, 14))) for _ in range(nlines)]
        if ctx.rng.random() < 0.1:
            lines += ['q'] * 52 + ['ab']
        id_ = ''.join(ctx.rng.choice('abx_') for _ in range(ctx.rng.randint(1, 3)))
        sl = ctx.rng.randint(1, len(lines))
        pos = ctx.rng.randint(0, max(0, len(lines[sl - 1])))
        delims = ctx.rng.random() < 0.75
        tag = ctx.rng.choice(['import', 'def'])
        ends = scope_mod.IMPORT_END_DELIMETERS if tag == 'import' else scope_mod.DEF_END_DELIMETERS
        shift = ctx.rng.choice([0, 0, 1])
        src = Source('\n'.join(lines), 'r.py')
        sc_ = scope_mod.SourceScope(src)
        lines_seen = list(src.lines)
        res = sc_.find_id_loc(id_, (sl, pos), shift, delims, ends)
        cases.append((lines_seen, id_, (sl, pos), shift, delims, tag, res))
    return cases


GOTO_CORPUS = [
    'n = 3\nwhile n: print(n); n = n - 1\nprint(n)\n',
    'for i in [1, 2]: print(acc) if i > 1 else 0; acc = i\n',
    'def f(xs, c):\n    total = 0\n    for x in xs:\n        if c: print(total)\n        else:\n                        total = total + x\n    return total\n',
    'import os\nif os: val = 1\nelse: val = 2; val = val + 1\nprint(val); val = 0; print(val)\n',
    'try: res = 1\nexcept ValueError as err: res = err; print(res)\nprint(res)\n',
]


def goto_failures(ctx, fn, text, every=False):
    """go-to-definition from every name read (cursor at its end and inside it): every position
    reported for this file must show the identifier in the ORIGINAL text (or the except keyword)."""
    from supp.project import Project
    from supp.assistant import location
    proj = Project([os.path.join(ctx.scratch, 'nonexist')])
    try:
        tree = ast.parse(text)
    except SyntaxError:
        return 0, []
    lines = split_lines(text)
    reads = [n for n in ast.walk(tree) if isinstance(n, ast.Name) and isinstance(n.ctx, ast.Load)]
    self_imports = set((a.asname or a.name.split('.')[0]) for n in ast.walk(tree) if isinstance(n, (ast.Import, ast.ImportFrom))
                       for a in n.names)
    ctx.rng.shuffle(reads)
    bad = []
    n = 0
    for node in (reads if every else reads[:6]):
        line = lines[node.lineno - 1]
        if not line.isascii():
            continue
        for col in {node.col_offset + len(node.id), node.col_offset + max(1, len(node.id) // 2)}:
            for use_fn in (fn, None):
                try:
                    locs = location(proj, text, (node.lineno, col), use_fn)
                except Exception:
                    continue          # crashes are C08's business
                flat = []
                for x in locs:
                    flat.extend(x if isinstance(x, list) else [x])
                for x in flat:
                    if x['file'] not in (fn, None, '<string>'):
                        continue
                    n += 1
                    l, c = x['loc']
                    # a star-imported name has no identifier token of its own: its position is the `*`
                    ok = 1 <= l <= len(lines) and (lines[l - 1][c:c + len(node.id)] == node.id or lines[l - 1][c:c + 6] == 'except'
                                                   or lines[l - 1][c:c + 1] == '*')
                    # a file that imports ITSELF (curses/__init__.py: `import _curses, curses`): the definition of a
                    # module is the start of its file, which happens to be this file - not a binding position
                    if not ok and (l, c) == (1, 0) and node.id in self_imports:
                        ok = True
                    if not ok:
                        bad.append((node.id, (node.lineno, col, 'filename' if use_fn else 'no filename'), (l, c),
                                    lines[l - 1][max(0, c - 8):c + 16] if 1 <= l <= len(lines) else None))
    return n, bad


def crossfile_failures(ctx, prefix='', suffix='\n', tag='x'):
    """go-to-definition into ANOTHER project file: the position must show the identifier in THAT
    file, whatever the cursor's own line and column are (in particular when the target sits on the
    same line number as the cursor, right of its column)."""
    from supp.project import Project
    from supp.assistant import location
    d = os.path.join(ctx.scratch, 'xproj_' + tag)
    os.makedirs(d, exist_ok=True)
    names = ['alpha', 'beta', 'gamma', 'delta', 'eps']
    target = ['class Holder:', '    pass', ''] + ['if True:        %s = %d' % (nm, i) for i, nm in enumerate(names)] + \
             ['def func_one(): pass', 'class Cls_two: pass']
    tpath = os.path.join(d, 'xmod.py')
    ttext = prefix + '\n'.join(target) + suffix
    open(tpath, 'w').write(ttext)
    tlines = ttext.split('\n')        # the file as it is on disk (leading / trailing blank lines, form feeds)
    everything = names + ['func_one', 'Cls_two']
    main = ['from xmod import ' + ', '.join(everything)] + ['pass'] * 2 + [nm for nm in names] + ['func_one', 'Cls_two', ''] + \
           ['print(%s)' % nm for nm in everything]
    text = '\n'.join(main) + '\n'
    fn = os.path.join(d, 'xmain.py')
    proj = Project([d])
    bad, n = [], 0
    for ln, line in enumerate(main, 1):
        for nm in everything:
            i = line.find(nm)
            if ln == 1 or i < 0 or line[i:].rstrip(')') != nm:
                continue
            for col in (i + len(nm), i + 1):
                try:
                    locs = location(proj, text, (ln, col), fn)
                except Exception:
                    continue
                flat = []
                for x in locs:
                    flat.extend(x if isinstance(x, list) else [x])
                for x in flat:
                    n += 1
                    l, c = x['loc']
                    src = tlines if x['file'] == tpath else main
                    ok = 1 <= l <= len(src) and 0 <= c and src[l - 1][c:c + len(nm)] == nm
                    if not ok:
                        bad.append((nm, (ln, col), (x['file'], l, c)))
    return n, bad, text


def run(ctx):
    from supp import scope as scope_mod
    proof_ok = ctx.coq_props()
    cov = ctx.coverage
    cov['rule'] = ('(I): every find_id_loc call recorded while analysing real files + generated layouts + random texts, '
                   'model vs code inside Coq (vm_compute); direct: text at declared_at of every binding. '
                   'non-trivial = the search found an occurrence (no fall-back) or the binding is import/def/class')

    nfiles = ctx.pick(60, 100000)
    files = stdlib_files(limit=nfiles, rng=ctx.rng)
    gen = gen_layouts(ctx, ctx.pick(300, 3000))
    gdir = os.path.join(ctx.scratch, 'gen')
    os.makedirs(gdir)
    gfiles = []
    for i, src in enumerate(gen):
        p = os.path.join(gdir, 'g%d.py' % i)
        open(p, 'w').write(src)
        gfiles.append(p)

    calls, scopes = record_calls(gfiles + files, ctx)
    ctx.log('recorded %d find_id_loc calls over %d files' % (len(calls), len(scopes)))
    calls += random_text_cases(ctx, ctx.pick(600, 6000), scope_mod)

    # ---- direct evaluation of the property ---------------------------------------------
    findings = {f['id']: f for f in ctx.open_findings()}
    direct_bad = []
    nb = 0
    for fn, text, scope in scopes:
        n, bad = binding_failures(fn, text, scope)
        nb += n
        for b in bad:
            direct_bad.append((fn, text if fn.startswith(gdir) else None, b))
    cov['bindings_checked'] = nb
    ng = 0
    for fn, text, scope in scopes:
        if fn.startswith(gdir) or ctx.rng.random() < 0.15:
            k, bad = goto_failures(ctx, fn, text)
            ng += k
            for b in bad:
                direct_bad.append((fn, text if fn.startswith(gdir) else None, (b[0], b[2], 'go-to-definition from %r reports a position whose text is %r' % (b[1], b[3]))))
    # fixed texts, every read: several reaching bindings, one of them on the cursor's line right of the cursor
    # (one-line loops and suites), above it, and below it at a larger column
    for gi, gtext in enumerate(GOTO_CORPUS):
        k, bad = goto_failures(ctx, os.path.join(gdir, 'goto_corpus%d.py' % gi), gtext, every=True)
        ng += k
        for b in bad:
            direct_bad.append(('goto_corpus%d.py' % gi, gtext, (b[0], b[2], 'go-to-definition from %r reports a position whose text is %r' % (b[1], b[3]))))
    cov['goto_positions_checked'] = ng
    nx = 0
    # the target file as it is on disk: plain, starting with blank lines (csv.py, opcode.py do), with a form feed
    # page break, with trailing blanks and without a final newline
    for tag, prefix, suffix in (('plain', '', '\n'), ('lead', '\n\n', '\n'), ('ff', '\n\x0c\n', '\n\n\n'), ('cmt', '# c\n\n', ''),
                                ('sp', '   \n', '\n   \n')):
        k, xbad, xtext = crossfile_failures(ctx, prefix, suffix, tag)
        nx += k
        for b in xbad[:3]:
            direct_bad.append(('xmain.py', xtext, (b[0], b[2], 'cross-file go-to-definition from %r reports %r (target file variant %r): the text there is not the identifier' % (b[1], b[2], tag))))
    cov['crossfile_goto_positions_checked'] = nx
    for fn, text, b in direct_bad[:20]:
        ctx.violation('binding %r reported at %r but text there is %r (%s)' % (b[0], b[1], b[2], os.path.basename(fn)),
                      {'kind': 'direct', 'file': None if text else fn, 'source': text, 'binding': b})

    # ---- (I) correspondence ---------------------------------------------------------------
    # dedupe and cap the number of cases from real files
    seen = set()
    terms = []
    keep = []
    cap = ctx.pick(1500, 30000)
    ctx.rng.shuffle(calls)
    for (lines, id_, start, shift, delims, ends, res) in calls:
        sl, pos = start
        win = tuple(lines[sl - 1: sl + 50])
        if not all(l.isascii() for l in win) or not id_.isascii():
            continue
        if sum(len(l) for l in win) > 1200:
            continue
        key = (win, id_, pos, shift, delims, ends)
        if key in seen:
            continue
        seen.add(key)
        found = tuple(res) != (sl, pos)
        ctx.count(key, nontrivial=found)
        ctx.histogram('result_kind', 'found' if found else 'fallback')
        ctx.histogram('delims', 'on' if delims else 'off')
        terms.append(case_term(lines, id_, sl, pos, shift, delims, ends, res, scope_mod))
        keep.append((list(win), id_, [1, pos], shift, delims, ends, [res[0] - sl + 1, res[1]]))
        if len(terms) >= cap:
            break
    for k in keep[:4]:
        ctx.sample({'window': k[0][:3], 'id': k[1], 'start': k[2], 'shift': k[3], 'delims': k[4], 'result': k[6]})
    bad = ctx.run_cases(['Model.Text'], PRELUDE, 'check_case', terms, shard=250)
    cov['correspondence_cases'] = len(terms)
    cov['correspondence_disagreements'] = len(bad)
    if bad:
        # model and code disagree: search for a property failure among the disagreeing inputs
        found_any = False
        for i in bad[:50]:
            win, id_, start, shift, delims, ends, res = keep[i]
            l, c = res
            text_ok = (list(start) == list(res)) or (1 <= l <= len(win) and win[l - 1][c - shift:].startswith(id_))
            if not text_ok:
                found_any = True
                ctx.violation('find_id_loc(%r, %r) returned %r where the text is not the identifier' % (id_, start, res),
                              {'kind': 'find_id_loc', 'window': win, 'id': id_, 'start': start, 'shift': shift,
                               'delims': delims, 'ends': ends, 'result': res})
        if not found_any:
            i = bad[0]
            ctx.violation('correspondence Model.Text.find_id_loc vs supp.scope.SourceScope.find_id_loc no longer checks '
                          '(%d disagreements); theorems C11_* are about a model that is not the code' % len(bad),
                          {'kind': 'correspondence', 'theorem': 'C11_find_sound / correspondence find_id_loc',
                           'first_disagreement': keep[i]}, found_input=False)
    if not proof_ok:
        ctx.violation('proof obligations of Props/C11.v not discharged: %s' % (ctx.notes,),
                      {'kind': 'proof', 'theorem': 'Props/C11.v', 'notes': ctx.notes,
                       'build_error': cov.get('build_error')}, found_input=False)


def replay(ctx, obj):
    from supp import scope as sc
    from supp.util import Source
    from supp.nast import extract
    r = obj['replay']
    if r.get('kind') == 'direct':
        text = r['source'] if r.get('source') is not None else open(r['file']).read()
        src = Source(text, 'replay.py')
        scope = sc.SourceScope(src)
        extract(src.tree, scope.flow)
        n, bad = binding_failures('replay.py', text, scope)
        print('bindings', n, 'failing', bad)
        return 1 if bad else 0
    if r.get('kind') == 'find_id_loc':
        src = Source('\n'.join(r['window']), 'replay.py')
        ends = {'import': sc.IMPORT_END_DELIMETERS, 'def': sc.DEF_END_DELIMETERS}.get(r['ends'], r['ends'])
        res = sc.SourceScope(src).find_id_loc(r['id'], tuple(r['start']), r['shift'], r['delims'], ends)
        print('result', res)
        return 1
    print(obj.get('what'))
    return 1
