"""C07 - module resolution agrees with Python's import system.

Decided by
  (1) Coq theorems C07_* (Props/C07.v) on Model/Imports.v: IMPL (Project._find / get_module /
      norm_package / list_packages, split_pkg / join_pkg) against REF (FileFinder / PathFinder /
      parent-package walk, importlib.util.resolve_name, pkgutil.iter_modules) for every abstract
      file system, every number of roots and every depth;
  (2) (I)  IMPL evaluated in Coq  ==  the real supp (fresh interpreter, SUPP_REPO) on generated trees;
      (R)  REF  evaluated in Coq  ==  importlib / pkgutil (fresh interpreter) on the same trees;
  (3) direct evaluator: supp against importlib on the same tree, no model in between, on the cases
      the Coq-evaluated domain predicate accepts (search engine + replay).

This file is also the worker script: `python c07.py --worker` reads a JSON job on stdin.
"""
import json
import os
import sys

LEVEL = 'proof'
# imported by the supp-side worker before any query: loaded modules 2-3 levels below their package
DEEP_STDLIB = ['xml.etree.ElementTree', 'email.mime.text', 'concurrent.futures.thread']
ASSUMPTIONS = [
    'the file system does not change during one query (Project._norm_cache / _module_cache staleness is C09)',
    'os.path.exists / isfile / isdir / listdir are modelled by an abstract fs; symlinks, case-insensitive '
    'file systems, zip imports, .pth files, meta-path hooks and path hooks other than FileFinder are outside the model',
    'non-source modules (extension, bytecode-only) are handed to the interpreter by __import__: the file '
    'supp "analyses" is then the one importlib loads, provided the source roots are on sys.path of the server',
    'Project.dyn_modules is empty (default)',
    'builtin and frozen modules have no file: compared only through the sys.modules fall-back',
]

# ---------------------------------------------------------------------------------------------
# worker: runs inside a fresh interpreter (supp side or importlib side), never both
# ---------------------------------------------------------------------------------------------

W_TIMEOUT = 600


def _worker_supp(job):
    import types
    repo = os.environ['SUPP_REPO']
    sys.path.insert(0, repo)
    import supp
    real = os.path.dirname(os.path.dirname(os.path.abspath(supp.__file__)))
    if os.path.realpath(real) != os.path.realpath(repo):
        raise RuntimeError('supp imported from %s, expected %s' % (real, repo))
    import supp.project as sp
    from supp.project import Project
    from supp.assistant import assist, location
    from supp.evaluator import EvalCtx
    from supp.util import split_pkg, join_pkg
    import logging
    logging.disable(logging.CRITICAL)
    import importlib
    # modules two and three levels below their top-level package are loaded in the analysing process
    for deep in DEEP_STDLIB:
        try:
            importlib.import_module(deep)
        except ImportError:
            pass

    def make_project(sources):
        # the way the server builds its project (Server.configure); plain Project if that is not possible
        try:
            from supp.server import Server
            srv = Server(None)
            srv.configure({'sources': list(sources)})
            return srv.project
        except Exception:  # noqa
            return Project(list(sources))
    make_project([])

    base = job['base']
    suffixes = list(getattr(sp, 'SUFFIXES', None) or __import__('importlib.machinery').machinery.all_suffixes())
    requested = []
    fakes = []

    def fake_import(name, *a, **k):
        # get_module hands non-source modules to the interpreter; do not load generated fakes
        requested.append(name)
        if name not in sys.modules:
            sys.modules[name] = types.ModuleType(name)
            fakes.append(name)
        return sys.modules[name]

    sp.__import__ = fake_import     # shadows the builtin inside supp.project only

    def drop_fakes():
        for n in fakes:
            sys.modules.pop(n, None)
        del fakes[:]

    def classify_exc(e):
        if isinstance(e, ImportError):
            if getattr(e, 'name', None) is not None or getattr(e, 'path', None) is not None:
                return ['loadattempt']        # raised by the import machinery, not by supp's search
            return ['ImportError']
        return ['exc', type(e).__name__]

    out = {'suffixes': suffixes, 'trees': []}
    for t in job['trees']:
        res = {}
        full = t['extra'] + base + t.get('after', [])
        sys.path[:] = full
        p = make_project(t['sources'])
        loaded0 = sorted(sys.modules)
        res['loaded'] = loaded0
        gm = []
        for name in t['names']:
            del requested[:]
            try:
                m = p.get_module(name)
                if hasattr(m, 'filename'):
                    r = ['source', m.filename]
                else:
                    r = ['imported', bool(requested)]
            except Exception as e:  # noqa
                r = classify_exc(e)
            finally:
                drop_fakes()
                # a cached ImportedModule of a fake must not survive into other queries
            gm.append(r)
        res['gm'] = gm
        nm = []
        home = os.getcwd()
        relproj = {}
        for item in t['rel']:
            fname, spec = item[0], item[2]
            cwd = item[3] if len(item) > 3 else None
            proj = p
            if cwd:
                # the file name is handed over relative to the working directory
                os.chdir(cwd)
                fname = os.path.relpath(fname, cwd)
                proj = relproj.setdefault(cwd, Project(['.']))
            try:
                r = ['ok', proj.norm_package(spec, fname)]
            except Exception as e:  # noqa
                r = classify_exc(e)
            finally:
                os.chdir(home)
            nm.append(r)
        res['norm'] = nm
        # from-imports resolved through the real name-resolution path: go-to-definition on a use of the name
        fr = []
        locproj = {}
        for item in t.get('froms', []):
            fname, cwd = item['file'], item.get('cwd')
            proj = p
            del requested[:]
            try:
                if cwd:
                    os.chdir(cwd)
                    fname = os.path.relpath(fname, cwd)
                    proj = locproj.get(cwd) or locproj.setdefault(cwd, make_project(t['sources']))
                locs = location(proj, item['src'], tuple(item['pos']), fname)
                flat = []
                for l in locs:
                    flat.extend(l if isinstance(l, list) else [l])
                # the import statement itself is reported at its own column; a module at (1, 0)
                r = ['ok', [d['file'] for d in flat if tuple(d['loc']) == (1, 0)]]
            except Exception as e:  # noqa
                r = classify_exc(e)
            finally:
                os.chdir(home)
                drop_fakes()
            fr.append(r)
        res['froms'] = fr
        # really import some deep modules of the tree (empty sources), so that sys.modules holds
        # grandchildren of the packages that are listed below
        sys.path[:] = t['sources'] + full
        importlib.invalidate_caches()
        for name in t.get('preload', []):
            try:
                importlib.import_module(name)
            except Exception:  # noqa
                pass
        res['loaded2'] = sorted(sys.modules)
        # list_packages / assist: sys.path reduced to the tree's own extra entries
        sys.path[:] = t['extra'] + t.get('after', [])
        p2 = Project(list(t['sources']))
        ls = []
        for pkg in t['lists']:
            try:
                r = ['ok', sorted(p2.list_packages(pkg))]
            except Exception as e:  # noqa
                r = classify_exc(e)
            ls.append(r)
        res['lists'] = ls
        asg = []
        for a in t['assist']:
            del requested[:]
            attrs = None
            try:
                pref, lst = assist(p2, a['src'], tuple(a['pos']), a['file'])
                r = ['ok', pref, list(lst)]
            except Exception as e:  # noqa
                r = classify_exc(e)
            if a['kind'] == 'from_import' and r[0] == 'ok':
                try:
                    attrs = sorted(p2.get_nmodule(a['head'], a['file']).attr_list(EvalCtx(p2)))
                except Exception as e:  # noqa
                    attrs = None
            drop_fakes()
            asg.append([r, attrs, bool(requested)])
        res['assist'] = asg
        res['loaded2_end'] = sorted(sys.modules)
        for k in set(sys.modules) - set(loaded0):
            sys.modules.pop(k, None)
        for k in list(sys.path_importer_cache):
            if k.startswith(t['tbase']):
                sys.path_importer_cache.pop(k, None)
        sys.path[:] = full
        res['loaded_end'] = sorted(sys.modules)
        out['trees'].append(res)
    out['strings'] = []
    for s in job.get('strings', []):
        h, tl = split_pkg(s)
        out['strings'].append([h, tl, join_pkg(h, tl)])
    return out


def _worker_oracle(job):
    import importlib
    import importlib.util
    import importlib.machinery as mach
    import pkgutil
    import inspect  # noqa: needed by pkgutil while sys.path is reduced
    base = job['base']
    builtin = set(sys.builtin_module_names)

    def nofile_top(top):
        if top in builtin:
            return True
        try:
            return mach.FrozenImporter.find_spec(top) is not None
        except Exception:  # noqa
            return False

    def fresh_find(name):
        """find_spec as in an interpreter that has not imported the name yet."""
        top = name.split('.')[0]
        saved = {}
        if not nofile_top(top):
            for k in list(sys.modules):
                if k == top or k.startswith(top + '.'):
                    saved[k] = sys.modules.pop(k)
        before = set(sys.modules)
        try:
            try:
                spec = importlib.util.find_spec(name)
            except (ImportError, ValueError) as e:
                return ['none', type(e).__name__]
            except Exception as e:  # noqa
                return ['exc', type(e).__name__]
            if spec is None:
                return ['none', '']
            if spec.origin in ('built-in', 'frozen'):
                return ['nofile', spec.origin]
            if spec.loader is None or spec.origin is None or not spec.has_location:
                return ['namespace']
            src = isinstance(spec.loader, mach.SourceFileLoader)
            return ['file', spec.origin, spec.submodule_search_locations is not None, bool(src),
                    spec.parent, list(spec.submodule_search_locations or [])]
        finally:
            for k in set(sys.modules) - before:
                sys.modules.pop(k, None)
            sys.modules.update(saved)

    out = {'loader_suffixes': list(mach.EXTENSION_SUFFIXES) + list(mach.SOURCE_SUFFIXES) + list(mach.BYTECODE_SUFFIXES),
           'trees': []}
    for t in job['trees']:
        res = {}
        short = t['sources'] + t['extra'] + t.get('after', [])
        sys.path[:] = t['sources'] + t['extra'] + base + t.get('after', [])
        importlib.invalidate_caches()
        res['find'] = [fresh_find(n) for n in t['names']]
        rel = []
        for item in t['rel']:
            fname, guess, spec = item[:3]
            f = fresh_find(guess) if guess else ['none', '']
            if f[0] == 'file' and f[1] == fname:
                package = f[4]
                try:
                    r = ['ok', importlib.util.resolve_name(spec, package)]
                except ImportError:
                    r = ['ImportError']
                except Exception as e:  # noqa
                    r = ['exc', type(e).__name__]
                rel.append([package, r])
            else:
                rel.append(None)
        res['rel'] = rel
        fr = []
        for item in t.get('froms', []):
            f = fresh_find(item['name']) if item['name'] else ['none', '']
            if f[0] == 'file' and f[1] == item['file']:
                package = f[4]
                spec = '.' * item['level'] + '.'.join(item['modc'] + [item['mname']])
                try:
                    resolved = importlib.util.resolve_name(spec, package)
                except ImportError:
                    fr.append([package, ['ImportError'], ['none', '']])
                    continue
                fr.append([package, ['ok', resolved], fresh_find(resolved)])
            else:
                fr.append(None)
        res['froms'] = fr
        ch = []
        sys.path[:] = short        # the listing queries of the supp side run without the interpreter's own path
        importlib.invalidate_caches()
        for i, pkg in enumerate(t['lists']):
            if pkg:
                f = fresh_find(pkg)
                dirs = f[5] if (f[0] == 'file' and f[2]) else []
            else:
                dirs = short
            kids = sorted({m.name for m in pkgutil.iter_modules(dirs)}) if dirs else []
            imp = {}
            for child in t.get('proposals', {}).get(str(i), []):
                full = (pkg + '.' + child) if pkg else child
                if not child or full.startswith('.') or '..' in full:
                    imp[child] = False
                    continue
                imp[child] = fresh_find(full)[0] in ('file', 'nofile', 'namespace')
            ch.append([kids, imp])
        res['children'] = ch
        for k in list(sys.path_importer_cache):
            if k.startswith(t['tbase']):
                sys.path_importer_cache.pop(k, None)
        out['trees'].append(res)
    return out


def worker_main():
    sys.dont_write_bytecode = True
    job = json.load(sys.stdin)
    out = _worker_supp(job) if job['mode'] == 'supp' else _worker_oracle(job)
    sys.stdout.write('\n@@C07@@' + json.dumps(out))


if __name__ == '__main__' and '--worker' in sys.argv:
    worker_main()
    sys.exit(0)

# ---------------------------------------------------------------------------------------------
# harness side
# ---------------------------------------------------------------------------------------------
from concurrent.futures import ThreadPoolExecutor  # noqa: E402

import common  # noqa: E402
from common import coq_list, coq_nat, coq_bool, coq_option  # noqa: E402

HERE = os.path.abspath(__file__)
CORPUS = os.path.join(common.VERIF, 'corpus', 'C07')

POOL = ['a', 'b', 'c', 'pkg', 'mod', 'util', 'x', 'json', 'colorsys', 'textwrap', 'email', 'lib']
DEEP_PARENTS = ['xml', 'xml.etree', 'email', 'email.mime', 'concurrent', 'concurrent.futures']
NO_PRELOAD_TOPS = set(getattr(sys, 'stdlib_module_names', ())) | {'json', 'colorsys', 'textwrap', 'email'}
STDLIB = ['json', 'json.decoder', 'json.nosuch', 'colorsys', 'colorsys.sub', 'textwrap', 'email.mime.text',
          'email.mime.nosuch', 'xml.dom.minidom', 'sys', 'builtins', '_thread', 'math', 'array', '_json',
          'nosuchmodule', 'nosuch.sub', 'jsom', 'json.decodr']


def run_worker(job):
    rc, out, err = common.run_py(HERE, args=['--worker'], stdin=json.dumps(job), timeout=W_TIMEOUT,
                                 env_extra={'PYTHONDONTWRITEBYTECODE': '1'})
    if rc != 0 or '@@C07@@' not in out:
        raise RuntimeError('C07 worker (%s) failed rc=%s\n%s\n%s' % (job['mode'], rc, out[-1500:], err[-3000:]))
    return json.loads(out.split('@@C07@@', 1)[1])


def run_workers(mode, trees, base, extra=None, per=12):
    jobs = []
    for i in range(0, len(trees), per):
        j = {'mode': mode, 'base': base, 'trees': trees[i:i + per]}
        if extra and i == 0:
            j.update(extra)
        jobs.append(j)
    with ThreadPoolExecutor(max_workers=common.NCPU) as ex:
        outs = list(ex.map(run_worker, jobs))
    return outs


def base_path():
    """sys.path of a plain interpreter, reduced to real directories other than the repo/harness."""
    rc, out, err = common.run_py('import sys, json; print("@@" + json.dumps(sys.path))', timeout=60)
    paths = json.loads(out.split('@@', 1)[1])
    bad = {os.path.realpath(common.REPO), os.path.realpath('/repo'),
           os.path.realpath(os.path.join(common.VERIF, 'harness'))}
    res = []
    for p in paths:
        if p and os.path.isdir(p) and os.path.realpath(p) not in bad and p not in res:
            res.append(p)
    return res


# ---- trees -----------------------------------------------------------------------------------

def valid_pyc():
    import importlib._bootstrap_external as be
    return bytes(be._code_to_timestamp_pyc(compile('', 'm', 'exec'), 0, 0))


def gen_dir(rng, ents, prefix, depth, maxdepth, ext_sfx, ood):
    k = rng.randint(1, 4 if depth < 2 else 2)
    for name in rng.sample(POOL, k):
        r = rng.random()
        if ood and r < ood:
            shape = rng.choice(['clash', 'ns', 'initpyc', 'dirpy'])
            if shape == 'clash':
                ents[prefix + name + '.py'] = 'F'
                ents[prefix + name] = 'D'
                ents[prefix + name + '/__init__.py'] = 'F'
                ents[prefix + name + '/mod.py'] = 'F'
            elif shape == 'ns':
                ents[prefix + name] = 'D'
                ents[prefix + name + '/mod.py'] = 'F'
            elif shape == 'initpyc':
                ents[prefix + name] = 'D'
                ents[prefix + name + '/__init__.pyc'] = 'F'
                ents[prefix + name + '/mod.py'] = 'F'
            else:
                ents[prefix + name + '.py'] = 'D'
            continue
        r = rng.random()
        if r < 0.36:
            ents[prefix + name + '.py'] = 'F'
            if rng.random() < 0.08:      # source next to its in-place compiled extension
                ents[prefix + name + rng.choice(ext_sfx)] = 'F'
        elif r < 0.70 and depth < maxdepth:
            ents[prefix + name] = 'D'
            ents[prefix + name + '/__init__.py'] = 'F'
            gen_dir(rng, ents, prefix + name + '/', depth + 1, maxdepth, ext_sfx, ood)
        elif r < 0.82:
            ents[prefix + name + rng.choice(ext_sfx)] = 'F'
        elif r < 0.88:
            ents[prefix + name + '.pyc'] = 'F'
        else:
            ents[prefix + name + '.py'] = 'F'
    if rng.random() < 0.35:
        noise = rng.choice(['README.txt', 'data.json', 'x.cpython-311-x86_64-linux-gnu.so', 'a.b.py',
                            'Makefile', 'notes.py.bak', 'mod.pyi', 'conf.d.py', 'lib.cpython-39-darwin.so'])
        ents.setdefault(prefix + noise, 'F')
    if rng.random() < 0.08:
        ents[prefix + '__pycache__'] = 'D'
        ents[prefix + '__pycache__/mod.cpython-312.pyc'] = 'F'


def module_names(ents, roots):
    """dotted names of everything that looks like a module below each root (union over roots)."""
    import importlib.machinery as mach
    sfx = sorted(mach.all_suffixes(), key=len, reverse=True)
    names = set()
    files = {}
    for r in roots:
        for rel, k in ents.items():
            if not rel.startswith(r + '/'):
                continue
            comps = rel[len(r) + 1:].split('/')
            if k == 'D':
                nm = comps
            else:
                last = comps[-1]
                for s in sfx:
                    if last.endswith(s) and len(last) > len(s):
                        last = last[:-len(s)]
                        break
                else:
                    continue
                nm = comps[:-1] + ([last] if last != '__init__' else [])
                if last == '__init__' and not comps[:-1]:
                    continue
            if nm and all(nm) and '__pycache__' not in nm:
                d = '.'.join(nm)
                names.add(d)
                if k == 'F' and rel.endswith('.py'):
                    files.setdefault(rel, d)
    return sorted(names), files


def gen_tree(rng, idx, ext_sfx):
    ents = {}
    nroots = rng.choice([1, 2, 2, 3, 3])
    roots = ['r%d' % i for i in range(nroots)]
    ood = 0.12 if rng.random() < 0.25 else 0
    maxdepth = rng.choice([1, 2, 3, 4, 4])
    for r in roots:
        ents[r] = 'D'
        gen_dir(rng, ents, r + '/', 0, maxdepth, ext_sfx, ood)
    if ood and rng.random() < 0.3:
        ents[roots[0] + '/__init__.py'] = 'F'
    rng.shuffle(roots)
    extra = []
    after = []
    if len(roots) > 1 and rng.random() < 0.3:
        extra = [roots.pop()]
    # a source root that is ALSO an entry of sys.path (PYTHONPATH / .pth / editable install), in front of
    # or behind the interpreter's own entries; and plain entries behind the stdlib
    r = rng.random()
    if r < 0.2:
        extra = extra + [rng.choice(roots)]
    elif r < 0.4:
        after = [rng.choice(roots)]
    elif r < 0.5 and len(roots) > 1:
        after = [roots.pop()]
        if rng.random() < 0.5:
            after.append(rng.choice(roots))
    t = {'id': 'g%d' % idx, 'entries': ents, 'sources': roots, 'extra': extra, 'after': after,
         'ood_tree': bool(ood)}
    fill_queries(rng, t)
    return t


def misspell(rng, name):
    comps = name.split('.')
    i = rng.randrange(len(comps))
    c = comps[i]
    c = rng.choice([c + 'x', c[:-1] or 'q', c.upper(), 'no' + c])
    comps[i] = c
    return '.'.join(comps)


def stems_in(ents, d):
    """module-like stems of the entries directly inside directory d (tree-relative)"""
    import importlib.machinery as mach
    sfx = sorted(mach.all_suffixes(), key=len, reverse=True)
    out = set()
    pre = d + '/'
    for rel, k in ents.items():
        if not rel.startswith(pre) or '/' in rel[len(pre):]:
            continue
        nm = rel[len(pre):]
        if k != 'D':
            for s in sfx:
                if nm.endswith(s) and len(nm) > len(s):
                    nm = nm[:-len(s)]
                    break
            else:
                continue
        if nm and nm != '__init__' and '.' not in nm and nm != '__pycache__':
            out.add(nm)
    return sorted(out)


def from_item(rel_file, name, level, modc, mname, cwd, alias=False):
    head = '.' * level + '.'.join(modc)
    use = 'alias_' if alias else mname
    stmt = 'from %s import %s%s' % (head, mname, ' as alias_' if alias else '')
    return {'file': rel_file, 'name': name, 'level': level, 'modc': list(modc), 'mname': mname, 'cwd': cwd,
            'src': stmt + '\n' + use + '\n', 'pos': [2, len(use)]}


def gen_froms(rng, ents, fl, files, names, cap=20):
    """`from <dots>[module] import name` statements of every level 1..depth+1 (dots only and with a module
    part) and absolute ones, in files of the tree; the name is a submodule of the addressed package, of a
    package one level off, or absent."""
    out = []
    for rel_file in fl[:7]:
        root = rel_file.split('/')[0]
        P = rel_file.split('/')[1:-1]
        for level in range(1, len(P) + 2):
            anc = P[:len(P) - (level - 1)] if level <= len(P) else []
            here = stems_in(ents, '/'.join([root] + anc))
            near = set()
            if anc:
                near.update(stems_in(ents, '/'.join([root] + anc[:-1])))
            if level >= 2 and level - 2 <= len(P):
                near.update(stems_in(ents, '/'.join([root] + P[:len(P) - (level - 2)])))
            cands = rng.sample(here, min(2, len(here))) + rng.sample(sorted(near), min(1, len(near))) + \
                (['nosuch'] if rng.random() < 0.3 else [])
            for mname in cands:
                cwd = rng.choice([None, None, root, '.'])
                out.append(from_item(rel_file, files[rel_file], level, [], mname, cwd, alias=rng.random() < 0.15))
            # with a module part: a sub-package of the addressed package
            subs = [s for s in here if ents.get('/'.join([root] + anc + [s])) == 'D']
            if subs and rng.random() < 0.6:
                s = rng.choice(subs)
                inner = stems_in(ents, '/'.join([root] + anc + [s])) or ['nosuch']
                out.append(from_item(rel_file, files[rel_file], level, [s], rng.choice(inner), rng.choice([None, root])))
    for n in names[:6]:
        comps = n.split('.')
        if len(comps) >= 2 and fl:
            f = rng.choice(fl)
            out.append(from_item(f, files[f], 0, comps[:-1], comps[-1], None))
    import keyword
    out = [i for i in out if all(c.isidentifier() and not keyword.iskeyword(c) for c in i['modc'] + [i['mname']])]
    rng.shuffle(out)
    return out[:cap]


def fill_queries(rng, t, nnames=32, nrel=26, nlists=8, nassist=5):
    ents = t['entries']
    roots = list(dict.fromkeys(t['sources'] + t['extra'] + t.get('after', [])))
    names, files = module_names(ents, roots)
    pick = list(names)
    rng.shuffle(pick)
    q = pick[:nnames]
    for n in pick[:5]:
        q.append(misspell(rng, n))
        q.append(n + '.nosuch')
    q += rng.sample(STDLIB, 5)
    q += [rng.choice(POOL), rng.choice(POOL) + '.' + rng.choice(POOL)]
    seen = set()
    t['names'] = [x for x in q if not (x in seen or seen.add(x))]
    # relative specifiers from files of the tree
    rel = []
    fl = sorted(files)
    rng.shuffle(fl)
    for rel_file in fl[:10]:
        root = rel_file.split('/')[0]
        dcomps = rel_file.split('/')[1:-1]
        for level in range(1, len(dcomps) + 3):
            for rest in rng.sample(['', 'x', 'x.y', rng.choice(POOL)], 2):
                # file name absolute, relative to its root (sources ['.']) or relative to the directory above
                cwd = rng.choice([None, None, root, root, '.'])
                rel.append([rel_file, files[rel_file], '.' * level + rest, cwd])
    rng.shuffle(rel)
    t['rel'] = rel[:nrel]
    t['froms'] = gen_froms(rng, ents, fl, files, pick)
    pk = [n for n in names if any(ents.get(r + '/' + n.replace('.', '/')) == 'D' for r in roots)]
    rng.shuffle(pk)
    t['lists'] = [''] + pk[:nlists] + [rng.choice(names) if names else 'a', 'nosuch', 'a.nosuch']
    # deep modules that the analysing process really imports before the listings are asked for
    deep = [n for n in names if n.count('.') >= 2 and n.split('.')[0] not in NO_PRELOAD_TOPS]
    rng.shuffle(deep)
    t['preload'] = deep[:3]
    asg = []
    for n in t['preload']:
        comps = n.split('.')
        for i in range(1, len(comps)):
            par = '.'.join(comps[:i])
            if par not in t['lists']:
                t['lists'].append(par)
        par = '.'.join(comps[:rng.randint(1, len(comps) - 1)])
        src = rng.choice(['import %s.', 'from %s.']) % par
        asg.append({'kind': 'import' if src.startswith('import') else 'from', 'src': src + '\n',
                    'pos': [1, len(src)], 'file': None, 'head': par})
    for par in rng.sample(DEEP_PARENTS, 2):
        t['lists'].append(par)
    par = rng.choice(DEEP_PARENTS)
    src = rng.choice(['import %s.', 'from %s.']) % par
    asg.append({'kind': 'import' if src.startswith('import') else 'from', 'src': src + '\n',
                'pos': [1, len(src)], 'file': None, 'head': par})
    for pkgname in pk[:nassist]:
        kind = rng.choice(['import', 'from', 'from_import'])
        f = rng.choice(fl) if fl else None
        if kind == 'import':
            src = 'import %s.' % pkgname
            asg.append({'kind': kind, 'src': src + '\n', 'pos': [1, len(src)], 'file': f, 'head': pkgname})
        elif kind == 'from':
            src = 'from %s.' % pkgname
            asg.append({'kind': kind, 'src': src + '\n', 'pos': [1, len(src)], 'file': f, 'head': pkgname})
        else:
            src = 'from %s import ' % pkgname
            asg.append({'kind': kind, 'src': src + '\n', 'pos': [1, len(src)], 'file': f, 'head': pkgname})
    for rel_file in fl[:3]:
        level = rng.randint(1, 2)
        rest = rng.choice(['', '', rng.choice(POOL)])
        kind = rng.choice(['from', 'from_import'])
        head = '.' * level + rest
        if kind == 'from':
            src = 'from %s%s' % (head, '.' if rest else '')
        else:
            src = 'from %s import ' % head
        asg.append({'kind': kind, 'src': src + '\n', 'pos': [1, len(src)], 'file': rel_file, 'head': head})
    t['assist'] = asg


def materialise(t, scratch, pyc):
    tb = os.path.join(scratch, 'T', t['id'])
    for rel, k in sorted(t['entries'].items()):
        p = os.path.join(tb, rel)
        if k == 'D':
            os.makedirs(p, exist_ok=True)
        else:
            os.makedirs(os.path.dirname(p), exist_ok=True)
            with open(p, 'wb') as f:
                if rel.endswith('.pyc'):
                    f.write(pyc)
    os.makedirs(tb, exist_ok=True)
    return tb


def concretise(t, tb):
    """tree spec with absolute paths, as sent to the workers."""
    ab = lambda r: os.path.join(tb, r)  # noqa
    def cw(item):
        c = item[3] if len(item) > 3 else None
        return None if c is None else (tb if c == '.' else ab(c))
    c = {'tbase': tb, 'sources': [ab(r) for r in t['sources']], 'extra': [ab(r) for r in t['extra']],
         'after': [ab(r) for r in t.get('after', [])],
         'names': t['names'], 'lists': t['lists'], 'preload': t.get('preload', []),
         'rel': [[ab(i[0]), i[1], i[2], cw(i)] for i in t['rel']],
         'froms': [dict(i, file=ab(i['file']), cwd=(None if not i.get('cwd') else (tb if i['cwd'] == '.' else ab(i['cwd']))))
                   for i in t.get('froms', [])],
         'assist': [dict(a, file=(ab(a['file']) if a.get('file') else None)) for a in t['assist']]}
    return c


# ---- Gallina printing --------------------------------------------------------------------------

def cstr(s):
    if not s.isascii() or '"' in s:
        raise ValueError('unsupported name %r' % s)
    return '(S_ "%s")' % s


def cname(dotted):
    return coq_list([cstr(c) for c in dotted.split('.')]) if dotted else '[]'


def wellformed(dotted):
    return bool(dotted) and all(dotted.split('.')) and dotted.isascii() and '"' not in dotted


class TreePrinter(object):
    """Paths are printed relative to the tree base (component "t") or to the i-th entry of the
    interpreter's own path (component "@i"): a prefix renaming, so lookups in Coq stay short."""

    def __init__(self, key, tb, base):
        self.key = key
        self.pref = [(tb.rstrip('/'), 't')] + [(b.rstrip('/'), '@%d' % i) for i, b in enumerate(base)]

    def comps(self, p):
        p = p.rstrip('/') if p != '/' else p
        for pre, tag in self.pref:
            if p == pre:
                return [tag]
            if p.startswith(pre + '/'):
                return [tag] + p[len(pre) + 1:].split('/')
        raise ValueError('path outside the tree and the interpreter path: %r' % p)

    def path(self, p):
        return coq_list([cstr(c) for c in self.comps(p)])

    def node(self, listing):
        root = ['D', {}]
        for p, k in sorted(listing.items()):
            cur = root
            cs = self.comps(p)
            for c in cs[:-1]:
                cur = cur[1].setdefault(c, ['D', {}])
            ent = cur[1].setdefault(cs[-1], [k, {}])
            ent[0] = k

        def pr(n):
            return '(Node %s %s)' % ('Dir' if n[0] == 'D' else 'File',
                                     coq_list(['(%s, %s)' % (cstr(c), pr(m)) for c, m in sorted(n[1].items())]))
        return pr(root)


def probe(listing, root, comps, sfx):
    """facts about the real file system below a sys.path entry that either model may look at"""
    d = root
    for c in comps:
        basep = os.path.join(d, c)
        for s in sfx:
            f = basep + s
            if f not in listing and os.path.exists(f):
                listing[f] = 'D' if os.path.isdir(f) else 'F'
        if not os.path.exists(basep):
            break
        isd = os.path.isdir(basep)
        listing[basep] = 'D' if isd else 'F'
        if not isd:
            break
        for s in sfx:
            f = os.path.join(basep, '__init__' + s)
            if f not in listing and os.path.exists(f):
                listing[f] = 'D' if os.path.isdir(f) else 'F'
        d = basep


PRELUDE_TYPES = r'''
Record tree := mkT { t_fs : node; t_full : list path; t_short : list path;
                     t_loaded : list (list str); t_loaded2 : list (list str) }.
Definition FS t := fs_of_node (t_fs t).
Definition LS t := ls_of_node (t_fs t).
Inductive ogm := OSource (f : path) | OImported (flag : option bool) | OImportError | OOther.
Inductive ofind := OFile (f : path) (ispkg src : bool) (parent : list str) | ONone | ONoFile | ONamespace | OSkip.
Inductive ofrom := OTargets (l : list path) | OFromOther.
Inductive olist := OList (l : list str) | OLErr | OLOther.
Inductive q :=
| QMod (name : list str) (o : ogm) (r : ofind)
| QRel (name : list str) (file : path) (cwd : option path) (level : nat) (rest : list str) (o : nres) (r : option (list str * nres))
| QFrom (name : list str) (file : path) (cwd : option path) (level : nat) (modc : list str) (mname : str)
        (o : ofrom) (r : option (list str * nres * ofind))
| QList (pkg : list str) (o : olist) (r : option (list str))
| QAssist (level : nat) (rest : list str) (file : path) (withmod : bool) (attrs : option (list str)) (o : olist)
| QSplit (s h t j : str).

Definition is_some {A} (o : option A) := match o with Some _ => true | None => false end.
Definition nres_eqb (a b : nres) := match a, b with
  | NOk x, NOk y => path_eqb x y | NErr, NErr => true | NOutOfFuel, NOutOfFuel => true | _, _ => false end.
Definition subset (a b : list str) := forallb (fun x => existsb (str_eqb x) b) a.
Definition set_eqb a b := subset a b && subset b a.

Definition gm_ok (t : tree) name (o : ogm) : bool :=
  match get_module (FS t) SFX (t_loaded t) (t_full t) name, o with
  | GSource f, OSource g => path_eqb f g
  | GRuntime _, OImported None => true
  | GRuntime _, OImported (Some b) => Bool.eqb b (negb (mem_name name (t_loaded t)))
  | GLoaded, OImported None => true
  | GLoaded, OImported (Some false) => true
  | GImportError, OImportError => true
  | _, _ => false
  end.

Definition find_ok (t : tree) name (r : ofind) : bool :=
  match importlib_walk (FS t) LSFX (t_full t) name, r with
  | _, OSkip => true
  | _, ONoFile => true
  | RFound (f, src, pd), OFile g ispkg s parent =>
      path_eqb f g && Bool.eqb ispkg (is_some pd) && Bool.eqb src s && path_eqb (spec_parent name (f, src, pd)) parent
  | RNotFound, ONone => true
  | RNamespace, ONamespace => true
  | RNamespace, _ => negb (List.length name =? 1)
  | _, _ => false
  end.

Fixpoint paths_eqb (a b : list path) : bool :=
  match a, b with
  | [], [] => true
  | x :: a', y :: b' => path_eqb x y && paths_eqb a' b'
  | _, _ => false
  end.

(* norm_package as called with an absolute file name or one relative to the working directory c *)
Definition norm_any (t : tree) (cwd : option path) level rest file : nres :=
  match cwd with
  | None => norm_package (FS t) level rest file
  | Some c => norm_package_rel (FS t) c level rest (skipn (List.length c) file)
  end.

(* ImportedName.resolve for `from <level dots><modc> import mname` in [file], all modules of the tree being
   empty: the submodule <level dots><modc>.mname first, else the attribute mname of the (empty) module.
   Some l = the source files go-to-definition shows; None = a non-source module is involved (not compared) *)
Definition from_targets (t : tree) cwd level modc mname file : option (list path) :=
  let sub := match norm_any t cwd level (modc ++ [mname]) file with
             | NOk target => Some (get_module (FS t) SFX (t_loaded t) (t_full t) target)
             | _ => None end in
  match sub with
  | Some (GSource f) => Some [f]
  | Some GImportError | None =>
      match norm_any t cwd level modc file with
      | NOk pkg => match get_module (FS t) SFX (t_loaded t) (t_full t) pkg with
                   | GSource _ | GImportError => Some []
                   | _ => None end
      | _ => Some []
      end
  | Some _ => None
  end.

Definition listed_dirs (t : tree) pkg :=
  match pkg with [] => t_short t | _ => next_dirs (impl_lookup (FS t) SFX (t_short t) pkg) end.

Definition list_model (t : tree) pkg := list_packages (FS t) (LS t) SFX (t_loaded2 t) (t_short t) pkg.

Definition code (c : tree * q) : nat :=
  let (t, qq) := c in
  match qq with
  | QMod name o r =>
      (if gm_ok t name o then 0 else 1) + (if find_ok t name r then 0 else 2) +
      (if dom (FS t) LSFX (t_full t) name then 4 else 0)
  | QRel name file cwd level rest o r =>
      (* cwd = Some c: the API got the file name relative to the working directory c *)
      (if nres_eqb (match cwd with
                    | None => norm_package (FS t) level rest file
                    | Some c => norm_package_rel (FS t) c level rest (skipn (List.length c) file)
                    end) o then 0 else 1) +
      (match r with
       | None => 0
       | Some (package, ro) =>
           if nres_eqb (resolve_name level rest package) ro then 0 else 2
       end) +
      (match importlib_walk (FS t) LSFX (t_full t) name with
       | RFound (f, _, _) =>
           if path_eqb f file && dom (FS t) LSFX (t_full t) name && forallb (root_ok (FS t)) (t_full t) &&
              match cwd with None => true | Some c => root_ok (FS t) c end
           then 4 else 0
       | _ => 0 end)
  | QFrom name file cwd level modc mname o r =>
      (match from_targets t cwd level modc mname file, o with
       | None, _ => 0
       | Some l, OTargets l' => if paths_eqb l l' then 0 else 1
       | Some _, OFromOther => 1
       end) +
      (match r with
       | None => 0
       | Some (package, ro, fo) =>
           if nres_eqb (resolve_name level (modc ++ [mname]) package) ro &&
              match ro with NOk resolved => find_ok t resolved fo | _ => true end
           then 0 else 2
       end) +
      (match importlib_walk (FS t) LSFX (t_full t) name with
       | RFound (f, _, pd) =>
           if path_eqb f file && dom (FS t) LSFX (t_full t) name && forallb (root_ok (FS t)) (t_full t) &&
              match cwd with None => true | Some c => root_ok (FS t) c end &&
              match resolve_name level (modc ++ [mname]) (spec_parent name (f, true, pd)) with
              | NOk target => dom (FS t) LSFX (t_full t) target
              | _ => true end &&
              match resolve_name level modc (spec_parent name (f, true, pd)) with
              | NOk pkg => dom (FS t) LSFX (t_full t) pkg
              | _ => true end
           then 4 else 0
       | _ => 0 end)
  | QList pkg o r =>
      (match o with OList l => if set_eqb (list_model t pkg) l then 0 else 1 | _ => 1 end) +
      (match r with
       | Some l => if set_eqb (children_importlib (FS t) (LS t) LSFX (t_short t) pkg) l then 0 else 2
       | None => 0 end) +
      (if dom (FS t) LSFX (t_short t) pkg && sfx_ordered LSFX && forallb (dir_ok2 (FS t) (LS t) LSFX) (listed_dirs t pkg)
       then 4 else 0)
  | QAssist level rest file withmod attrs o =>
      (match norm_package (FS t) level rest file with
      | NOk pkg =>
          if withmod then
            match get_module (FS t) SFX (t_loaded2 t) (t_short t) pkg, o, attrs with
            | GImportError, OLErr, _ => 0                      (* ImportError escapes (F20 of C08) ... *)
            | GImportError, OList l, _ => if set_eqb (list_model t pkg) l then 0 else 1   (* ... or is handled *)
            | GSource f, OList l, Some a => if set_eqb (list_model t pkg ++ a) l then 0 else 1
            | GSource f, _, _ => if isfile (FS t) f then 1 else 0   (* a directory named x.py: outside the domain *)
            | GImportError, _, _ => 1
            | _, _, _ => 0
            end
          else match o with OList l => if set_eqb (list_model t pkg) l then 0 else 1 | _ => 1 end
      | NErr => match o with OLErr => 0 | OList l => if is_nil l then 0 else 1 | _ => 1 end
      | NOutOfFuel => 1
      end) +
      (if forallb (root_ok (FS t)) (t_short t) &&
          match norm_package (FS t) level rest file with
          | NOk pkg => dom (FS t) LSFX (t_short t) pkg && sfx_ordered LSFX && forallb (dir_ok2 (FS t) (LS t) LSFX) (listed_dirs t pkg)
          | NErr => true
          | NOutOfFuel => false
          end
       then 4 else 0)
  | QSplit s h tl j =>
      let (mh, mt) := split_pkg s in
      if str_eqb mh h && str_eqb mt tl && str_eqb (join_pkg mh mt) j then 0 else 1
  end.
'''


def spec_parts(spec):
    level = len(spec) - len(spec.lstrip('.'))
    rest = spec[level:]
    return level, rest


def nres_term(r):
    if r[0] == 'ok':
        return '(NOk %s)' % cname(r[1]) if r[1] else '(NOk [])'
    if r[0] == 'ImportError':
        return 'NErr'
    return 'NOutOfFuel'   # any other exception class: never equal to a model result of a terminating run


class Case(object):
    __slots__ = ('tree', 'kind', 'term', 'info', 'direct')

    def __init__(self, tree, kind, term, info, direct):
        self.tree, self.kind, self.term, self.info, self.direct = tree, kind, term, info, direct


def build_cases(ctx, t, ct, tb, sres, ores, base, sfx_all):
    """Gallina definitions of the tree + case terms; also the direct-evaluator verdict per case."""
    key = t['id']
    pr = TreePrinter(key, tb, base)
    listing = {}
    for rel, k in t['entries'].items():
        listing[os.path.join(tb, rel)] = k
    for name in ct['names']:
        if wellformed(name):
            for b in base:
                probe(listing, b, name.split('.'), sfx_all)
    for it in ct.get('froms', []):
        # every absolute name the statement can address (the harness only decides what to probe)
        for r_ in ct['sources'] + ct['extra'] + ct.get('after', []):
            if it['file'].startswith(r_ + '/'):
                P = it['file'][len(r_) + 1:].split('/')[:-1]
                k = len(P) - (it['level'] - 1) if it['level'] else 0
                if it['level'] and k <= 0:
                    continue
                cand = (P[:k] if it['level'] else []) + it['modc'] + [it['mname']]
                if all(cand) and wellformed('.'.join(cand)):
                    for b in base:
                        probe(listing, b, cand, sfx_all)
    for b in base:
        listing.setdefault(b, 'D')
    listing[tb] = 'D'
    ents = pr.node(listing)
    loaded = [n for n in sres['loaded'] if wellformed(n)]
    full = ct['sources'] + ct['extra'] + base + ct.get('after', [])
    short = ct['sources'] + ct['extra'] + ct.get('after', [])
    base_loaded = set(sres['loaded'])
    extra_loaded = [n for n in sres['loaded2'] if n not in base_loaded and wellformed(n)]
    defs = 'Definition tr_%s := mkT %s %s %s LOADED_%s (%s ++ LOADED_%s).\n' % (
        key, ents, coq_list([pr.path(p) for p in full]), coq_list([pr.path(p) for p in short]), sres['_loaded_key'],
        coq_list([cname(n) for n in extra_loaded]), sres['_loaded_key'])
    cases = []
    T = 'tr_%s' % key
    loaded_set = set(sres['loaded'])
    loaded2_set = set(sres['loaded2'])

    # ---- module lookups
    for name, g, f in zip(ct['names'], sres['gm'], ores['find']):
        if not wellformed(name):
            continue
        if g[0] == 'source':
            o = '(OSource %s)' % pr.path(g[1])
        elif g[0] == 'imported':
            o = '(OImported (Some %s))' % coq_bool(g[1])
        elif g[0] == 'loadattempt':
            o = '(OImported None)'
        elif g[0] == 'ImportError':
            o = 'OImportError'
        else:
            o = 'OOther'
        if f[0] == 'file':
            r = '(OFile %s %s %s %s)' % (pr.path(f[1]), coq_bool(f[2]), coq_bool(f[3]), cname(f[4]))
        elif f[0] == 'none':
            r = 'ONone'
        elif f[0] == 'nofile':
            r = 'ONoFile'
        elif f[0] == 'namespace':
            r = 'ONamespace'
        else:
            r = 'OSkip'
        # direct verdict (applies when Coq says the case is in the domain)
        if f[0] == 'file':
            ok = (g == ['source', f[1]]) if f[3] else (g[0] in ('imported', 'loadattempt'))
        elif f[0] == 'none':
            ok = (g[0] == 'imported' and not g[1]) if name in loaded_set else g[0] == 'ImportError'
        elif f[0] == 'nofile':
            ok = (g[0] == 'imported') if name in loaded_set else None
        else:
            ok = None
        cases.append(Case(key, 'mod', '(%s, QMod %s %s %s)' % (T, cname(name), o, r),
                          {'name': name, 'supp': g, 'importlib': f[:5]}, ok))
    # ---- relative names
    for (fname, guess, spec, cwd), n, r in zip(ct['rel'], sres['norm'], ores['rel']):
        level, rest = spec_parts(spec)
        if rest and not wellformed(rest):
            continue
        o = nres_term(n)
        if r is None:
            rr, ok = 'None', None
        else:
            rr = '(Some (%s, %s))' % (cname(r[0]) if r[0] else '[]', nres_term(r[1]))
            ok = (n == r[1])
        tbs = tb.rstrip('/') + '/'
        cases.append(Case(key, 'rel', '(%s, QRel %s %s %s %s %s %s %s)' % (
            T, cname(guess), pr.path(fname), coq_option(pr.path(cwd)) if cwd else 'None', coq_nat(level),
            cname(rest) if rest else '[]', o, rr),
            {'file': fname, 'spec': spec, 'name': guess, 'supp': n, 'importlib': r,
             'file_name_relative_to': cwd, 'file_rel': fname[len(tbs):],
             'cwd_rel': None if not cwd else (cwd[len(tbs):] or '.')}, ok))
    # ---- from-imports through go-to-definition
    def ofind_term(f):
        if f[0] == 'file':
            return '(OFile %s %s %s %s)' % (pr.path(f[1]), coq_bool(f[2]), coq_bool(f[3]), cname(f[4]))
        return {'none': 'ONone', 'nofile': 'ONoFile', 'namespace': 'ONamespace'}.get(f[0], 'OSkip')
    tbs = tb.rstrip('/') + '/'
    for it, g, r in zip(ct.get('froms', []), sres.get('froms', []), ores.get('froms', [])):
        if not wellformed('.'.join(it['modc'] + [it['mname']])):
            continue
        if g[0] == 'ok':
            try:
                o = '(OTargets %s)' % coq_list([pr.path(x) for x in g[1]])
            except ValueError:
                o = 'OFromOther'
        else:
            o = 'OFromOther'
        ok = None
        if r is None:
            rr = 'None'
        else:
            rr = '(Some (%s, %s, %s))' % (cname(r[0]) if r[0] else '[]', nres_term(r[1]), ofind_term(r[2]))
            if r[1][0] != 'ok' or r[2][0] == 'none':
                ok = (g == ['ok', []])
            elif r[2][0] == 'file' and r[2][3]:
                ok = (g == ['ok', [r[2][1]]])
        cwd = it.get('cwd')
        cases.append(Case(key, 'from', '(%s, QFrom %s %s %s %s %s %s %s %s)' % (
            T, cname(it['name']), pr.path(it['file']), coq_option(pr.path(cwd)) if cwd else 'None', coq_nat(it['level']),
            coq_list([cstr(c) for c in it['modc']]), cstr(it['mname']), o, rr),
            {'statement': it['src'].split('\n')[0], 'file': it['file'], 'name': it['name'], 'supp_targets': g,
             'importlib': r and [r[0], r[1], r[2][:2]], 'file_name_relative_to': cwd,
             'item': dict(it, file=it['file'][len(tbs):], cwd=None if not cwd else (cwd[len(tbs):] or '.'))}, ok))
    # ---- package listings
    for i, (pkg, l, ch) in enumerate(zip(ct['lists'], sres['lists'], ores['children'])):
        if pkg and not wellformed(pkg):
            continue
        strs = lambda xs: coq_list([cstr(x) for x in xs])  # noqa
        if l[0] == 'ok':
            if not all(x.isascii() and '"' not in x for x in l[1]):
                continue
            o = '(OList %s)' % strs(l[1])
        elif l[0] == 'ImportError':
            o = 'OLErr'
        else:
            o = 'OLOther'
        kids, imp = ch
        ok = None
        pre = (pkg + '.') if pkg else ''
        if l[0] == 'ok':
            missing = [k for k in kids if k not in l[1]]
            pre = (pkg + '.') if pkg else ''
            lch = {m[len(pre):].partition('.')[0] for m in loaded2_set if m.startswith(pre)}
            bogus = [c for c in l[1] if not imp.get(c, False) and c not in lch]
            ok = not missing and not bogus
        else:
            missing, bogus = kids, []
            ok = False
        cases.append(Case(key, 'list', '(%s, QList %s %s (Some %s))' % (T, cname(pkg) if pkg else '[]', o, strs(kids)),
                          {'pkg': pkg, 'supp': l, 'pkgutil': kids, 'missing': missing, 'bogus': bogus,
                           'loaded_below': sorted(m for m in loaded2_set if pkg and m.startswith(pre))[:12]}, ok))
    # ---- assist on import lines
    for a, (r, attrs, req) in zip(ct['assist'], sres['assist']):
        head = a['head']
        level, rest = spec_parts(head)
        if rest and not wellformed(rest):
            continue
        if level and not a['file']:
            continue
        if r[0] == 'ok':
            o = '(OList %s)' % coq_list([cstr(x) for x in r[2]])
        elif r[0] == 'ImportError':
            o = 'OLErr'
        else:
            o = 'OLOther'
        at = 'None' if attrs is None else '(Some %s)' % coq_list([cstr(x) for x in attrs])
        cases.append(Case(key, 'assist', '(%s, QAssist %s %s %s %s %s %s)' % (
            T, coq_nat(level), cname(rest) if rest else '[]', pr.path(a['file']) if a['file'] else '[]',
            coq_bool(a['kind'] == 'from_import'), at, o),
            {'assist': a, 'supp': r if r[0] != 'ok' else [r[0], r[1], r[2][:30]]}, None))
    return defs, cases


def eval_cases(ctx, shards, sfx, lsfx, loaded_defs):
    """shards: list of (defs, [Case]); returns list of codes per shard."""
    head = 'Definition SFX : list str := %s.\nDefinition LSFX : list str := %s.\n' % (
        coq_list([cstr(s) for s in sfx]), coq_list([cstr(s) for s in lsfx]))
    jobs = []
    for defs, cases in shards:
        pre = head + loaded_defs + PRELUDE_TYPES + defs + \
            'Definition cases__ : list (tree * q) := %s.\n' % coq_list([c.term for c in cases])
        jobs.append((['Model.Imports'], pre, ['map code cases__']))
    res = ctx.coq_eval_many(jobs, timeout=900)
    return [r[0] for r in res]


# ---- corpus -----------------------------------------------------------------------------------

def load_corpus():
    res = []
    if os.path.isdir(CORPUS):
        for f in sorted(os.listdir(CORPUS)):
            if f.endswith('.json'):
                obj = json.load(open(os.path.join(CORPUS, f)))
                t = obj['tree']
                t.setdefault('extra', [])
                for k in ('names', 'rel', 'lists', 'assist', 'froms'):
                    t.setdefault(k, [])
                t['id'] = 'c' + ''.join(ch for ch in f[:-5] if ch.isalnum())
                t['_corpus'] = f
                res.append(t)
    return res


def random_strings(rng, n):
    out = ['', '.', '..', 'a', '.a', 'a.', 'a.b', '..a.b', '.a.', 'os.path', '...x', 'a..b', 'boo', '.boo.']
    for _ in range(n):
        k = rng.randint(0, 7)
        out.append(''.join(rng.choice('..ab_x') for _ in range(k)))
    return out


# ---- the check -----------------------------------------------------------------------------------

def evaluate(ctx, trees, base, strings=()):
    """Materialise trees, run supp + importlib workers, evaluate the models in Coq.
    Returns (cases, codes, sfx, lsfx)."""
    import importlib.machinery as mach
    pyc = valid_pyc()
    sfx_all = mach.all_suffixes()
    conc = []
    for t in trees:
        tb = materialise(t, ctx.scratch, pyc)
        conc.append((t, concretise(t, tb), tb))
    cts = [c for _t, c, _tb in conc]
    ctx.log('materialised %d trees' % len(cts))
    souts = run_workers('supp', cts, base, extra={'strings': list(strings)})
    ctx.log('supp workers done')
    sres = [r for o in souts for r in o['trees']]
    sfx = souts[0]['suffixes'] if souts else sfx_all
    str_res = souts[0].get('strings', []) if souts else []
    for c, r in zip(cts, sres):
        c['proposals'] = {str(i): l[1] for i, l in enumerate(r['lists']) if l[0] == 'ok'}
        if r['loaded2'] != r['loaded2_end']:
            raise RuntimeError('sys.modules changed while supp answered the listing queries of one tree: %r' % (
                sorted(set(r['loaded2_end']) ^ set(r['loaded2']))[:10],))
        if r['loaded'] != r['loaded_end']:
            raise RuntimeError('sys.modules changed while supp answered queries of one tree: %r' % (
                sorted(set(r['loaded_end']) ^ set(r['loaded']))[:10],))
    oouts = run_workers('oracle', cts, base)
    ctx.log('importlib workers done')
    ores = [r for o in oouts for r in o['trees']]
    lsfx = oouts[0]['loader_suffixes'] if oouts else sfx_all
    # loaded sets are shared by many trees: define each distinct one once
    lkeys = {}
    for r in sres:
        k = tuple(r['loaded'])
        if k not in lkeys:
            lkeys[k] = len(lkeys)
        r['_loaded_key'] = lkeys[k]
    loaded_defs = ''
    for k, i in lkeys.items():
        loaded_defs += 'Definition LOADED_%d : list (list str) := %s.\n' % (
            i, coq_list([cname(n) for n in k if wellformed(n)]))
    shards = []
    cur_defs, cur_cases, cur_size = '', [], 0
    for (t, ct, tb), sr, orr in zip(conc, sres, ores):
        defs, cases = build_cases(ctx, t, ct, tb, sr, orr, base, sfx_all)
        size = len(defs) + sum(len(c.term) for c in cases)
        if cur_cases and cur_size + size > 120000:
            shards.append((cur_defs, cur_cases))
            cur_defs, cur_cases, cur_size = '', [], 0
        cur_defs += defs
        cur_cases += cases
        cur_size += size
    if strings:
        sc = []
        for s, (h, tl, j) in zip(strings, str_res):
            if all(x.isascii() for x in (s, h, tl, j)):
                sc.append(Case(None, 'split', '(mkT (Node Dir []) [] [] [] [], QSplit (S_ "%s") (S_ "%s") (S_ "%s") (S_ "%s"))' % (s, h, tl, j),
                               {'s': s, 'split': [h, tl], 'join': j}, (j == s) if '.' in s else None))
        cur_cases += sc
    if cur_cases:
        shards.append((cur_defs, cur_cases))
    ctx.log('%d shards printed' % len(shards))
    codes = eval_cases(ctx, shards, sfx, lsfx, loaded_defs)
    ctx.log('coq evaluation done')
    cases = [c for _d, cs in shards for c in cs]
    flat = [x for cs in codes for x in cs]
    if len(flat) != len(cases):
        raise RuntimeError('case/code count mismatch %d vs %d' % (len(cases), len(flat)))
    return cases, flat, sfx, lsfx


def tree_replay(t, case):
    return {'kind': case.kind, 'tree': {'entries': t['entries'], 'sources': t['sources'], 'extra': t.get('extra', []),
                                        'after': t.get('after', []), 'preload': t.get('preload', []),
                                        'ood_tree': t.get('ood_tree', False)},
            'query': case.info}


def run(ctx):
    proof_ok = ctx.coq_props()
    cov = ctx.coverage
    cov['rule'] = (
        'trees: 1-3 roots in random order (+ optionally one as a plain sys.path entry), packages nested to '
        'depth 4 over a 12-name pool (so the same name recurs across roots and levels), .py / package / '
        'extension-suffix / .pyc entries, source next to extension, noise files (dotted stems, foreign-ABI '
        'extensions), and in 25% of the trees out-of-domain shapes (module+package clash, namespace dir, '
        'bytecode-only package, directory named x.py, root that is a package). Queries: every dotted name of '
        'the tree (union over roots), misspelt/absent names, stdlib and builtin names; relative specifiers of '
        'level 1..depth+2 from .py files; package listings; assist on import lines; random strings for '
        'split_pkg/join_pkg. Every case goes through (I) and (R) inside Coq; the direct verdict supp vs '
        'importlib counts on cases the Coq-evaluated domain predicate accepts. non-trivial = in the domain '
        'and importlib found a file / produced a name / enumerated a child, or a relative-import error')
    base = base_path()
    cov['sys_path_base'] = base
    import importlib.machinery as mach
    ext = list(mach.EXTENSION_SUFFIXES)
    trees = load_corpus()
    ncorpus = len(trees)
    n = ctx.pick(150, 2000)
    for i in range(n):
        trees.append(gen_tree(ctx.rng, i, ext))
    strings = random_strings(ctx.rng, ctx.pick(300, 3000))
    by_id = {t['id']: t for t in trees}
    tree_hash = {t['id']: hash(json.dumps([t['entries'], t['sources'], t['extra'], t.get('after', [])], sort_keys=True)) for t in trees}
    cases, codes, sfx, lsfx = evaluate(ctx, trees, base, strings)
    cov['suffixes_supp'] = sfx
    cov['suffixes_importlib_loader_order'] = lsfx
    cov['trees'] = len(trees)
    cov['corpus_trees'] = ncorpus
    ctx.log('%d trees, %d cases evaluated in Coq' % (len(trees), len(cases)))

    i_bad, r_bad, direct_bad = [], [], []
    for c, code in zip(cases, codes):
        ibad, rbad, indom = bool(code & 1), bool(code & 2), bool(code & 4)
        if c.kind == 'split':
            indom = True
        nontrivial = False
        if c.kind == 'mod':
            nontrivial = indom and c.info['importlib'][0] == 'file'
            ctx.histogram('mod_importlib', c.info['importlib'][0] + ('' if indom else '/out-of-domain'))
            ctx.histogram('mod_supp', c.info['supp'][0])
        elif c.kind == 'rel':
            nontrivial = indom and c.info['importlib'] is not None
            ctx.histogram('rel', ('none' if c.info['importlib'] is None else c.info['importlib'][1][0]) +
                          ('' if indom else '/out-of-domain'))
        elif c.kind == 'list':
            nontrivial = indom and bool(c.info['pkgutil'])
            ctx.histogram('list', ('top' if not c.info['pkg'] else 'pkg') + ('' if indom else '/out-of-domain'))
        elif c.kind == 'assist':
            nontrivial = indom and c.info['supp'][0] == 'ok'
            ctx.histogram('assist', c.info['assist']['kind'] + ':' + c.info['supp'][0] + ('' if indom else '/out-of-domain'))
        elif c.kind == 'from':
            nontrivial = indom and c.info['importlib'] is not None
            ctx.histogram('from', ('level%d' % c.info['item']['level']) + ('' if c.info['item']['modc'] else '/dots-only' if c.info['item']['level'] else '') +
                          (':' + ('none' if c.info['importlib'] is None else c.info['importlib'][2][0] if c.info['importlib'][1][0] == 'ok' else 'ImportError')) +
                          ('' if indom else '/out-of-domain'))
        elif c.kind == 'split':
            nontrivial = '.' in c.info['s']
        ctx.count((c.tree and tree_hash[c.tree], c.kind, json.dumps(c.info, sort_keys=True).replace(ctx.scratch, '')), nontrivial=nontrivial)
        if nontrivial:
            ctx.sample({'kind': c.kind, 'query': c.info}, limit=8)
        if ibad and indom:
            i_bad.append(c)
        elif ibad:
            # the model is only claimed (and the theorems only speak) inside the domain
            cov['I_disagreements_outside_domain'] = cov.get('I_disagreements_outside_domain', 0) + 1
        if rbad:
            r_bad.append(c)
        if indom and c.direct is False:
            direct_bad.append(c)
    cov['I_disagreements'] = len(i_bad)
    cov['R_disagreements'] = len(r_bad)
    cov['direct_failures_in_domain'] = len(direct_bad)

    # The property's quantifier: trees WITHOUT namespace packages and without a module file next to a package
    # directory of the same name. Trees generated with such shapes (and the corpus tree of them) are evaluated
    # as an extended domain: failures there are recorded, never raised as violations.
    def stated(c):
        return not (c.tree and by_id[c.tree].get('ood_tree'))

    def rp(c):
        t_ = by_id.get(c.tree) if c.tree else None
        return tree_replay(t_, c) if t_ else {'kind': c.kind, 'query': c.info}

    reported = set()
    for c in [x for x in direct_bad if not stated(x)][:8]:
        reported.add(id(c))
        ctx.extension_failure('supp disagrees with importlib (%s): %s' % (c.kind, json.dumps(c.info)[:400]), rp(c))
    for c in [x for x in direct_bad if stated(x)][:12]:
        reported.add(id(c))
        ctx.violation('supp disagrees with importlib (%s): %s' % (c.kind, json.dumps(c.info)[:400]), rp(c))
    ext_i = [c for c in i_bad if not stated(c) and id(c) not in reported]
    if ext_i:
        ctx.extension_failure('(I) model/code disagreement on %d cases of trees outside the stated domain (first: %s %s)' % (
            len(ext_i), ext_i[0].kind, json.dumps(ext_i[0].info)[:300]), dict(rp(ext_i[0]), correspondence='I'))
    rest_i = [c for c in i_bad if stated(c) and id(c) not in reported and not (c.direct is False)]
    if rest_i:
        # model and code disagree inside the domain although supp agrees with importlib on these inputs (or the
        # direct verdict does not apply): no failing input of the property, but the theorems no longer speak
        # about this code
        c = rest_i[0]
        ctx.violation('correspondence (I) Model.Imports vs supp.project no longer checks on %d cases (first: %s %s); '
                      'theorems C07_* are about a model that is not the code' % (
                          len(rest_i), c.kind, json.dumps(c.info)[:300]),
                      dict(rp(c), correspondence='I',
                           theorem='C07_get_module_agrees / C07_norm_package_agrees / C07_children_*'),
                      found_input=False)
    r_ext = [c for c in r_bad if not stated(c)]
    r_in = [c for c in r_bad if stated(c)]
    if r_ext:
        ctx.extension_failure('(R) reference model differs from importlib/pkgutil on %d cases of trees outside the stated '
                              'domain (first: %s %s)' % (len(r_ext), r_ext[0].kind, json.dumps(r_ext[0].info)[:300]),
                              dict(rp(r_ext[0]), correspondence='R'))
    if r_in:
        c = r_in[0]
        ctx.violation('correspondence (R) Model.Imports REF vs importlib/pkgutil no longer checks on %d cases (first: %s %s)' % (
            len(r_in), c.kind, json.dumps(c.info)[:300]), dict(rp(c), correspondence='R'), found_input=False)
    if not proof_ok:
        ctx.violation('proof obligations of Props/C07.v not discharged: %s' % (ctx.notes,),
                      {'kind': 'proof', 'theorem': 'Props/C07.v', 'notes': ctx.notes,
                       'build_error': cov.get('build_error')}, found_input=False)


def replay(ctx, obj):
    r = obj['replay']
    if 'tree' not in r:
        print(obj.get('what'))
        return 1
    t = dict(r['tree'])
    t['id'] = 'replay'
    q = r['query']
    t['names'] = [q['name']] if r['kind'] == 'mod' else []
    t['rel'] = []
    if r['kind'] == 'rel':
        f = q.get('file_rel')
        if f is None:
            f = q['file']
            f = f[f.index('/T/') + 3:].split('/', 1)[1] if '/T/' in f else f
        t['rel'] = [[f, q['name'], q['spec'], q.get('cwd_rel')]]
    t['lists'] = [q['pkg']] if r['kind'] == 'list' else []
    t['froms'] = [q['item']] if r['kind'] == 'from' else []
    t['assist'] = []
    base = base_path()
    cases, codes, sfx, lsfx = evaluate(ctx, [t], base)
    rc = 0
    for c, code in zip(cases, codes):
        print(c.kind, json.dumps(c.info), 'I-mismatch' if code & 1 else '', 'R-mismatch' if code & 2 else '',
              'in-domain' if code & 4 else 'out-of-domain', 'direct=%s' % c.direct)
        if (code & 3) or (code & 4 and c.direct is False):
            rc = 1
    return rc
