"""C15 - remote calls are transparent and failures are isolated.

Decided by:
  (1) Coq theorems C15_* (Props/C15.v) on Model/Rpc.v: Server.process + Server.run loop
      (server.py:38-49, 71-95) and Environment._call (remote.py:92-104) over two FIFO queues refine
      the in-process API for request lists of any length (transparency, in-order pairing,
      failure isolation, pipelining, behaviour outside the domain);
  (2) direct evaluator: generated request sequences (failing requests injected at every index,
      payloads 0 B .. several MiB) replayed through supp.remote.Environment against a REAL server
      subprocess and, request by request, against the in-process call Server(None).<name>(*args)
      executed in a reference worker process that has the same interpreter environment
      (sys.path, loaded modules, cwd, env vars) but no RPC layer;
  (3) (I): the Coq model, instantiated with the recorded in-process outcomes of each sequence,
      is evaluated inside Coq (vm_compute) and must predict exactly what the real client observed
      (value with tuples as lists / exception message / 'Serialize error' / local error / dead
      connection) and whether the server is still running.
"""
import json
import os
import struct
import subprocess
import sys
import threading
import time
from concurrent.futures import ThreadPoolExecutor

from common import REPO, VERIF, PY, coq_list

LEVEL = 'proof'
ASSUMPTIONS = [
    'codec round trip (world_ok.codec_rt: decoding the encoding of the message value of a Python value gives it '
    'back) is a hypothesis of the C15 theorems; it is C14\'s theorem `roundtrip` (Msgpack.v) and is exercised here '
    'end to end through the real umsgpack on every request and reply',
    'the in-process functions do not distinguish the caller\'s arguments from their arrived form (tuples as lists): '
    'world_ok.serve_api; checked by the direct evaluator, which gives the reference worker the original arguments '
    '(position tuples) and the server the serialised ones',
    'reliable FIFO connection: the OS socket, multiprocessing.connection framing and process liveness are runtime, '
    'exercised by every real-subprocess sequence, not modelled',
    'the reference (in-process API) runs in a separate worker process with the same sys.path / sys.modules / cwd / '
    'environment as the server, because assist() lists sys.modules and sys.path of the running process',
    'a request that raises in-process leaves the in-process state unchanged (hypothesis raise_pure of C15_raising_request_isolated): '
    'checked without the reference by the isolation evaluator (same sequence with and without the failing request, both on real servers)',
    'the library-level reference re-states the request methods of server.py:34-62 (Project(sources, dyn_modules); check_changes(); '
    'nstr(source); tuple(position); lint results trimmed to 4 fields) in the harness worker: an intended change of these wrappers must be mirrored there',
    'location() alternatives are compared as multisets (order of alternatives is C17 / defect F4, not C15)',
]

SERR = 'Serialize error'
CORPUS = os.path.join(VERIF, 'corpus', 'C15')

# ------------------------------------------------------------------------------------------
# values: JSON-able specs -> Python values; Python values -> tagged trees
# ------------------------------------------------------------------------------------------

def bulk(kind, n, tail):
    """A payload of about n bytes whose bulk is ONE token (comment or string literal) on line 1."""
    if kind == 'comment':
        return '#' + 'c' * n + '\n' + tail
    if kind == 'string':
        return 's = """' + 'a' * n + '"""\n' + tail
    if kind == 'unicode':
        return 's = """' + '\u4e2d\u00e9' * (n // 5) + '"""\n' + tail
    raise ValueError(kind)


def build(spec, d):
    if isinstance(spec, dict):
        if '$tuple' in spec:
            return tuple(build(x, d) for x in spec['$tuple'])
        if '$set' in spec:
            return set(build(x, d) for x in spec['$set'])
        if '$obj' in spec:
            return object()
        if '$bytes' in spec:
            return spec['$bytes'].encode('latin1')
        if '$bulk' in spec:
            kind, n, tail = spec['$bulk']
            return bulk(kind, n, tail)
        if '$path' in spec:
            return os.path.join(d, spec['$path'])
        if '$rep' in spec:
            return spec['$rep'][0] * spec['$rep'][1]
        if '$cat' in spec:
            return ''.join(build(x, d) for x in spec['$cat'])
        if '$pow' in spec:
            b, e, k = spec['$pow']
            return b ** e + k
        return {k: build(v, d) for k, v in spec.items()}
    if isinstance(spec, list):
        return [build(x, d) for x in spec]
    return spec


TAG_SRC = r'''
import struct as _struct

def tag(v, stack=()):
    """Python value -> tagged tree, dispatching on the type exactly as umsgpack's packer does."""
    if v is None:
        return ('n',)
    if isinstance(v, bool):
        return ('b', v)
    if isinstance(v, int):
        return ('i', int(v))
    if isinstance(v, float):
        return ('f', _struct.unpack('>Q', _struct.pack('>d', v))[0])
    if isinstance(v, str):
        return ('s', str(v))
    if isinstance(v, bytes):
        return ('y', bytes(v))
    if isinstance(v, (list, tuple, dict)):
        if id(v) in stack:
            return ('O', 'cycle')
        st = stack + (id(v),)
        if isinstance(v, dict):
            return ('D', [(tag(k, st), tag(x, st)) for k, x in v.items()])
        return ('L' if isinstance(v, list) else 'T', [tag(x, st) for x in v])
    return ('O', type(v).__name__)
'''
exec(TAG_SRC)

WORKER_SRC = r'''
import sys, os
SUPP_DIR, ADDR = sys.argv[1], sys.argv[2]
sys.path[0] = SUPP_DIR          # what the server process has: the directory of server.py
import logging
from supp import server as S
from multiprocessing.connection import Listener
if 'SUPP_LOG_FILE' in os.environ:
    logging.basicConfig(filename=os.environ['SUPP_LOG_FILE'] + '.ref', level=logging.ERROR)
else:
    logging.basicConfig(level=logging.CRITICAL)
''' + TAG_SRC + r'''
from supp import assistant as _assistant, linter as _linter
from supp.project import Project as _Project
from supp.compat import nstr as _nstr


class Local(object):
    """The in-process API proper: supp.assistant / supp.linter on a supp.project.Project, driven the
    way server.py:34-62 documents (no state of its own besides the project)."""
    def configure(self, config):
        self.project = _Project(config['sources'], dyn_modules=config.get('dyn_modules'))

    def assist(self, source, position, filename):
        with self.project.check_changes():
            return _assistant.assist(self.project, _nstr(source), tuple(position), filename)

    def location(self, source, position, filename):
        with self.project.check_changes():
            return _assistant.location(self.project, _nstr(source), tuple(position), filename)

    def lint(self, source, filename, syntax_only=False):
        with self.project.check_changes():
            return [r[:4] for r in _linter.lint(self.project, _nstr(source), filename)]

    def eval(self, source):
        # server.py:64-69: the text is the body of a function run in a FRESH namespace
        ns = {}
        body = '\n'.join('    ' + r for r in _nstr(source).splitlines())
        exec('def boo():\n{}\nresult = boo()'.format(body), ns)
        return ns['result']


def _sig_configure(config): pass
def _sig_assist(source, position, filename): pass
def _sig_location(source, position, filename): pass
def _sig_lint(source, filename, syntax_only=False): pass
def _sig_eval(source): pass
_SIGS = {'configure': _sig_configure, 'assist': _sig_assist, 'location': _sig_location, 'lint': _sig_lint, 'eval': _sig_eval}

listener = Listener(ADDR)
conn = listener.accept()
srv = S.Server(None)
lib = Local()
while True:
    try:
        msg = conn.recv()
    except EOFError:
        break
    if msg[0] == 'quit':
        break
    name, args, kwargs = msg[1:]
    try:
        out = ('ret', tag(getattr(srv, name)(*args, **kwargs)))
    except Exception as e:
        out = ('raise', type(e).__name__, str(e))
    except BaseException as e:
        out = ('escape', type(e).__name__, str(e))
    out2 = None
    if name in _SIGS and (name in ('configure', 'eval') or hasattr(lib, 'project')):   # "no project yet" is the server's own state
        try:
            _SIGS[name](*args, **kwargs)       # only calls that fit the API's signatures
        except TypeError:
            pass
        else:
            try:
                out2 = ('ret', tag(getattr(lib, name)(*args, **kwargs)))
            except Exception as e:
                out2 = ('raise', type(e).__name__, str(e))
            except BaseException as e:
                out2 = ('escape', type(e).__name__, str(e))
    conn.send((out, out2))
'''


def encodable_str(s):
    try:
        s.encode('utf-8')
        return True
    except UnicodeEncodeError:
        return False


def t_serialisable(t):
    k = t[0]
    if k == 'O':
        return False
    if k == 'i':
        return -2 ** 63 <= t[1] < 2 ** 64
    if k == 's':
        return encodable_str(t[1])
    if k in 'LT':
        return all(t_serialisable(x) for x in t[1])
    if k == 'D':
        return all(t_serialisable(a) and t_serialisable(b) for a, b in t[1])
    return True


def t_tuplify(t):
    if t[0] == 'L':
        return ('T', [t_tuplify(x) for x in t[1]])
    return t


def t_normalise(t):
    k = t[0]
    if k in 'LT':
        return ('L', [t_normalise(x) for x in t[1]])
    if k == 'D':
        return ('D', [(t_tuplify(t_normalise(a)), t_normalise(b)) for a, b in t[1]])
    return t


def t_sort_dicts(t):
    """dict equality ignores order: dict items are put in a canonical order before comparison"""
    k = t[0]
    if k in 'LT':
        return (k, [t_sort_dicts(x) for x in t[1]])
    if k == 'D':
        items = [(t_sort_dicts(a), t_sort_dicts(b)) for a, b in t[1]]
        return ('D', sorted(items, key=lambda p: repr(p[0])))
    return t


def canon_location(t):
    """location() = list of alternatives; an alternative is a dict or a list of dicts. The order of
    alternatives is the subject of C17 (defect F4): compared as multisets here."""
    if t[0] in 'LT':
        inner = []
        for x in t[1]:
            if x[0] in 'LT':
                x = (x[0], sorted(x[1], key=repr))
            inner.append(x)
        return (t[0], sorted(inner, key=repr))
    return t


def expected_obs(outcome):
    """Python twin of Rpc.expected (used by the direct evaluator only)."""
    if outcome[0] == 'ret':
        v = outcome[1]
        if t_serialisable(v):
            return ('returned', t_normalise(v))
        return ('raised', SERR)
    if outcome[0] == 'raise':
        if encodable_str(outcome[2]):
            return ('raised', outcome[2])
        return ('raised', SERR)
    return ('dead',)


def short(x, n=300):
    s = repr(x)
    return s if len(s) <= n else s[:n] + '...<%d chars>' % len(s)


# ------------------------------------------------------------------------------------------
# running one sequence against a real server and the reference worker
# ------------------------------------------------------------------------------------------

_WRAPPER = []
_WRAPPER_LOCK = threading.Lock()


def python_wrapper():
    """One shell wrapper per check run (written once, before any server is started: writing an
    executable while other threads fork gives ETXTBSY)."""
    with _WRAPPER_LOCK:
        if not _WRAPPER:
            import tempfile
            d = tempfile.mkdtemp(prefix='supp_verif_C15_py_')
            w = os.path.join(d, 'python')
            with open(w, 'w') as f:
                f.write('#!/bin/sh\nexec %s "$@" 2>>"${C15_STDERR:-/dev/null}"\n' % PY)
            os.chmod(w, 0o755)
            _WRAPPER.append(w)
        return _WRAPPER[0]


_STDIO_LOCK = threading.Lock()


class Runner(object):
    def __init__(self, workdir, default_logging=False):
        self.default_logging = default_logging
        self.last_lib = None
        self.workdir = workdir
        self.proj = os.path.join(workdir, 'proj')
        os.makedirs(self.proj)
        self.env = None
        self.wproc = None
        self.wconn = None
        self.mtime = 1500000000

    def write(self, rel, content):
        p = os.path.join(self.proj, rel)
        os.makedirs(os.path.dirname(p), exist_ok=True)
        with open(p, 'w', encoding='utf8') as f:
            f.write(content)
        self.mtime += 10
        os.utime(p, (self.mtime, self.mtime))

    def start(self):
        for attempt in range(4):
            try:
                return self._start()
            except Exception:
                # start-up (remote.py:55-65 gives the server 5 s; C16's subject) can time out on a
                # loaded machine: not what this check is about, try again
                self.stop()
                self.env = self.wproc = self.wconn = None
                if attempt == 3:
                    raise
                time.sleep(1 + attempt)

    def _start(self):
        from supp.remote import Environment
        from multiprocessing.connection import Client, arbitrary_address
        penv = {'PYTHONPATH': REPO, 'SUPP_LOG_FILE': os.path.join(self.workdir, 'server.log')}
        # the server inherits stderr (tracebacks of BaseExceptions): send it to a file through a
        # wrapper `executable` (the constructor's documented parameter), same interpreter
        penv['C15_STDERR'] = os.path.join(self.workdir, 'server.stderr')
        if self.default_logging:
            # the way an editor plugin starts it: Environment() with no log file and the interpreter
            # itself; the server logs to whatever stdout/stderr Environment._run gives it. The harness's
            # own fd 1/2 point at files while the server is being started, so that an inheriting server
            # writes there (and not into the check's output)
            penv = {'PYTHONPATH': REPO}
            self.env = Environment(executable=PY, env=penv)
            with _STDIO_LOCK:
                sys.stdout.flush()
                sys.stderr.flush()
                saved = os.dup(1), os.dup(2)
                fds = [os.open(os.path.join(self.workdir, n), os.O_WRONLY | os.O_CREAT | os.O_APPEND)
                       for n in ('server.stdout', 'server.stderr')]
                try:
                    os.dup2(fds[0], 1)
                    os.dup2(fds[1], 2)
                    self.env.run()
                finally:
                    os.dup2(saved[0], 1)
                    os.dup2(saved[1], 2)
                    for fd in list(saved) + fds:
                        os.close(fd)
        else:
            self.env = Environment(executable=python_wrapper(), env=penv)
            self.env.run()                   # start the server and connect (remote.py:84-90)
        wpath = os.path.join(self.workdir, 'refworker.py')
        with open(wpath, 'w') as f:
            f.write(WORKER_SRC)
        addr = arbitrary_address('AF_UNIX')
        e = dict(os.environ)
        e.update(penv)
        self.wproc = subprocess.Popen([PY, wpath, os.path.join(REPO, 'supp'), addr], env=e,
                                      stdout=open(os.path.join(self.workdir, 'worker.stdout'), 'w'),
                                      stderr=open(os.path.join(self.workdir, 'worker.stderr'), 'w'))
        t0 = time.time()
        while True:
            try:
                self.wconn = Client(addr)
                break
            except Exception:
                if time.time() - t0 > 20 or self.wproc.poll() is not None:
                    raise RuntimeError('reference worker did not start')
                time.sleep(0.05)

    def inproc(self, name, args, kwargs):
        self.wconn.send(('call', name, tuple(args), kwargs))
        return self.recv_ref()

    def recv_ref(self):
        out, self.last_lib = self.wconn.recv()
        return out

    def stop(self):
        try:
            if self.env is not None and hasattr(self.env, 'conn'):
                self.env.conn.close()
        except Exception:
            pass
        try:
            if self.env is not None and hasattr(self.env, 'proc'):
                self.env.proc.kill()
                self.env.proc.wait(10)
        except Exception:
            pass
        try:
            if self.wconn is not None:
                self.wconn.send(('quit',))
                self.wconn.close()
        except Exception:
            pass
        try:
            if self.wproc is not None:
                try:
                    self.wproc.wait(3)
                except Exception:
                    self.wproc.kill()
                    self.wproc.wait(10)
        except Exception:
            pass


def classify_exception(e):
    from supp import umsgpack
    if type(e) is Exception:
        m = e.args[0] if e.args else None
        if isinstance(m, str):
            return ('raised', m)
        return ('badreply', 'Exception(%r)' % (e.args,))
    if isinstance(e, (EOFError, BrokenPipeError, ConnectionError)):
        return ('dead',)
    if isinstance(e, OSError):
        return ('dead',)
    if isinstance(e, (umsgpack.PackException, UnicodeEncodeError, RecursionError, struct.error, OverflowError)):
        return ('local',)
    return ('badreply', '%s: %s' % (type(e).__name__, e))


API = ('configure', 'assist', 'location', 'lint', 'eval')


def client_call(env, name, args, kwargs):
    """Through the public method when the arguments fit its signature, else through _call (the
    public methods check the arity in the client; wrong arguments must reach the server)."""
    import inspect
    if name in API:
        meth = getattr(env, name)
        try:
            inspect.signature(meth).bind(*args, **kwargs)
        except TypeError:
            pass
        else:
            return meth(*args, **kwargs)
    return env._call(name, *args, **kwargs)


def observe_value(name, v):
    t = tag(v)
    if name == 'location':
        t = canon_location(t)
    return ('returned', t)


def run_sequence(seq, workdir, timeout):
    """Replay one sequence. Returns a dict:
       calls     flat list of (name, args_spec, kwargs_spec) in the order sent
       observed  what the client observed for each call
       outcomes  in-process outcome for each call that reached the server (None otherwise)
       alive     env.proc.poll() is None after each call
       mism      direct-evaluator mismatches [(index, what)]"""
    from supp.umsgpack import dumps, loads
    os.makedirs(workdir)
    timeout = seq.get('call_timeout', timeout)
    r = Runner(workdir, default_logging=bool(seq.get('default_logging')))
    res = {'calls': [], 'observed': [], 'outcomes': [], 'alive': [], 'mism': [], 'times': [], 'sizes': [],
           'expected': [], 'obs_canon': [],
           'timed_out': False, 'env_equal': None, 'final_alive': None}
    for rel, content in sorted(seq.get('files', {}).items()):
        r.write(rel, content)
    killer = None
    try:
        r.start()

        def on_timeout():
            # a call that does not return: kill the server so that recv_bytes raises
            res['timed_out'] = True
            try:
                r.env.proc.kill()
            except Exception:
                pass

        server_alive = True     # what the reference says
        for step in seq['steps']:
            if 'edit' in step:
                r.write(step['edit'], step['content'])
                continue
            if 'pipe' in step:
                acts = [['s', c] for c in step['pipe']] + [['r']] * len(step['pipe'])
            elif 'sched' in step:
                acts = step['sched']
            else:
                acts = None
            batch = [a[1] for a in acts if a[0] == 's'] if acts is not None else [step['call']]
            built = [(c[0], build(c[1], r.proj), build(c[2], r.proj)) for c in batch]
            # ---- remote -------------------------------------------------------------------
            obs = []
            prefetched = False
            t0 = time.time()
            killer = threading.Timer(timeout, on_timeout)
            killer.daemon = True
            killer.start()
            if acts is not None:
                # connection level: requests are sent ahead of reading the replies, in the given
                # interleaving of sends and (blocking) reads; whatever is outstanding is read at the end
                outstanding = []
                nsent = 0
                try:
                    for a in acts + [['r']] * len(built):
                        if a[0] == 's':
                            name, args, kwargs = built[nsent]
                            r.env.conn.send_bytes(dumps((name, tuple(args), kwargs)))
                            outstanding.append(name)
                            nsent += 1
                        elif outstanding:
                            name = outstanding.pop(0)
                            try:
                                result, is_ok = loads(r.env.conn.recv_bytes())     # as remote.py:99-104
                                obs.append(observe_value(name, result) if is_ok else ('raised', result[1]))
                            except Exception as e:
                                obs.append(classify_exception(e))
                except Exception as e:
                    obs.extend([classify_exception(e)] * (len(built) - len(obs)))
            else:
                name, args, kwargs = built[0]
                # the reference worker executes the same request while the server does (slow requests)
                try:
                    dumps((name, tuple(args), kwargs))
                    if server_alive and name != 'close':
                        r.wconn.send(('call', name, tuple(args), kwargs))
                        prefetched = True
                except Exception:
                    pass
                try:
                    v = client_call(r.env, name, args, kwargs)
                    obs.append(observe_value(name, v))
                except BaseException as e:
                    if isinstance(e, (KeyboardInterrupt, SystemExit)):
                        raise
                    obs.append(classify_exception(e))
            dt = time.time() - t0
            killer.cancel()
            # ---- reference ----------------------------------------------------------------
            for (name, args, kwargs), o, c in zip(built, obs, batch):
                alive_now = r.env.proc.poll() is None
                try:
                    size = len(dumps((name, tuple(args), kwargs)))
                    can_send = True
                except Exception:
                    size = 0
                    can_send = False
                outcome = None
                lib = None
                if not can_send:
                    exp = ('local',)
                elif not server_alive:
                    exp = ('dead',)
                elif name == 'close':
                    exp = ('dead',)
                    server_alive = False
                else:
                    outcome = r.recv_ref() if prefetched else r.inproc(name, args, kwargs)
                    lib = r.last_lib
                    if outcome[0] == 'ret' and name == 'location':
                        outcome = ('ret', canon_location(outcome[1]))
                    if lib is not None and lib[0] == 'ret' and name == 'location':
                        lib = ('ret', canon_location(lib[1]))
                    if outcome[0] == 'escape' and o[0] == 'raised' and alive_now:
                        # BaseException (SystemExit, KeyboardInterrupt): outside the property's domain. The pinned
                        # server.py:43 lets it through (server ends, modelled as Escape); a server that reports it
                        # like any other exception satisfies the property as well and is accepted as a Raise.
                        outcome = ('raise', outcome[1], outcome[2])
                    exp = expected_obs(outcome)
                    if outcome[0] == 'escape':
                        server_alive = False
                idx = len(res['calls'])
                res['calls'].append(c)
                res['observed'].append(o)
                res['outcomes'].append(outcome)
                res['times'].append(dt)
                res['sizes'].append(size)
                if server_alive:
                    res['alive'].append(alive_now)
                    if not alive_now and not res['timed_out']:
                        res['mism'].append((idx, 'server process terminated (exit code %r) after request %r'
                                            % (r.env.proc.poll(), c[0])))
                else:
                    res['alive'].append(None)
                eo = (exp[0], t_sort_dicts(exp[1])) if exp[0] == 'returned' else exp
                oo = (o[0], t_sort_dicts(o[1])) if o[0] == 'returned' else o
                res['expected'].append(eo)
                res['obs_canon'].append(oo)
                if res['timed_out']:
                    res['mism'].append((idx, 'request %d %s did not return within %d s (the harness then killed the server); '
                                             'in-process %s' % (idx, c[0], timeout, short(outcome, 200))))
                    break
                if eo != oo:
                    res['mism'].append((idx, 'request %d %s: in-process %s => expected %s, client observed %s'
                                        % (idx, c[0], short(outcome, 200), short(eo), short(oo))))
                elif lib is not None:
                    # the library-level in-process API (supp.assistant / supp.linter on a Project), which has
                    # no state besides the project: catches state kept by the server's request methods
                    le = expected_obs(lib)
                    le = (le[0], t_sort_dicts(le[1])) if le[0] == 'returned' else le
                    res['lib_compared'] = res.get('lib_compared', 0) + 1
                    if le != oo:
                        api = {'lint': 'supp.linter.lint on an identical Project', 'configure': 'supp.project.Project(...)',
                               'eval': 'supp-free: the text run as a function body in a FRESH namespace'}.get(
                                   c[0], 'supp.assistant.%s on an identical Project' % c[0])
                        res['mism'].append((idx, 'request %d %s: the in-process API (%s) gives %s, client observed %s'
                                            % (idx, c[0], api, short(le), short(oo))))
            if res['timed_out']:
                break
        # ---- liveness at the end ----------------------------------------------------------
        if res['timed_out']:
            res['final_alive'] = False
        elif server_alive:
            res['final_alive'] = r.env.proc.poll() is None
            if not res['final_alive']:
                res['mism'].append((len(res['calls']), 'server process is gone at the end of a sequence without close'))
        else:
            try:
                r.env.proc.wait(20)
                res['final_alive'] = False
            except Exception:
                res['final_alive'] = True
                res['mism'].append((len(res['calls']), 'server process still running 20 s after close / BaseException'))
        res['ref_alive'] = server_alive
    finally:
        if killer is not None:
            killer.cancel()
        r.stop()
    return res


# ------------------------------------------------------------------------------------------
# Coq terms
# ------------------------------------------------------------------------------------------

class Interner(object):
    def __init__(self):
        self.tab = {('s', 'SerializeError'): 0, ('s', SERR): 1, ('s', 'close'): 2}

    def id(self, kind, v):
        key = (kind, v)
        if key not in self.tab:
            self.tab[key] = len(self.tab) + 7
        return self.tab[key]


def pyv_term(t, it):
    k = t[0]
    if k == 'n':
        return 'PNone'
    if k == 'b':
        return '(PBool %s)' % ('true' if t[1] else 'false')
    if k == 'i':
        return '(PInt (%d)%%Z)' % t[1]
    if k == 'f':
        return '(PFloat %d%%N)' % t[1]
    if k == 's':
        return '(PStr %s %d%%N)' % ('true' if encodable_str(t[1]) else 'false', it.id('s', t[1]))
    if k == 'y':
        return '(PBytes %d%%N)' % it.id('y', t[1])
    if k == 'L':
        return '(PList %s)' % coq_list([pyv_term(x, it) for x in t[1]])
    if k == 'T':
        return '(PTuple %s)' % coq_list([pyv_term(x, it) for x in t[1]])
    if k == 'D':
        return '(PDict %s)' % coq_list(['(%s, %s)' % (pyv_term(a, it), pyv_term(b, it)) for a, b in t[1]])
    if k == 'O':
        return '(PObj %d%%N)' % it.id('o', t[1])
    raise ValueError(t)


def text_term(s, it):
    return '(%s, %d%%N)' % ('true' if encodable_str(s) else 'false', it.id('s', s))


def obs_term(o, it):
    if o[0] == 'returned':
        return '(Returned %s)' % pyv_term(t_sort_dicts(o[1]), it)
    if o[0] == 'raised':
        return '(Raised %s)' % text_term(o[1], it)
    return {'local': 'LocalError', 'dead': 'ConnDead', 'badreply': 'BadReply'}[o[0]]


def outcome_term(oc, it):
    if oc[0] == 'ret':
        return '(Ret %s)' % pyv_term(oc[1], it)
    if oc[0] == 'raise':
        return '(Raise %d%%N %s)' % (it.id('s', oc[1]), text_term(oc[2], it))
    return 'Escape'


def case_term(res, workdir):
    """(table, requests, observed, alive) of one replayed sequence. dict items of the recorded
    outcomes are put in canonical order first (the model keeps the order it is given)."""
    it = Interner()
    proj = os.path.join(workdir, 'proj')
    table = []
    for oc in res['outcomes']:
        if oc is None:
            continue
        if oc[0] == 'ret':
            oc = ('ret', t_sort_dicts(oc[1]))
        table.append(outcome_term(oc, it))
    reqs = []
    for name, a, k in res['calls']:
        v = (name, tuple(build(a, proj)), build(k, proj))
        reqs.append(pyv_term(tag(v), it))
    observed = [obs_term(o, it) for o in res['observed']]
    return '(%s, %s, (%s : list cobs), %s)' % ('(%s : list coutcome)' % coq_list(table),
                                             '(%s : list pyv)' % coq_list(reqs),
                                             coq_list(observed) if observed else '[]',
                                             'true' if res['final_alive'] else 'false')


def sched_case_term(res, seq, workdir):
    """(table, actions, observed) for a sequence made of one interleaved step. A blocking read is
    `serve as many iterations as requests are outstanding, then read` in the model (by
    C15_any_interleaving the observations do not depend on where the server iterations fall)."""
    it = Interner()
    proj = os.path.join(workdir, 'proj')
    table = []
    for oc in res['outcomes']:
        if oc is not None:
            if oc[0] == 'ret':
                oc = ('ret', t_sort_dicts(oc[1]))
            table.append(outcome_term(oc, it))
    step = seq['steps'][0]
    acts = step['sched'] if 'sched' in step else [['s', c] for c in step['pipe']] + [['r']] * len(step['pipe'])
    out = []
    outstanding = 0
    nsend = sum(1 for a in acts if a[0] == 's')
    for a in acts + [['r']] * nsend:
        if a[0] == 's':
            name, ar, kw = a[1]
            out.append('(CSend %s)' % pyv_term(tag((name, tuple(build(ar, proj)), build(kw, proj))), it))
            outstanding += 1
        elif outstanding:
            out.extend(['CServe'] * outstanding + ['CRecv'])
            outstanding -= 1
    observed = [obs_term(o, it) for o in res['observed']]
    return '(%s, (%s : list cact), (%s : list cobs))' % ('(%s : list coutcome)' % coq_list(table), coq_list(out),
                                         coq_list(observed) if observed else '[]')


PRELUDE = '''
Definition check_sched (c : list coutcome * list cact * list cobs) : bool :=
  match c with (table, acts, observed) => check_schedule table acts observed end.
Definition check_sync (c : list coutcome * list pyv * list cobs * bool) : bool :=
  match c with (table, reqs, observed, alive) => check_sequence table reqs observed alive end.
Definition check_pipe (c : list coutcome * list pyv * list cobs * bool) : bool :=
  match c with (table, reqs, observed, alive) => check_pipeline table reqs observed end.
'''

# ------------------------------------------------------------------------------------------
# generators
# ------------------------------------------------------------------------------------------

FILES = {
    'mod1.py': 'import os\n\ndef foo():\n    return 1\n\nbar = 2\n\nclass Base(object):\n    def base_meth(self):\n        pass\n',
    'pkg/__init__.py': 'from .sub import C\nVERSION = (1, 2)\n',
    'pkg/sub.py': 'from mod1 import Base\n\nclass C(Base):\n    attr = 1\n    def method(self):\n        return self\n\ndef helper(a, b=1):\n    return a\n',
    'pkg/other.py': 'import mod1\nvalue = mod1.foo()\n',
    # a second source root whose answers differ from the first one's
    'alt/mod1.py': '\n\nbeta_one = 1\n\ndef foo():\n    return 2\n',
    'alt/altonly.py': 'gamma = 1\n',
}
EDITS = [
    ('mod1.py', 'import os\n\ndef foo():\n    return 1\n\ndef fresh_name():\n    pass\n\nbar = 2\n\nclass Base(object):\n    def base_meth(self):\n        pass\n    def added(self):\n        pass\n'),
    ('pkg/sub.py', 'from mod1 import Base\n\nclass C(Base):\n    attr = 1\n    attr2 = 2\n    def method(self):\n        return self\n'),
    ('newmod.py', 'def brand_new():\n    pass\n'),
]

ASSIST = [
    'import mod1\nmod1.f|', 'import mod1\nmod1.|', 'from pkg.sub import C\nC().me|', 'from pkg.sub import C\nc = C()\nc.|',
    'from pkg import s|', 'from pkg.|', 'import pkg.s|', 'import json\njson.du|', 'class A:\n    def meth(self): pass\nA().m|',
    '|', 'import |', 'from mod1 import |', 'import newmod\nnewmod.|', 'import mod1\nmod1.Base().|',
    'xa = 1\nxb = 2\ndef f(arg1):\n    return ar|', 's = "\u4e2d\u6587 \u00e9"\nimport mod1\nmod1.b|',
]
LOCATION = [
    'import mod1\nmod1.fo|o', 'from pkg.sub import C\nC|', 'from pkg.sub import C\nC().met|hod', 'def f():\n    pass\nf|',
    'if a:\n    x = 1\nelse:\n    x = 2\nx|', 'import mod1\nmod1.ba|r', 'zzz|', 'from pkg.sub import hel|per',
    'for i in y:\n    if i:\n        v = 1\n    else:\n        v = 2\n    v = v + 1\nprint(v|)', 'import pkg.oth|er',
]
LINT = [
    'import os\nx = y\n', 'def f(a):\n    b = 1\n', 'import mod1\nprint(mod1.foo())\n', '', 'def (:\n',
    'from pkg.sub import *\nC\nundefined_name\n', 'import os, sys\n', 's = "\u00e9"\nq\n',
]
EVAL_OK = [
    'return 1 + 1', 'return (1, (2, 3), [4, (5,)])', "return {'a': (1, 2), 'b': None}", 'return {(1, 2): [3, (4,)], (): 0}',
    'return 1.5, float("inf"), -0.0', 'return float("nan")', 'return b"\\x00\\xff", b""', 'return 2**64 - 1, -2**63',
    'return None', 'x = 1', 'return "\\u00e9\\u4e2d\\U0001f600"', 'return True, False, 0, 1', 'return [[]] * 3', 'return ""',
    'return {1: "a", "1": "b", 1.5: (1,)}', 'return [(), [], {}]', 'import os\nreturn os.path.basename(os.getcwd()) == ""',
]
# eval requests that leave something in the namespace they ran in, and evals that would see it if the
# namespace were shared (each request runs in a fresh one: NameError)
EVAL_LEAVES = ['global c15_g\nc15_g = 41\nreturn c15_g', 'global c15_h\nc15_h = [1]\nreturn 1/0', 'global c15_k\nimport os as c15_k\nreturn 2',
               'global c15_f\ndef c15_f():\n    return 3\nreturn c15_f()', 'return 77', 'globals()["c15_d"] = 5\nreturn 5',
               'global c15_g\nc15_g = 42\nraise ValueError("half way")']
EVAL_READS = ['return c15_g', 'return c15_h', 'return c15_k.sep', 'return c15_f()', 'return result', 'return c15_d',
              'return sorted(k for k in globals() if not k.startswith("__"))', 'return boo.__name__']
EVAL_OK += EVAL_LEAVES[:1] + EVAL_LEAVES[2:6] + EVAL_READS[6:]
CONFIGURE_OK = [
    [{'sources': [{'$path': ''}]}], [{'sources': [{'$path': ''}, {'$path': 'pkg'}]}],
    [{'sources': [{'$path': ''}], 'dyn_modules': None}], [{'sources': [{'$path': ''}], 'extra': {'$tuple': [1, 2]}}],
]

CONFIGURE_ALT = [{'sources': [{'$path': 'alt'}]}]
ROOTS = [[{'$path': ''}], [{'$path': 'alt'}], [{'$path': 'alt'}, {'$path': ''}]]
# configure requests with PARTIALLY valid configs: whatever they do, a configure that raises must
# leave the previously configured project in place (sources valid, dyn_modules malformed, ...)
BAD_DYN = [[['m']], 5, [{}], [['mod1'], 'x'], {'$tuple': [[1]]}, True, [None, []], 1.5]
FAIL_CONFIGURE = ([['configure', [{'sources': r, 'dyn_modules': d}], {}] for r in ROOTS[:2] for d in BAD_DYN] +
                  [['configure', [{'dyn_modules': ['mod1']}], {}], ['configure', [{'source': ROOTS[1]}], {}],
                   ['configure', [ROOTS[1]], {}], ['configure', [{'sources': ROOTS[1]}, 1], {}],
                   ['configure', [], {'config': {'sources': ROOTS[1]}, 'x': 1}], ['configure', ['alt'], {}],
                   ['configure', [{'sources': ROOTS[1], 'dyn_modules': [['m']]}], {'extra': 1}]])
# wrong TYPE of sources: accepted by Project.__init__ on the pinned tree (they return None and break or
# replace the project, as in-process); part of the alphabet, not "failing" requests
ODD_CONFIGURE = [['configure', [{'sources': 5}], {}], ['configure', [{'sources': None}], {}], ['configure', [{'sources': 'alt'}], {}],
                 ['configure', [{'sources': []}], {}]]

X = {'$path': 'x.py'}


def marked(src):
    i = src.index('|')
    line = src.count('\n', 0, i) + 1
    col = i - (src.rfind('\n', 0, i) + 1)
    return src[:i] + src[i + 1:], line, col


def with_bulk(src, line, bulkspec):
    if bulkspec is None:
        return src, line
    kind, n = bulkspec
    return {'$bulk': [kind, n, src]}, line + 1


def g_valid(rng, bulkspec=None):
    kind = rng.choice(['assist', 'assist', 'location', 'location', 'lint', 'eval', 'configure'])
    if kind == 'assist':
        src, l, c = marked(rng.choice(ASSIST))
        s, l = with_bulk(src, l, bulkspec)
        pos = {'$tuple': [l, c]} if rng.random() < 0.7 else [l, c]
        return ['assist', [s, pos, X], {}], 'assist'
    if kind == 'location':
        src, l, c = marked(rng.choice(LOCATION))
        s, l = with_bulk(src, l, bulkspec)
        return ['location', [s, {'$tuple': [l, c]}, X], {}], 'location'
    if kind == 'lint':
        src = rng.choice(LINT)
        s, _ = with_bulk(src, 1, bulkspec)
        if rng.random() < 0.3:
            return ['lint', [s, X], {'syntax_only': True}], 'lint'
        return ['lint', [s, X] + ([False] if rng.random() < 0.3 else []), {}], 'lint'
    if kind == 'eval':
        if bulkspec is not None:
            k, n = bulkspec
            if rng.random() < 0.5:
                return ['eval', ['return "a" * %d' % n], {}], 'eval-bigreply'
            return ['eval', [{'$bulk': ['comment', n, 'return 7']}], {}], 'eval'
        return ['eval', [rng.choice(EVAL_OK)], {}], 'eval'
    if rng.random() < 0.15:
        return list(rng.choice(ODD_CONFIGURE)), 'configure-odd'
    return ['configure', rng.choice(CONFIGURE_OK + CONFIGURE_ALT * 3), {}], 'configure'


FAIL_UNKNOWN = [
    ['nosuch', [], {}], ['nosuch', [1, 'a'], {'k': None}], ['get_docstring', ['p', 's', 1, 'f'], {}], ['Assist', ['', [1, 0], X], {}],
    ['', [], {}], ['assist ', ['', [1, 0], X], {}],
]
FAIL_ARITY = [
    ['assist', ['import mod1\nmod1.f', {'$tuple': [2, 6]}], {}], ['lint', ['x\n', X, False, 7], {}], ['lint', ['x\n', X], {'nokw': True}],
    ['eval', [], {}], ['configure', [], {}], ['location', ['x'], {'pos': [1, 1]}], ['eval', ['return 1', 2], {}],
    ['assist', [], {'source': 'x', 'position': [1, 1]}], ['lint', ['x\n'], {'filename': X, 'source': 'y\n'}],
]
FAIL_RAISES = [
    ['assist', ['def (:\n', {'$tuple': [1, 3]}, X], {}], ['eval', ['1/0'], {}], ['eval', ['raise ValueError("boom %d" % 7)'], {}],
    ['eval', ['raise KeyError((1, 2))'], {}], ['eval', ['return ('], {}], ['configure', [{}], {}], ['assist', ['x', None, X], {}],
    ['assist', ['x = 1\nx', {'$tuple': [9, 0]}, X], {}], ['location', ['x = (\n', {'$tuple': [1, 1]}, X], {}],
    ['eval', ['raise Exception()'], {}], ['eval', ['raise Exception("multi\\nline \\u00e9")'], {}], ['eval', ['import nosuchmodule_c15'], {}],
    ['eval', ['def r(n):\n    return r(n + 1)\nr(0)'], {}], ['assist', [5, {'$tuple': [1, 0]}, X], {}], ['configure', [None], {}],
]
FAIL_RAISES += [['eval', [src], {}] for src in EVAL_READS[:6] + EVAL_LEAVES[1:2] + EVAL_LEAVES[6:]]
FAIL_SERIALISE = [
    ['eval', ['return object()'], {}], ['eval', ['return {1, 2}'], {}], ['eval', ['return 2**64'], {}], ['eval', ['return -2**63 - 1'], {}],
    ['eval', ['return "\\udc80"'], {}], ['eval', ['raise Exception("\\udc80")'], {}], ['eval', ['l = []\nl.append(l)\nreturn l'], {}],
    ['eval', ['return lambda: 0'], {}], ['eval', ['return {"k": object()}'], {}], ['eval', ['return [1, (2, {3})]'], {}], ['eval', ['return 1j'], {}],
    ['eval', ['return {(1, 2**70): 1}'], {}], ['eval', ['return frozenset()'], {}], ['eval', ['return range(3)'], {}],
]
FAIL_LOCAL = [
    ['assist', [{'$set': [1, 2]}], {}], ['eval', [{'$obj': 1}], {}], ['lint', ['x', {'$pow': [2, 64, 0]}], {}],
    ['configure', [{'sources': [{'$path': ''}], 'x': {'$obj': 1}}], {}], ['eval', ['\udc80'], {}],
]
FATAL = [
    ['eval', ['raise SystemExit(3)'], {}], ['eval', ['raise KeyboardInterrupt'], {}], ['close', [], {}], ['eval', ['import sys\nsys.exit(0)'], {}],
    ['close', [1], {'a': 2}],
]
FAIL_KINDS = [('unknown', FAIL_UNKNOWN), ('arity', FAIL_ARITY), ('raises', FAIL_RAISES), ('serialise', FAIL_SERIALISE),
              ('configure', FAIL_CONFIGURE),
              ('local', FAIL_LOCAL)]


def g_failing(rng, kind=None):
    if kind is None:
        kind, pool = rng.choice(FAIL_KINDS)
    else:
        pool = dict(FAIL_KINDS)[kind]
    return list(rng.choice(pool)), kind


def base_steps(rng, n, bulk_sizes=()):
    """n valid requests (the first is configure unless the sequence starts unconfigured)."""
    steps = []
    kinds = []
    start_configured = rng.random() < 0.9
    for i in range(n):
        if i == 0 and start_configured:
            c, k = ['configure', CONFIGURE_OK[0], {}], 'configure'
        else:
            b = None
            if bulk_sizes and rng.random() < 0.6:
                b = (rng.choice(['comment', 'string', 'unicode']),
                     rng.choice(bulk_sizes[-3:]) if rng.random() < 0.5 else rng.choice(bulk_sizes))
            c, k = g_valid(rng, b)
        steps.append({'call': c})
        kinds.append(k)
    return steps, kinds


def gen_sequences(ctx):
    rng = ctx.rng
    seqs = []
    maxlen = ctx.pick(12, 60)
    # (a) systematic: a failing request of every kind at EVERY index of a base sequence
    nbase = ctx.pick(3, 12)
    for b in range(nbase):
        n = rng.randint(4, ctx.pick(6, 10))
        steps, kinds = base_steps(rng, n)
        seqs.append({'files': FILES, 'steps': steps, 'tag': 'base', 'id': 'base%d' % b})
        for i in range(n + 1):
            for kind, _pool in FAIL_KINDS:
                f, _ = g_failing(rng, kind)
                st = steps[:i] + [{'call': f}] + steps[i:]
                seqs.append({'files': FILES, 'steps': st, 'tag': 'inject-%s@%d' % (kind, i),
                             'base': 'base%d' % b, 'inject_call': i})
    # (a') a configure that raises between configures of DIFFERENT roots and queries whose answers
    # tell the roots apart: the project in force must stay the one configured before
    queries = [['assist', ['import mod1\nmod1.', {'$tuple': [2, 5]}, X], {}],
               ['location', ['import mod1\nmod1.foo', {'$tuple': [2, 7]}, X], {}],
               ['lint', ['import altonly\nfrom mod1 import bar\nprint(bar, altonly.gamma, nope)\n', X], {}],
               ['assist', ['import ', {'$tuple': [1, 7]}, X], {}]]
    for b, (ra, rb) in enumerate([(ROOTS[0], ROOTS[1]), (ROOTS[1], ROOTS[0])]):
        steps = ([{'call': ['configure', [{'sources': ra}], {}]}] + [{'call': q} for q in queries] +
                 [{'call': ['configure', [{'sources': rb}], {}]}] + [{'call': q} for q in queries[:3]])
        bid = 'cfgbase%d' % b
        seqs.append({'files': FILES, 'steps': steps, 'tag': 'base-configure', 'id': bid})
        pool = FAIL_CONFIGURE
        fs = pool if ctx.thorough() else rng.sample(pool, min(len(pool), 7))
        for f in fs:
            for i in (1, 3, 6, 8):
                if not ctx.thorough() and rng.random() < 0.5:
                    continue
                st = steps[:i] + [{'call': f}] + steps[i:]
                seqs.append({'files': FILES, 'steps': st, 'tag': 'inject-configure@%d' % i, 'base': bid, 'inject_call': i})
    # (b) random mixes: valid, failing, edits of project files, fatal requests at the end
    for j in range(ctx.pick(40, 900)):
        n = rng.randint(1, maxlen)
        steps = []
        issued = []
        nfail = 0
        for i in range(n):
            x = rng.random()
            if i == 0 and x < 0.85:
                steps.append({'call': ['configure', CONFIGURE_OK[0], {}]})
            elif x < 0.45:
                f, _ = g_failing(rng)
                steps.append({'call': f})
                nfail += 1
            elif x < 0.52:
                rel, content = rng.choice(EDITS)
                steps.append({'edit': rel, 'content': content})
            elif x < 0.65 and issued:
                steps.append({'call': rng.choice(issued)})        # an earlier request again, verbatim
            else:
                c = g_valid(rng)[0]
                issued.append(c)
                steps.append({'call': c})
        if rng.random() < 0.3:
            steps.append({'call': list(rng.choice(FATAL))})
            for _ in range(rng.randint(0, 2)):
                steps.append({'call': g_valid(rng)[0] if rng.random() < 0.7 else g_failing(rng)[0]})
        seqs.append({'files': FILES, 'steps': steps, 'tag': 'mix'})
    # (c) payload sizes: 0 bytes .. several MiB, bulk = one comment / string literal
    sizes = ctx.pick([0, 1, 31, 32, 255, 256, 65535, 65536, 300000, 2 ** 20, 2 * 2 ** 20],
                     [0, 1, 31, 32, 255, 256, 65535, 65536, 10 ** 6, 2 * 2 ** 20, 4 * 2 ** 20, 8 * 2 ** 20, 16 * 2 ** 20])
    for j in range(ctx.pick(5, 40)):
        n = rng.randint(4, ctx.pick(8, 16))
        steps, _ = base_steps(rng, n, bulk_sizes=sizes)
        for i in sorted(rng.sample(range(1, n + 1), min(n, 3)), reverse=True):
            steps.insert(i, {'call': g_failing(rng)[0]})
        seqs.append({'files': FILES, 'steps': steps, 'tag': 'payload'})
    # every size at least once, in both directions
    steps = [{'call': ['configure', CONFIGURE_OK[0], {}]}]
    for n in sizes:
        src, l, c = marked('import mod1\nmod1.f|')
        s, l = with_bulk(src, l, (rng.choice(['comment', 'string']), n))
        steps.append({'call': ['assist', [s, {'$tuple': [l, c]}, X], {}]})
        steps.append({'call': ['eval', ['return "a" * %d' % n], {}]})
        steps.append({'call': g_failing(rng)[0]})
    seqs.append({'files': FILES, 'steps': steps, 'tag': 'payload-ladder'})
    # (d) pipelined at the connection level: everything sent before the first reply is read
    for j in range(ctx.pick(12, 150)):
        n = rng.randint(2, ctx.pick(12, 40))
        calls = [['configure', CONFIGURE_OK[0], {}]]
        for i in range(n - 1):
            if rng.random() < 0.4:
                f, k = g_failing(rng, rng.choice(['unknown', 'arity', 'raises', 'serialise']))
                calls.append(f)
            else:
                calls.append(g_valid(rng)[0])
        seqs.append({'files': FILES, 'steps': [{'pipe': calls}], 'tag': 'pipeline'})
    # (j) eval requests that leave names behind, then evals that would see them in a shared namespace
    for j in range(ctx.pick(6, 40)):
        steps = [{'call': ['configure', CONFIGURE_OK[0], {}]}]
        for i in range(rng.randint(3, ctx.pick(8, 20))):
            x = rng.random()
            src = rng.choice(EVAL_LEAVES) if x < 0.4 else rng.choice(EVAL_READS) if x < 0.85 else rng.choice(EVAL_OK)
            steps.append({'call': ['eval', [src], {}]})
            if rng.random() < 0.2:
                steps.append({'call': g_valid(rng)[0] if rng.random() < 0.5 else g_failing(rng)[0]})
        seqs.append({'files': FILES, 'steps': steps, 'tag': 'eval-namespace'})
    # (h) the same request repeated verbatim around re-configures / edits of the modules it depends on
    seqs.extend(repeat_sequences(ctx))
    # (i) default logging (no log file, the server's stdout/stderr as Environment._run sets them up):
    #     long runs of failing requests, huge messages, output on stdout/stderr
    seqs[0:0] = stdio_sequences(ctx)
    # (f) result sizes: every reply / request length around the MessagePack format boundaries
    seqs.extend(sweep_sequences(ctx))
    # (g) slow requests: a reply that takes seconds still answers ITS request, later replies do not shift
    seqs[0:0] = slow_sequences(ctx)          # first, so that they run while the others do
    # (e) interleavings: up to 8 requests in flight, reads and sends in random order
    for j in range(ctx.pick(12, 150)):
        n = rng.randint(3, ctx.pick(12, 40))
        acts = [['s', ['configure', CONFIGURE_OK[0], {}]]]
        inflight = 1
        for i in range(n - 1):
            while inflight and (inflight >= 8 or rng.random() < 0.45):
                acts.append(['r'])
                inflight -= 1
            if rng.random() < 0.4:
                c = g_failing(rng, rng.choice(['unknown', 'arity', 'raises', 'serialise']))[0]
            else:
                c = g_valid(rng)[0]
            acts.append(['s', c])
            inflight += 1
        seqs.append({'files': FILES, 'steps': [{'sched': acts}], 'tag': 'interleaved'})
    return seqs


SWEEP_NS = list(range(0, 21)) + list(range(30, 35)) + list(range(254, 259))


def sweep_sequences(ctx):
    """Replies (and argument lists) of exactly n elements / characters / bytes, n around 15/16,
    31/32, 255/256 (thorough: 65535/65536): the array, map, str and bin length formats."""
    seqs = []
    for k in range(0, len(SWEEP_NS), 6):
        seqs.extend(sweep_chunk(ctx, SWEEP_NS[k:k + 6], k == 0))
    seqs.extend(integer_sweep(ctx))
    if ctx.thorough():
        cfg = {'call': ['configure', CONFIGURE_OK[0], {}]}
        steps = [cfg]
        for n in (65534, 65535, 65536, 65537):
            steps += [{'call': ['eval', [src], {}]} for src in (
                'return list(range(%d))' % n, 'return "a" * %d' % n, 'return "\\u00e9" * %d' % (n // 2),
                'return b"x" * %d' % n, 'return {i: None for i in range(%d)}' % n)]
            steps.append({'call': ['lint', ['#' + 'c' * (n - 1), X], {}]})
        seqs.append({'files': FILES, 'steps': steps, 'tag': 'sweep-64K'})
    return seqs


def integer_sweep(ctx):
    """Integers around every MessagePack integer-format boundary (2^7, 2^8, 2^15, 2^16, 2^31, 2^32, 2^63,
    2^64, both signs) in eval results and arguments, and lines / columns around 2^15 and 2^16 in request
    positions and in the positions of location / lint replies (one-line sources of ~32-70 KB, sources of
    ~32 000-70 000 lines)."""
    cfg = {'call': ['configure', CONFIGURE_OK[0], {}]}
    seqs = []
    ints = sorted(set(sg * (2 ** k) + d for k in (5, 7, 8, 15, 16, 31, 32, 63, 64) for d in (-2, -1, 0, 1, 2) for sg in (1, -1)))
    ok = [z for z in ints if -2 ** 63 <= z < 2 ** 64]
    steps = [cfg, {'call': ['eval', ['return %r' % ok], {}]}, {'call': ['eval', ['return {z: z // 3 for z in %r}' % ok], {}]},
             {'call': ['eval', ['return 40000 + 2'], {}]}, {'call': ['eval', ['return [2**15, 2**16 - 1, -2**15 - 1, 2**31, 2**32 - 1, -2**31 - 1]'], {}]}]
    for z in ok:
        steps.append({'call': ['eval', ['return %d' % z], {}]})
    for z in ints:
        if z not in ok:
            steps.append({'call': ['eval', ['return %d' % z], {}]})          # Serialize error
    # integers as request arguments: the server's message names them
    steps.append({'call': ['eval', ['return 1'] + ok[::7], {}]})
    for z in (32767, 32768, 40002, 65535, 65536, 2 ** 31, 2 ** 32):
        steps.append({'call': ['assist', ['x = 1\nx', {'$tuple': [z, 0]}, X], {}]})        # IndexError / same in-process
        steps.append({'call': ['lint', ['x\n', X, z], {}]})
    seqs.append({'files': FILES, 'steps': steps, 'tag': 'sweep-integers'})
    steps = [cfg]

    def padded(prefix, ch, n, suffix):
        return {'$cat': [prefix, {'$rep': [ch, n]}, suffix]}
    for n in ctx.pick((32766, 32768, 40000, 65536), (32766, 32767, 32768, 32769, 40000, 65534, 65535, 65536, 65537, 70000)):
        # column n in the request position (assist at the end of the line) ...
        pre, suf = 'import mod1; s = "', '"; mod1.f'
        k = n - len(pre) - len(suf)
        steps.append({'call': ['assist', [padded(pre, 'a', k, suf), {'$tuple': [1, n]}, X], {}]})
        # ... and in the reply: a name bound at column n, a diagnostic at column n
        pre, suf = 's = "', '"; tgt = 1; tgt'
        k = n - len(pre) - 3
        steps.append({'call': ['location', [padded(pre, 'a', k, suf), {'$tuple': [1, len(pre) + k + len(suf) - 1]}, X], {}]})
        steps.append({'call': ['lint', [padded(pre, 'a', k, '"; undefined_q'), X], {}]})
        # line n in the request position and in the replies
        steps.append({'call': ['assist', [padded('', '\n', n - 3, 'tgt = 1\nimport mod1\nmod1.f'), {'$tuple': [n, 6]}, X], {}]})
        steps.append({'call': ['location', [padded('', '\n', n - 1, 'tgt = 1\ntgt'), {'$tuple': [n + 1, 1]}, X], {}]})
        steps.append({'call': ['lint', [padded('', '\n', n - 1, 'undefined_q\n'), X], {}]})
    seqs.append({'files': FILES, 'steps': steps, 'tag': 'sweep-positions'})
    return seqs


def sweep_chunk(ctx, ns, first):
    cfg = {'call': ['configure', CONFIGURE_OK[0], {}]}
    seqs = []

    def ev(src):
        return {'call': ['eval', [src], {}]}
    steps = [cfg]
    for n in ns:
        steps += [ev('return list(range(%d))' % n), ev('return tuple(range(%d))' % n),
                  ev('return [[i] for i in range(%d)]' % n), ev('return [list(range(%d)), "x", (list(range(%d)),)]' % (n, n)),
                  ev('return {"k": [[] for i in range(%d)], "n": %d}' % (n, n))]
    seqs.append({'files': FILES, 'steps': steps, 'tag': 'sweep-arrays'})
    steps = [cfg]
    for n in ns:
        steps += [ev('return {str(i): i for i in range(%d)}' % n), ev('return {i: [i] for i in range(%d)}' % n),
                  ev('return [{(i, i): None for i in range(%d)}]' % n)]
    seqs.append({'files': FILES, 'steps': steps, 'tag': 'sweep-maps'})
    steps = [cfg]
    for n in sorted(set(ns + ([10, 11, 63, 64, 85, 86, 127, 128, 129] if first else []))):
        steps += [ev('return "a" * %d' % n), ev('return "\\u00e9" * %d' % n), ev('return "\\u4e2d" * %d' % n),
                  ev('return "\\U0001f600" * %d' % n), ev('return b"x" * %d' % n), ev('return ["ab" * %d, b"\\xff" * %d]' % (n, n)),
                  ev('raise ValueError("m" * %d)' % n)]
        # requests of exactly n bytes of source / n positional arguments / n keyword arguments
        steps.append({'call': ['lint', ['#' + 'c' * (n - 1) if n else '', X], {}]})
    seqs.append({'files': FILES, 'steps': steps, 'tag': 'sweep-strings'})
    steps = [cfg]
    for n in ns:
        steps.append({'call': ['lint', [''.join('undefined_name_%03d\n' % i for i in range(n)), X], {}]})
        steps.append({'call': ['eval', ['return 1'] + list(range(n)), {}]})
        steps.append({'call': ['nosuch', [], {'k%03d' % i: i for i in range(n)}]})
    seqs.append({'files': FILES, 'steps': steps, 'tag': 'sweep-lint-args'})
    steps = [cfg]
    files = dict(FILES)
    for n in ns:
        src = 'class Klass:\n' + ''.join('    attr_%03d = %d\n' % (i, i) for i in range(n)) + ('    pass\n' if n == 0 else '') + 'Klass.'
        steps.append({'call': ['assist', [src, {'$tuple': [src.count('\n') + 1, 6]}, X], {}]})
        files['sz%03d.py' % n] = ''.join('name_%03d = %d\n' % (i, i) for i in range(n))
        steps.append({'call': ['assist', ['import sz%03d\nsz%03d.' % (n, n), {'$tuple': [2, 6]}, X], {}]})
        loc = 'if a:\n    pass\n' + ''.join('elif a == %d:\n    x = %d\n' % (i, i) for i in range(n)) + 'x'
        steps.append({'call': ['location', [loc, {'$tuple': [loc.count('\n') + 1, 1]}, X], {}]})
    seqs.append({'files': files, 'steps': steps, 'tag': 'sweep-assist-location'})
    return seqs


REPEAT_QUERIES = [
    ['lint', ['from mod1 import *\nprint(bar, beta_one, fresh_name, foo)\n', X], {}],
    ['lint', ['from pkg.sub import *\nC\nhelper\nattr2\nundefined_name\n', X], {}],
    ['lint', ['import altonly\nimport mod1\nprint(mod1, altonly)\nzz\n', X], {}],
    ['lint', ['from mod1 import *\n', X], {'syntax_only': True}],
    ['assist', ['import mod1\nmod1.', {'$tuple': [2, 5]}, X], {}],
    ['assist', ['from pkg.sub import C\nC().', {'$tuple': [2, 4]}, X], {}],
    ['assist', ['from mod1 import *\nf', {'$tuple': [2, 1]}, X], {}],
    ['location', ['import mod1\nmod1.foo', {'$tuple': [2, 7]}, X], {}],
    ['location', ['from mod1 import *\nBase', {'$tuple': [2, 2]}, X], {}],
    ['assist', ['import ', {'$tuple': [1, 7]}, X], {}],
]


def repeat_sequences(ctx):
    """Q ... (configure of another root | rewrite of a module Q depends on | failing request | other
    query, but often NO other request of Q's kind) ... the byte-identical Q again: a reply must be
    computed from the project as it is now, not remembered from the last time."""
    rng = ctx.rng
    seqs = []
    changes = ([{'call': ['configure', [{'sources': r}], {}]} for r in ROOTS] +
               [{'edit': rel, 'content': content} for rel, content in EDITS] +
               [{'edit': 'mod1.py', 'content': 'def only_this():\n    pass\n'},
                {'edit': 'alt/mod1.py', 'content': 'fresh_name = 3\nbar = 4\n'},
                {'edit': 'pkg/sub.py', 'content': 'helper = 1\n'}])
    for j in range(ctx.pick(12, 120)):
        q = rng.choice(REPEAT_QUERIES)
        same_kind_between = rng.random() < 0.25
        steps = [{'call': ['configure', [{'sources': rng.choice(ROOTS)}], {}]}]
        for rep in range(rng.randint(2, ctx.pick(4, 8))):
            steps.append({'call': q})
            if rng.random() < 0.3:
                steps.append({'call': q})                 # twice in a row, nothing changed
            for k in range(rng.randint(0, 2)):
                if rng.random() < 0.5:
                    steps.append({'call': g_failing(rng)[0]})
                else:
                    o = rng.choice(REPEAT_QUERIES)
                    if o[0] != q[0] or same_kind_between:
                        steps.append({'call': o})
            steps.append(rng.choice(changes))
            if rng.random() < 0.3:
                steps.append(rng.choice(changes))
        steps.append({'call': q})
        seqs.append({'files': FILES, 'steps': steps, 'tag': 'repeat'})
    return seqs


def stdio_sequences(ctx):
    rng = ctx.rng
    seqs = []
    cfg = {'call': ['configure', CONFIGURE_OK[0], {}]}
    # a long run of failing requests (each logs a traceback with the default logging set-up)
    for nfail in ctx.pick([350], [450, 3000]):
        steps = [cfg]
        for i in range(nfail):
            steps.append({'call': g_failing(rng, rng.choice(['unknown', 'arity', 'raises', 'configure']))[0]})
            if i % 25 == 24:
                steps.append({'call': ['eval', ['return "alive-%d"' % i], {}]})
        steps.append({'call': ['assist', ['import mod1\nmod1.f', {'$tuple': [2, 6]}, X], {}]})
        seqs.append({'files': FILES, 'steps': steps, 'tag': 'stdio-failures', 'default_logging': True, 'call_timeout': 20})
    # one failure with a huge message / a request that writes a lot to stdout or stderr
    for n in ctx.pick([70000, 300000], [4096, 65536, 70000, 300000, 2 * 2 ** 20]):
        for body in ('raise ValueError("m" * %d)' % n, 'print("o" * %d)\nreturn 1' % n,
                     'import sys\nsys.stderr.write("e" * %d)\nreturn 2' % n):
            steps = [cfg, {'call': ['eval', ['return "before"'], {}]}, {'call': ['eval', [body], {}]},
                     {'call': ['eval', ['return "after"'], {}]}, {'call': g_failing(rng)[0]},
                     {'call': ['lint', ['import os\nx = y\n', X], {}]}, {'call': ['eval', [body], {}]},
                     {'call': ['eval', ['return "last"'], {}]}]
            seqs.append({'files': FILES, 'steps': steps, 'tag': 'stdio-output', 'default_logging': True, 'call_timeout': 20})
    return seqs


def slow_sequences(ctx):
    """One request takes seconds (as linting a multi-MiB buffer or importing a heavy module does)
    in the middle of distinguishable fast requests; durations run concurrently on separate servers."""
    rng = ctx.rng
    seqs = []
    for d in ctx.pick([6.5, 2], [6.5, 2, 12, 33]):
        for variant in (['ret'] if not ctx.thorough() and d != 6.5 else ['ret', 'raise']):
            steps = [{'call': ['configure', CONFIGURE_OK[0], {}]}]
            for i in range(3):
                steps.append({'call': ['eval', ['return "before-%d"' % i], {}]})
            steps.append({'call': g_valid(rng)[0]})
            body = 'return %d' % int(d * 10) if variant == 'ret' else 'raise ValueError("slow failure %s")' % d
            steps.append({'call': ['eval', ['import time\ntime.sleep(%s)\n%s' % (d, body)], {}]})
            for i in range(3):
                steps.append({'call': ['eval', ['return "after-%d"' % i], {}]})
                steps.append({'call': g_valid(rng)[0] if i != 1 else g_failing(rng)[0]})
            steps.append({'call': ['eval', ['import time\ntime.sleep(0.3)\nreturn "last"'], {}]})
            seqs.append({'files': FILES, 'steps': steps, 'tag': 'slow-%s-%ss' % (variant, d)})
    return seqs


def load_corpus():
    out = []
    if os.path.isdir(CORPUS):
        for f in sorted(os.listdir(CORPUS)):
            if f.endswith('.json') and not f.startswith('known_'):
                obj = json.load(open(os.path.join(CORPUS, f)))
                obj.setdefault('files', FILES)
                obj['tag'] = 'corpus:' + f
                out.append(obj)
    return out


# ------------------------------------------------------------------------------------------
# the check
# ------------------------------------------------------------------------------------------

def truncate(seq, ncalls):
    """the prefix of a sequence that contains its first `ncalls` calls"""
    steps = []
    n = 0
    for st in seq['steps']:
        if n >= ncalls:
            break
        if 'pipe' in st:
            st = {'pipe': st['pipe'][:ncalls - n]}
            n += len(st['pipe'])
        elif 'call' in st:
            n += 1
        steps.append(st)
    return {'files': seq.get('files', FILES), 'steps': steps, 'tag': seq.get('tag')}


def process_dependent(ctx, seq, idx, res, tries=3):
    """A reply that differs from the in-process one although both are ordinary return values of
    assist/location/lint: is the in-process answer itself different from process to process (set
    order of alternatives: C17, defect F4)? Replays the prefix in fresh processes; True iff some
    fresh reference process gives the answer the server gave, or some fresh server gives the
    answer the reference gave."""
    if res['timed_out'] or idx >= len(res['calls']) or res['calls'][idx][0] not in ('assist', 'location', 'lint'):
        return False
    if res['expected'][idx][0] != 'returned' or res['obs_canon'][idx][0] != 'returned':
        return False
    pre = truncate(seq, idx + 1)
    for k in range(tries):
        ctx._c15_n = getattr(ctx, '_c15_n', 0) + 1
        r2 = run_sequence(pre, os.path.join(ctx.scratch, 'again%d' % ctx._c15_n), 300)
        if len(r2['expected']) <= idx:
            return False
        if r2['expected'][idx] == res['obs_canon'][idx] or r2['obs_canon'][idx] == res['expected'][idx]:
            return True
    return False


def check_environment(ctx):
    """The server must run the tree under test, and the reference worker must see the same
    interpreter environment as the server (assist lists sys.modules / sys.path)."""
    wd = os.path.join(ctx.scratch, 'envcheck')
    os.makedirs(wd)
    r = Runner(wd)
    src = ('import sys, os, supp\n'
           'return (os.path.dirname(os.path.dirname(os.path.abspath(supp.__file__))), list(sys.path), '
           'sorted(set(m.partition(".")[0] for m in sys.modules)), os.getcwd(), sys.executable)')
    try:
        r.start()
        a = r.env.eval(src)
        b = r.inproc('eval', [src], {})
    finally:
        r.stop()
    if os.path.realpath(a[0]) != os.path.realpath(REPO):
        raise RuntimeError('the server imported supp from %s, expected %s' % (a[0], REPO))
    if b[0] != 'ret' or os.path.realpath(b[1][1][0][1]) != os.path.realpath(REPO):
        raise RuntimeError('the reference worker imported supp from %r, expected %s' % (b, REPO))
    ref = t_normalise(b[1])
    same = tag(a) == ref
    ctx.coverage['reference_environment_equal_to_server'] = same
    if not same:
        ra = tag(a)[1]
        diff = [k for k, (x, y) in zip(('repo', 'sys.path', 'top-level sys.modules', 'cwd', 'executable'), zip(ra, ref[1])) if x != y]
        ctx.notes.append('reference worker environment differs from the server in: %s' % diff)
    return same


def collect_lengths(t, name, acc):
    """lengths of every list / dict / str / bytes node of a reply (coverage of the length formats)"""
    k = t[0]
    if k in 'LT':
        acc.setdefault(name + ':array', set()).add(len(t[1]))
        for x in t[1]:
            collect_lengths(x, name, acc)
    elif k == 'D':
        acc.setdefault(name + ':map', set()).add(len(t[1]))
        for a, b in t[1]:
            collect_lengths(a, name, acc)
            collect_lengths(b, name, acc)
    elif k == 's':
        acc.setdefault(name + ':str-utf8-bytes', set()).add(len(t[1].encode('utf-8', 'replace')))
    elif k == 'y':
        acc.setdefault(name + ':bin', set()).add(len(t[1]))


def collect_ints(t, name, acc):
    """integers >= 32767 met in a reply (coverage of positions beyond int16)"""
    k = t[0]
    if k == 'i' and t[1] >= 32767:
        acc.setdefault(name, set()).add(t[1])
    elif k in 'LT':
        for x in t[1]:
            collect_ints(x, name, acc)
    elif k == 'D':
        for a, b in t[1]:
            collect_ints(a, name, acc)
            collect_ints(b, name, acc)


def summarise(ints):
    """sorted ints as ranges: [0,1,2,5] -> '0-2,5'"""
    out = []
    xs = sorted(ints)
    i = 0
    while i < len(xs):
        j = i
        while j + 1 < len(xs) and xs[j + 1] == xs[j] + 1:
            j += 1
        out.append('%d' % xs[i] if i == j else '%d-%d' % (xs[i], xs[j]))
        i = j + 1
    return ','.join(out)


def t_subst(t, a, b):
    k = t[0]
    if k == 's':
        return ('s', t[1].replace(a, b))
    if k in 'LT':
        return (k, [t_subst(x, a, b) for x in t[1]])
    if k == 'D':
        return ('D', [(t_subst(x, a, b), t_subst(y, a, b)) for x, y in t[1]])
    return t


def rel_obs(o, proj):
    """an observation with the sequence's own project directory abstracted (file paths in location
    results and messages), so that two replays in different directories can be compared"""
    if o[0] == 'returned':
        return ('returned', t_subst(o[1], proj, '<proj>'))
    if o[0] == 'raised':
        return ('raised', o[1].replace(proj, '<proj>'))
    return o


def isolation_diff(seq, res, bres, proj, bproj):
    """Failure isolation, evaluated WITHOUT the in-process reference: a request reported to the caller as
    an exception must leave every other reply as it is in the same sequence without that request.
    Returns None (agree / not applicable) or (index in the base sequence, expected, got)."""
    j = seq['inject_call']
    if j >= len(res['obs_canon']) or res['obs_canon'][j][0] not in ('raised', 'local'):
        return None
    got = [rel_obs(o, proj) for k, o in enumerate(res['obs_canon']) if k != j]
    exp = [rel_obs(o, bproj) for o in bres['obs_canon']]
    for k in range(max(len(got), len(exp))):
        g = got[k] if k < len(got) else None
        e = exp[k] if k < len(exp) else None
        if g != e:
            return (k, e, g)
    return None


def check_isolation(ctx, seqs, results):
    by_id = {q['id']: i for i, q in enumerate(seqs) if 'id' in q}
    n = 0
    for i, seq in enumerate(seqs):
        if 'base' not in seq or seq['base'] not in by_id:
            continue
        bi = by_id[seq['base']]
        res, bres = results[i], results[bi]
        if any(('error' in r or 'skipped' in r or r.get('mism') or r.get('timed_out')) for r in (res, bres)):
            continue            # already reported by the direct evaluator
        proj = os.path.join(ctx.scratch, 'seq%d' % i, 'proj')
        bproj = os.path.join(ctx.scratch, 'seq%d' % bi, 'proj')
        j = seq['inject_call']
        if j < len(res['obs_canon']) and res['obs_canon'][j][0] not in ('raised', 'local'):
            ctx.histogram('isolation_pairs', 'injected request did not fail (not applicable)')
            continue
        ctx.histogram('isolation_pairs', seq['tag'].split('@')[0])
        d = isolation_diff(seq, res, bres, proj, bproj)
        if d is None:
            continue
        # confirm in fresh processes (an answer that differs from process to process is C17's subject)
        ctx._c15_n = getattr(ctx, '_c15_n', 0) + 1
        w1 = os.path.join(ctx.scratch, 'iso%da' % ctx._c15_n)
        w2 = os.path.join(ctx.scratch, 'iso%db' % ctx._c15_n)
        r1 = run_sequence(seq, w1, 300)
        r2 = run_sequence(seqs[bi], w2, 300)
        d2 = isolation_diff(seq, r1, r2, os.path.join(w1, 'proj'), os.path.join(w2, 'proj'))
        if d2 is None or d2[0] != d[0]:
            ctx.notes.append('isolation difference on sequence %d not reproduced in fresh processes (process-dependent answer)' % i)
            continue
        n += 1
        if n <= 5:
            k, e, g = d
            f = res['calls'][j]
            ctx.violation('failing request %s (reported to the caller as %s) inserted at index %d of a sequence changes the reply '
                          'to a later request: reply %d of the sequence without it is %s, with it %s'
                          % (short(f, 160), short(res['obs_canon'][j], 120), j, k, short(e, 200), short(g, 200)),
                          {'kind': 'isolation', 'sequence': strip(seq), 'base': strip(seqs[bi]), 'inject_call': j})
    return n


def seq_mode(seq):
    st = seq['steps']
    if len(st) == 1 and 'pipe' in st[0]:
        return 'pipeline'
    if len(st) == 1 and 'sched' in st[0]:
        return 'interleaved'
    return 'sync'


def in_stated_domain(seq, res, idx):
    """The property quantifies over request sequences SENT THROUGH THE CLIENT over configure / assist /
    location / lint / eval with valid and failing arguments. Outside it (evaluated as an extension,
    covered by C15_refines_reference / C15_any_interleaving): requests written to the connection
    directly (pipelined, interleaved), and everything from a `close` message or a request that raises
    a BaseException (SystemExit, KeyboardInterrupt) onwards."""
    if seq_mode(seq) != 'sync':
        return False
    return not any(failure_kind(c) == 'fatal' for c in res['calls'][:idx + 1])


def report(ctx, seq, res, idx, what, replay):
    if in_stated_domain(seq, res, idx):
        ctx.violation(what, replay)
    else:
        ctx.extension_failure(what, replay)


def failure_kind(c):
    for kind, pool in FAIL_KINDS + [('fatal', FATAL)]:
        if c in pool:
            return 'failing-configure' if kind == 'configure' else kind
    return None


def run(ctx):
    python_wrapper()
    try:
        _run(ctx)
    finally:
        import shutil
        if _WRAPPER:
            shutil.rmtree(os.path.dirname(_WRAPPER.pop()), ignore_errors=True)


def _run(ctx):
    proof_ok = ctx.coq_props()
    cov = ctx.coverage
    cov['rule'] = ('request sequences (<= %d requests) over configure/assist/location/lint/eval: base sequences with a failing '
                   'request (unknown method, wrong arguments, raises on the server, unserialisable result, request the client '
                   'cannot serialise) injected at every index; random mixes with project-file edits and fatal requests '
                   '(close, SystemExit) at the end; payloads 0 B .. %s (one comment/string token); pipelined sends. Each sequence '
                   'is replayed through supp.remote.Environment against a real server subprocess, compared reply by reply '
                   'with the in-process call in a reference worker (direct), and with Model/Rpc.v instantiated with the '
                   'recorded in-process outcomes (vm_compute). One evaluation = one request; non-trivial = a failing request, '
                   'a request after a failing one, a payload >= 64 KiB, or a pipelined request'
                   % (ctx.pick(12, 60), ctx.pick('2 MiB', '16 MiB')))
    check_environment(ctx)
    seqs = load_corpus() + gen_sequences(ctx)
    seqs.sort(key=lambda q: not q['tag'].startswith('slow'))      # stable: slow sequences start first
    ctx.log('%d sequences, %d requests' % (len(seqs), sum(len(s['steps']) for s in seqs)))
    timeout = ctx.pick(60, 180)     # per call

    failed = []

    def one(i):
        wd = os.path.join(ctx.scratch, 'seq%d' % i)
        if len(failed) >= 8:
            return {'skipped': True}        # enough failing sequences to report; do not wait for more
        try:
            res = run_sequence(seqs[i], wd, timeout)
            if res['mism']:
                failed.append(i)
            return res
        except Exception as e:          # harness/infrastructure failure: reported, never swallowed
            import traceback
            return {'error': traceback.format_exc()}

    t0 = time.time()
    with ThreadPoolExecutor(max_workers=ctx.pick(8, 12)) as ex:
        results = list(ex.map(one, range(len(seqs))))
    ctx.log('replayed against real servers in %.1fs' % (time.time() - t0))

    sync_terms, sync_idx, pipe_terms, pipe_idx, sched_terms, sched_idx = [], [], [], [], [], []
    nviol = 0
    sweep_lengths = {}
    position_ints = {}
    maxsize = 0
    slowest = 0.0
    for i, (seq, res) in enumerate(zip(seqs, results)):
        if 'skipped' in res:
            ctx.histogram('sequence_kind', 'not-run-after-8-failing-sequences')
            continue
        if 'error' in res:
            ctx.violation('sequence %d (%s) could not be replayed: %s' % (i, seq['tag'], res['error'].strip().split('\n')[-1]),
                          {'kind': 'harness', 'sequence': strip(seq), 'traceback': res['error']}, found_input=False)
            continue
        failed_before = False
        for j, c in enumerate(res['calls']):
            fk = failure_kind(c)
            big = res['sizes'][j] >= 65536 or (res['observed'][j][0] == 'returned' and res['observed'][j][1][0] == 's'
                                               and len(res['observed'][j][1][1]) >= 65536)
            nontrivial = bool(fk) or failed_before or big or seq_mode(seq) != 'sync' or seq['tag'].startswith(('sweep', 'slow', 'repeat', 'stdio'))
            ctx.count((seq['tag'], j, json.dumps(res['calls'][:j + 1], sort_keys=True, default=repr)[-4000:]), nontrivial=nontrivial)
            ctx.histogram('request_kind', fk or c[0])
            ctx.histogram('observation', res['observed'][j][0])
            if fk:
                ctx.histogram('failure_at_index', min(j, 60))
                failed_before = True
            ob = res['observed'][j]
            if ob[0] == 'returned' and ob[1][0] == 's':
                rl = len(ob[1][1])
                ctx.histogram('reply_string_bytes', '0-255' if rl < 256 else '256-64K' if rl < 65536 else '64K-1M' if rl < 2 ** 20 else '>=1MiB')
            if seq['tag'].startswith('sweep') and ob[0] == 'returned':
                collect_lengths(ob[1], c[0], sweep_lengths)
                if seq['tag'] == 'sweep-positions':
                    collect_ints(ob[1], c[0], position_ints)
            if res['times'][j] >= 1.5:
                ctx.histogram('slow_request_seconds', int(res['times'][j]))
            sz = res['sizes'][j]
            ctx.histogram('request_bytes', '0-255' if sz < 256 else '256-64K' if sz < 65536 else '64K-1M' if sz < 2 ** 20 else '>=1MiB')
            maxsize = max(maxsize, sz)
            slowest = max(slowest, res['times'][j])
        ctx.histogram('sequence_kind', seq['tag'].split('@')[0].split(':')[0])
        ctx.histogram('sequence_length', len(res['calls']) // 10 * 10)
        if len(cov['samples']) < 5 and res['calls']:
            ctx.sample({'tag': seq['tag'], 'requests': [c[0] for c in res['calls']][:14],
                        'observed': [short(o, 60) for o in res['observed']][:14]})
        for idx, what in res['mism'][:3]:
            if 'the in-process API (' not in what and process_dependent(ctx, seq, idx, res):
                ctx.histogram('process_dependent_answer_not_counted(C17)', res['calls'][idx][0])
                ctx.notes.append('sequence %d request %d (%s): the in-process answer differs between processes '
                                 '(C17 / F4), not a C15 disagreement' % (i, idx, res['calls'][idx][0]))
                res['mism'] = [m for m in res['mism'] if m[0] != idx]
                res['skip_model'] = True
                continue
            nviol += 1
            if nviol <= 10:
                report(ctx, seq, res, idx, 'sequence %d (%s): %s' % (i, seq['tag'], what),
                       {'kind': 'direct', 'sequence': strip(seq), 'index': idx, 'what': what})
        if res.get('skip_model'):
            continue
        wd = os.path.join(ctx.scratch, 'seq%d' % i)
        mode = seq_mode(seq)
        if mode != 'sync':
            sched_terms.append(sched_case_term(res, seq, wd))
            sched_idx.append(i)
            if mode == 'interleaved':
                continue
        term = case_term(res, wd)
        if len(term) > 900000:
            ctx.histogram('model_case', 'skipped-too-large')
            continue
        if mode == 'pipeline':
            pipe_terms.append(term)
            pipe_idx.append(i)
        else:
            sync_terms.append(term)
            sync_idx.append(i)
    cov['library_level_comparisons'] = sum(r.get('lib_compared', 0) for r in results)
    cov['isolation_disagreements'] = check_isolation(ctx, seqs, results)
    cov['reply_positions_ge_32767'] = {k: summarise(v) for k, v in sorted(position_ints.items())}
    cov['sweep_reply_lengths'] = {k: summarise(v) for k, v in sorted(sweep_lengths.items())}
    cov['max_request_bytes'] = maxsize
    cov['slowest_call_s'] = round(slowest, 2)
    cov['sequences'] = len(seqs)

    # ---- (I): the model predicts every observation ------------------------------------------
    bad = []
    t0 = time.time()
    jobs, owners = [], []
    for terms, idxs, fn in ((sync_terms, sync_idx, 'check_sync'), (pipe_terms, pipe_idx, 'check_pipe'),
                            (sched_terms, sched_idx, 'check_sched')):
        # shards of <= 40 cases and <= ~250 KB of Gallina, all evaluated in one parallel batch
        order = sorted(range(len(terms)), key=lambda k: -len(terms[k]))
        cur, size = [], 0
        for k in order + [None]:
            if k is None or (cur and (len(cur) >= 40 or size + len(terms[k]) > 250000)):
                if cur:
                    pre = PRELUDE + '\nDefinition cases__ := %s.\n' % coq_list([terms[q] for q in cur])
                    jobs.append((['Model.Rpc'], pre, ['bad_idx (%s) cases__' % fn]))
                    owners.append([idxs[q] for q in cur])
                cur, size = [], 0
            if k is not None:
                cur.append(k)
                size += len(terms[k])
    for own, out in zip(owners, ctx.coq_eval_many(jobs, timeout=900)):
        bad.extend(own[k] for k in out[0])
    bad = sorted(set(bad))
    ctx.log('model evaluated on %d cases in %.1fs' % (len(sync_terms) + len(pipe_terms) + len(sched_terms), time.time() - t0))
    cov['correspondence_cases'] = len(sync_terms) + len(pipe_terms) + len(sched_terms)
    cov['correspondence_disagreements'] = len(bad)
    direct_failed = {i for i, r in enumerate(results) if r.get('mism')}
    for i in bad:
        if i in direct_failed:
            continue    # the direct evaluator already reported this sequence with a concrete input
        res = results[i]
        ctx.violation('Model/Rpc.v (instantiated with the in-process outcomes) does not predict what the real client observed '
                      'on sequence %d (%s); the direct comparison passed, so the model and the code have diverged and the '
                      'C15 theorems no longer speak about the code' % (i, seqs[i]['tag']),
                      {'kind': 'correspondence', 'theorem': 'C15_transparent / correspondence run_calls',
                       'sequence': strip(seqs[i]), 'observed': [short(o, 200) for o in res['observed']],
                       'outcomes': [short(o, 200) for o in res['outcomes']]}, found_input=False)
    if not proof_ok:
        ctx.violation('proof obligations of Props/C15.v not discharged: %s' % (ctx.notes,),
                      {'kind': 'proof', 'theorem': 'Props/C15.v', 'notes': ctx.notes, 'build_error': cov.get('build_error')},
                      found_input=False)


def strip(seq):
    s = {'steps': seq['steps'], 'tag': seq.get('tag')}
    for k in ('id', 'base', 'inject_call', 'default_logging', 'call_timeout'):
        if k in seq:
            s[k] = seq[k]
    if seq.get('files') is not FILES and seq.get('files') != FILES:
        s['files'] = seq['files']
    return s


def replay(ctx, obj):
    r = obj['replay']
    seq = r.get('sequence')
    if not seq:
        print(obj.get('what'))
        return 1
    seq.setdefault('files', FILES)
    if r.get('kind') == 'isolation':
        base = r['base']
        base.setdefault('files', FILES)
        seq['inject_call'] = r['inject_call']
        try:
            w1, w2 = os.path.join(ctx.scratch, 'replay_a'), os.path.join(ctx.scratch, 'replay_b')
            r1, r2 = run_sequence(seq, w1, 600), run_sequence(base, w2, 600)
        finally:
            import shutil
            if _WRAPPER:
                shutil.rmtree(os.path.dirname(_WRAPPER.pop()), ignore_errors=True)
        d = isolation_diff(seq, r1, r2, os.path.join(w1, 'proj'), os.path.join(w2, 'proj'))
        print('with the failing request   :', [short(o, 90) for o in r1['obs_canon']])
        print('without the failing request:', [short(o, 90) for o in r2['obs_canon']])
        print('ISOLATION DIFFERENCE' if d else 'isolated', d if d else '')
        return 1 if d or r1['mism'] or r2['mism'] else 0
    try:
        res = run_sequence(seq, os.path.join(ctx.scratch, 'replay'), 600)
    finally:
        import shutil
        if _WRAPPER:
            shutil.rmtree(os.path.dirname(_WRAPPER.pop()), ignore_errors=True)
    for j, c in enumerate(res['calls']):
        print(j, c[0], '| in-process:', short(res['outcomes'][j], 150), '| client:', short(res['observed'][j], 150))
    for idx, what in res['mism']:
        print('MISMATCH', what)
    return 1 if res['mism'] else 0
