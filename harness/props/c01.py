"""C01 - names bound at run time are visible: no false "undefined", offered in completion.

Coq (Props/C01.v): for the interpreter of Model/SemX.v (all abrupt exits: return, break, continue,
exceptions raised anywhere, finally), every command, every fuel and decision list: a read that
finds its name bound has a definition among supp's alternatives (not E02, offered by completion);
the environment a scope exports to nested scopes defines every name the scope binds.

Harness:
  A. one scope, any exits: (I) Model/Reach.v vs supp; (R) Model/SemX.v vs CPython under enumerated
     decisions; direct: no E02/E42 at a successful read, the name is offered by assist.
  B. whole modules with nested scopes (functions with every parameter kind, lambdas, classes,
     comprehensions, global/nonlocal, imports incl. star-import of a generated project module):
     CPython executes the instrumented module, every successful read is checked against lint and
     (sampled) assist of the real code. No model in between.
  C. real files (stdlib + repo): E42 must not occur; E02 must not occur at reads that a
     conservative static oracle knows to succeed (parameters, names bound by an unconditional
     top-level statement, builtins never rebound).
  D. chains of nested scopes (depth 2-4; outermost a function or the module, inner levels functions
     with parameters or classes; the nested def/class at any top-level position of the enclosing body): (I) Model/Nested.v (entry = own locals unbound + the enclosing scope's final
     environment) vs supp's alternatives and E02 sites at every read of every level; the composed
     theorem C01_nested_visible speaks about exactly that analysis; (R) Model/NestedRun.v run_chain vs
     CPython executing the instrumented chain (each level calls the next as its last statement)
     under enumerated decisions, plus the instance of C01_chain_run_visible."""
import ast
import builtins
import os
import sys

from common import stdlib_files
from props import pygen, scopegen
from props import reach_common as rc

LEVEL = 'proof'
ASSUMPTIONS = [
    'one-scope theorem (any exits) proved and composed along chains of nested function scopes (C01_nested_visible; its LEGB premise rt_env is discharged for the executable chain semantics run_chain, C01_chain_run_visible, tied to CPython traces by part D); class namespaces, comprehension scopes, global/nonlocal, imports are covered by C05\'s ownership theorem and, end to end, by generator B executed under CPython (partial: not in the composed theorem)',
    'names created through exec/eval/globals()/locals()/setattr, match statements, PEP 695 type parameters, except*, del are outside the domain',
    'builtins = dir(builtins) of the running interpreter',
]

DYNAMIC = ('globals()', 'exec(', 'eval(', 'setattr(', '__dict__', 'vars()', 'locals()')


guarded_cases, T_IMPL, T_REF = rc.guarded_cases, rc.T_IMPL, rc.T_REF


def part_a(ctx):
    """one scope, any exits"""
    cov = ctx.coverage
    nprog = ctx.pick(120, 1200)
    cap = ctx.pick(25, 120)
    src_of, lay_of = {}, {}
    impl_terms, ref_terms, ref_meta, trees = [], [], [], []
    impl_meta = []
    bad = []
    corpus = rc.corpus_x()      # boundary programs with loop exits, run first
    for k in range(-len(corpus), nprog):
        i = k + len(corpus)         # index into trees
        scope = ctx.rng.choice(['func'] * 8 + ['module'] * 2) if k >= 0 else 'func'
        if k < 0:
            body = corpus[k]
        else:
            g = pygen.Gen(ctx.rng, allow_return=(scope == 'func'), exits=True, max_stmts=ctx.rng.choice([8, 12]),
                          names=ctx.rng.choice([None, None, pygen.POOL[:2], pygen.POOL[:3]]))   # few names: more kills
            body = g.program()
        trees.append((body, scope))
        try:
            src, reads, binds, obs = rc.analyse_program(ctx, body, scope)
            src_of[id(body)] = src
            lay_of[id(body)] = obs.get('layout_seed')
        except Exception as e:
            ctx.violation('supp raised %s: %s on a generated program' % (type(e).__name__, e),
                          {'kind': 'crash', 'source': pygen.render_plain(body, scope)[0]})
            continue
        if scope == 'func':
            impl_terms.append(rc.impl_case_term(body, obs))
            impl_meta.append((i, obs))
        runs, ex = rc.enumerate_decisions(rc.Oracle(pygen.render_instrumented(body, scope), scope, cont=True), cap)
        for eff, log, err in runs:
            if err:
                bad.append((i, 'instrumented program raised %s' % err, eff))
                continue
            ctx.count(('A', src, tuple(eff)), nontrivial=any(v is not None for _, v in log))
            ref_terms.append(rc.ref_case_term(body, eff, log))
            ref_meta.append((i, eff))
            for r, v in log:
                if v is None:
                    continue
                if r in obs['e02'] or r in obs['e42'] or obs['seen'].get(r) == 'E42':
                    bad.append((i, 'read %d succeeds at run time but lint reports it undefined/unknown' % r, eff))
        for b in rc.api_sample(ctx, src, reads, binds, obs, ctx.pick(1, 2)):
            if b[0] == 'assist':
                bad.append((i, 'a visible name is not offered by completion: %r' % (b,), None))
        if i < 2:
            ctx.sample({'part': 'A', 'source': src, 'decisions': runs[-1][0], 'trace': runs[-1][1][:10]})
    seen = set()
    for i, what, eff in bad:
        if (i, what) in seen or len(seen) > 8:
            continue
        seen.add((i, what))
        body, scope = trees[i]
        ctx.violation(what, {'kind': 'direct-A', 'scope': scope, 'tree': body, 'source': src_of.get(id(body)) or pygen.render_plain(body, scope)[0], 'layout_seed': lay_of.get(id(body)), 'decisions': eff})
    bad_i = guarded_cases(ctx, rc.IMPORTS, rc.CHECK_PRELUDE, 'check_implx', impl_terms, 150, T_IMPL, 'A')
    bad_r = guarded_cases(ctx, rc.IMPORTS, rc.CHECK_PRELUDE, 'check_refX', ref_terms, 400, T_REF, 'A')
    # programs whose analysis was too costly to evaluate in the (I) stage: their executions are not fed to the
    # theorem-instance evaluation either (each would cost as much again)
    slow = set(impl_meta[i_][0] for i_ in getattr(ctx, 'skipped_idx', {}).get(('A', 'check_implx'), []))
    vis_terms = [t_ for t_, m_ in zip(ref_terms, ref_meta) if m_[0] not in slow]
    cov['A_executions_of_skipped_programs'] = len(ref_terms) - len(vis_terms)
    bad_v = guarded_cases(ctx, rc.IMPORTS, rc.CHECK_PRELUDE, 'check_visible_instance', vis_terms, 400, T_REF, 'A')
    cov['A_programs'] = nprog
    cov['A_executions'] = len(ref_terms)
    cov['A_impl_disagreements'] = len(bad_i)
    cov['A_ref_disagreements'] = len(bad_r)
    cov['A_theorem_instance_failures'] = len(bad_v)
    if bad_i and not bad:
        ctx.violation('(I) correspondence Model/ReachX.v vs supp no longer checks on %d programs with exits' % len(bad_i),
                      {'kind': 'correspondence-impl', 'theorem': 'C01_visible_any_exit (model tie)',
                       'tree': trees[impl_meta[bad_i[0]][0]][0], 'scope': 'func',
                       'source': src_of.get(id(trees[impl_meta[bad_i[0]][0]][0])),
                       'supp_alternatives': {str(k): v for k, v in impl_meta[bad_i[0]][1]['seen'].items()},
                       'supp_unused': sorted(impl_meta[bad_i[0]][1]['unused'])}, found_input=False)
    if bad_r:
        i, eff = ref_meta[bad_r[0]]
        ctx.violation('(R) correspondence Model/SemX.v vs CPython no longer checks on %d executions' % len(bad_r),
                      {'kind': 'correspondence-ref', 'theorem': 'runX semantics', 'tree': trees[i][0], 'scope': trees[i][1], 'decisions': eff}, found_input=False)
    if bad_v and not bad:
        ctx.violation('instance of theorem C01_visible_any_exit fails in the model', {'kind': 'theorem-instance'}, found_input=False)


def part_b(ctx):
    """whole modules with nested scopes, executed"""
    from supp.project import Project
    from supp.linter import lint
    from supp.assistant import assist
    cov = ctx.coverage
    d = os.path.join(ctx.scratch, 'sgproj')
    os.makedirs(d, exist_ok=True)
    open(os.path.join(d, 'genlib.py'), 'w').write(scopegen.LIB_SRC)
    open(os.path.join(d, 'genhelp.py'), 'w').write(scopegen.GENHELP_SRC)
    open(os.path.join(d, 'gencyca.py'), 'w').write(scopegen.CYC_A_SRC)
    open(os.path.join(d, 'gencycb.py'), 'w').write(scopegen.CYC_B_SRC)
    sys.path.insert(0, d)
    try:
        proj = Project([d])
        nmod = ctx.pick(250, 2500)
        nruns = ctx.pick(5, 12)
        ok_reads = 0
        reported = 0
        for i in range(-len(CORPUS_B), nmod):
            if i < 0:
                lines = CORPUS_B[i]
            else:
                g = scopegen.ScopeGen(ctx.rng, budget=ctx.rng.choice([25, 40, 60]))
                lines = g.module()
            plain, sites = scopegen.render(lines, False)
            ins, _ = scopegen.render(lines, True)
            try:
                ast.parse(plain)
                compile(ins, '<m>', 'exec')
            except SyntaxError:
                ctx.histogram('B_skipped', 'syntax')
                continue
            fn = os.path.join(d, 'gm%d.py' % i)
            try:
                res = lint(proj, plain, fn)
            except Exception as e:
                ctx.histogram('B_supp_crash', type(e).__name__)      # C08's domain; counted
                continue
            badpos = {(r[2], r[3]): r for r in res if r[0] in ('E02', 'E42')}
            okset = set()
            for k in range(nruns):
                ds = [ctx.rng.randrange(2) for _ in range(40)] if k else []
                log, err = scopegen.run_module(ins, d, ds, 'gm%d' % i)
                ctx.histogram('B_run_end', (err or 'completed').split(':')[0])
                okset.update(log)
                ctx.count(('B', plain, tuple(ds)), nontrivial=len(log) > 3)
            ok_reads += len(okset)
            for site in sorted(okset):
                l, c, name = sites[site]
                if (l, c) in badpos and reported < 8:
                    reported += 1
                    ctx.violation('%s at a read that succeeds at run time (line %d col %d)' % (badpos[(l, c)][:2], l, c),
                                  {'kind': 'direct-B', 'source': plain, 'position': [l, c], 'name': name})
            # completion offers the name (sampled; every site for the corpus)
            sample = sorted(okset)
            ctx.rng.shuffle(sample)
            for site in sample[:(len(sample) if i < 0 else ctx.pick(1, 3))]:
                l, c, name = sites[site]
                try:
                    prefix, props = assist(proj, plain, (l, c + len(name)), fn)
                except SyntaxError:
                    continue
                except Exception as e:
                    ctx.histogram('B_assist_crash', type(e).__name__)
                    continue
                if name not in props and reported < 8:
                    reported += 1
                    ctx.violation('completion at line %d col %d does not offer %r although the read succeeds at run time' % (l, c + len(name), name),
                                  {'kind': 'direct-B-assist', 'source': plain, 'position': [l, c + len(name)], 'name': name})
            if i < 1:
                ctx.sample({'part': 'B', 'source': plain[:1500], 'successful_reads': len(okset)})
        cov['B_modules'] = nmod
        cov['B_successful_reads_checked'] = ok_reads
    finally:
        sys.path.remove(d)
        for m in ('genlib', 'genhelp', 'gencyca', 'gencycb'):
            sys.modules.pop(m, None)


class StaticOracle(ast.NodeVisitor):
    """reads that certainly succeed: (a) a parameter read directly in its function body (not
    rebound-by-del), (b) a global read, directly in a function body or at module top level after
    the binding, of a name bound by an unconditional top-level statement, (c) a builtin that the
    module never binds. Reads inside class bodies, lambdas and comprehensions are skipped."""

    def __init__(self, tree):
        self.must = {}      # (line, col) -> (name, reason)
        self.top = {}       # name -> first line of an unconditional top-level binding
        self.bound_anywhere = set()
        self.deleted = set()
        for n in ast.walk(tree):
            if isinstance(n, ast.Name) and isinstance(n.ctx, (ast.Store, ast.Del)):
                (self.bound_anywhere if isinstance(n.ctx, ast.Store) else self.deleted).add(n.id)
            elif isinstance(n, (ast.FunctionDef, ast.AsyncFunctionDef, ast.ClassDef)):
                self.bound_anywhere.add(n.name)
            elif isinstance(n, ast.alias):
                self.bound_anywhere.add((n.asname or n.name).split('.')[0])
            elif isinstance(n, ast.arg):
                self.bound_anywhere.add(n.arg)
            elif isinstance(n, ast.ExceptHandler) and n.name:
                self.bound_anywhere.add(n.name)
                self.deleted.add(n.name)
            elif isinstance(n, (ast.Global, ast.Nonlocal)):
                self.bound_anywhere.update(n.names)
        for st in tree.body:
            for nm in self.binds_of(st):
                self.top.setdefault(nm, st.lineno)
        self.module_body(tree)

    @staticmethod
    def binds_of(st):
        if isinstance(st, ast.Assign):
            return [t.id for t in st.targets if isinstance(t, ast.Name)]
        if isinstance(st, ast.AnnAssign) and st.value is not None and isinstance(st.target, ast.Name):
            return [st.target.id]
        if isinstance(st, (ast.FunctionDef, ast.AsyncFunctionDef, ast.ClassDef)):
            return [st.name]
        if isinstance(st, ast.Import):
            return [(a.asname or a.name.split('.')[0]) for a in st.names]
        if isinstance(st, ast.ImportFrom):
            return [(a.asname or a.name) for a in st.names if a.name != '*']
        return []

    def loads_shallow(self, node):
        """Name loads in a statement list / expression, not descending into nested scopes"""
        stack = [node]
        while stack:
            n = stack.pop()
            if isinstance(n, (ast.FunctionDef, ast.AsyncFunctionDef, ast.ClassDef, ast.Lambda, ast.ListComp,
                              ast.SetComp, ast.DictComp, ast.GeneratorExp)):
                if isinstance(n, (ast.FunctionDef, ast.AsyncFunctionDef)):
                    self.function(n)
                elif isinstance(n, ast.ClassDef):
                    for st in n.body:
                        if isinstance(st, (ast.FunctionDef, ast.AsyncFunctionDef)):
                            self.function(st)
                continue
            if isinstance(n, ast.Name) and isinstance(n.ctx, ast.Load):
                yield n
            stack.extend(ast.iter_child_nodes(n))

    def module_body(self, tree):
        for st in tree.body:
            for n in self.loads_shallow(st):
                if n.id in self.deleted:
                    continue
                if n.id in self.top and self.top[n.id] < st.lineno:
                    self.must[(n.lineno, n.col_offset)] = (n.id, 'bound by an earlier unconditional top-level statement')
                elif n.id not in self.bound_anywhere and hasattr(builtins, n.id):
                    self.must[(n.lineno, n.col_offset)] = (n.id, 'builtin, never bound in the module')

    def function(self, f):
        params = [a.arg for a in f.args.posonlyargs + f.args.args + f.args.kwonlyargs]
        if f.args.vararg:
            params.append(f.args.vararg.arg)
        if f.args.kwarg:
            params.append(f.args.kwarg.arg)
        local = set(params)
        declared = set()
        for n in ast.walk(f):
            if n is f:
                continue
            if isinstance(n, ast.Name) and isinstance(n.ctx, (ast.Store, ast.Del)):
                local.add(n.id)
            elif isinstance(n, (ast.FunctionDef, ast.AsyncFunctionDef, ast.ClassDef)):
                local.add(n.name)
            elif isinstance(n, ast.alias):
                local.add((n.asname or n.name).split('.')[0])
            elif isinstance(n, ast.ExceptHandler) and n.name:
                local.add(n.name)
            elif isinstance(n, (ast.Global, ast.Nonlocal)):
                declared.update(n.names)
        rebound = set()
        for n in ast.walk(f):
            if isinstance(n, ast.Name) and isinstance(n.ctx, (ast.Store, ast.Del)):
                rebound.add(n.id)
        for st in f.body:
            for n in self.loads_shallow(st):
                if n.id in declared or n.id in self.deleted:
                    continue
                if n.id in params and n.id not in rebound:
                    self.must[(n.lineno, n.col_offset)] = (n.id, 'parameter of the enclosing function')
                elif n.id not in local and self.nested_free(f, n.id):
                    if n.id in self.top:
                        self.must[(n.lineno, n.col_offset)] = (n.id, 'global bound by an unconditional top-level statement')
                    elif n.id not in self.bound_anywhere and hasattr(builtins, n.id):
                        self.must[(n.lineno, n.col_offset)] = (n.id, 'builtin, never bound in the module')

    def nested_free(self, f, name):
        # only functions defined at module or class level are handled: no enclosing function can own the name
        return getattr(f, '_toplevel', True)


def mark_toplevel(tree):
    for st in tree.body:
        if isinstance(st, (ast.FunctionDef, ast.AsyncFunctionDef)):
            st._toplevel = True
            for n in ast.walk(st):
                if n is not st and isinstance(n, (ast.FunctionDef, ast.AsyncFunctionDef)):
                    n._toplevel = False
        elif isinstance(st, ast.ClassDef):
            for m in st.body:
                if isinstance(m, (ast.FunctionDef, ast.AsyncFunctionDef)):
                    m._toplevel = True
                    for n in ast.walk(m):
                        if n is not m and isinstance(n, (ast.FunctionDef, ast.AsyncFunctionDef)):
                            n._toplevel = False


def part_c(ctx):
    from supp.project import Project
    from supp.linter import lint
    cov = ctx.coverage
    files = stdlib_files(limit=ctx.pick(120, 100000), rng=ctx.rng)
    proj = Project([os.path.join(ctx.scratch, 'nonexist')])
    checked = 0
    reported = 0
    nfiles = 0
    for fn in files:
        try:
            src = open(fn, encoding='utf8').read()
            tree = ast.parse(src)
        except (SyntaxError, UnicodeDecodeError, ValueError):
            continue
        if any(isinstance(n, (getattr(ast, 'Match', ()), getattr(ast, 'TypeAlias', ()), getattr(ast, 'TryStar', ()))) for n in ast.walk(tree)):
            ctx.histogram('C_skipped', 'outside-grammar')
            continue
        if any(getattr(n, 'type_params', None) for n in ast.walk(tree)):
            ctx.histogram('C_skipped', 'pep695')
            continue
        try:
            res = lint(proj, src, fn)
        except RecursionError:
            continue
        except Exception as e:
            ctx.histogram('C_supp_crash', type(e).__name__)       # C08's domain
            continue
        nfiles += 1
        mark_toplevel(tree)
        oracle = StaticOracle(tree)
        checked += len(oracle.must)
        dyn = any(k in src for k in DYNAMIC)
        for r in res:
            if r[0] == 'E42' and reported < 8:
                reported += 1
                ctx.violation('E42 %s in %s line %d' % (r[1], fn, r[2]), {'kind': 'direct-C-E42', 'file': fn, 'position': [r[2], r[3]]})
            elif r[0] == 'E02' and (r[2], r[3]) in oracle.must and reported < 8:
                name, why = oracle.must[(r[2], r[3])]
                reported += 1
                ctx.violation('E02 for %r in %s line %d although the read succeeds (%s)' % (name, fn, r[2], why),
                              {'kind': 'direct-C-E02', 'file': fn, 'position': [r[2], r[3]], 'name': name, 'reason': why})
        ctx.count(('C', fn), nontrivial=len(oracle.must) > 10)
    cov['C_files'] = nfiles
    cov['C_must_succeed_reads_checked'] = checked


# hand-written modules (markers ⟦n⟧ before the reads of interest), run first by part B: minimal forms of
# seeded changes that random generation hits only with some probability
CORPUS_B = [
    # nonlocal rebinding read in its own right-hand side (seeded C01-r2-2)
    ['def f():', '    count = 0', '    def g(step):', '        nonlocal count', '        count = ⟦1⟧count + step',
     '        return ⟦2⟧count', '    return ⟦3⟧g(1)', '⟦4⟧f()'],
    # walrus inside a comprehension in an if test (seeded C02-r2-1)
    ['def f(values, limit):', '    if any((hit := v) > limit for v in ⟦1⟧values):', '        return ⟦2⟧hit', '    return 0', '⟦3⟧f([5], 1)'],
    # multi-decorated def opening a function body and an except handler (seeded C01-r2-3, C13-r2-1)
    ['def outer(wrap, deco2):', '    @_deco(⟦1⟧wrap)', '    @_deco(⟦2⟧deco2,', '           ⟦3⟧wrap)', '    # comment',
     '    def inner(): pass', '    try:', '        raise ValueError()', '    except ValueError as err:',
     '        @_deco(⟦4⟧err)', '        @_deco(⟦5⟧wrap)', '        def h(): pass', '    return inner', '⟦6⟧outer(1, 2)'],
    # with items in sequence (seeded C01-2)
    ['def f(p):', '    with _cm(⟦1⟧p) as a, _cm(⟦2⟧a) as b:', '        return ⟦3⟧b', '⟦4⟧f(1)'],
    # star-import cycle of project modules (seeded C01-r2-1)
    ['from gencyca import *', '⟦1⟧cyc_a', '⟦2⟧cyc_b'],
    # a star-imported name read BEFORE the module's own later rebinding of it (seeded C01-r4-2)
    ['from genlib import *', 'plain = ⟦1⟧lib_f', 'def lib_f(*a):', '    return ⟦2⟧plain(*a)', 'for lib_a in [⟦3⟧lib_a, 2]:', '    pass', '⟦4⟧lib_f(1)'],
    # names a project module binds on only some paths are exported by its star import (seeded C01-r5-1)
    ['from genlib import *', '⟦1⟧lib_c', '⟦2⟧lib_d', '⟦3⟧lib_e', '⟦4⟧lib_g'],
]

KNOWN = {
    'F46': ('class C:\n    y = [(lambda: t)() for t in [1]]\n', None,
            'a closure inside a comprehension directly in a class body reads the comprehension variable: E02 (comprehension flows live in the class scope, which nested functions skip)'),
    'F54': ('def f():\n    def g():\n        nonlocal x\n        x = 1\n    g()\n    print(x)\n    x = 2\nf()\n', None,
            'a name rebound through `nonlocal` in an inner function is not visible in the enclosing function before that function\'s own textual binding: E02'),
    'F58': ('def f1():\n    def f11(p: x = (x := 1)): pass\n    return x\nf1()\n', None,
            'a parameter annotation reads a name bound by a walrus in that parameter\'s default: Python evaluates defaults before annotations, supp decides visibility by text position: E02'),
    'F35': ('from .sub import x\nprint(sub)\n', 'pkg',
            '`from .sub import x` in a package __init__ binds `sub` in the package namespace at run time; supp reports `sub` undefined (asyncio/__init__.py idiom)'),
}


def render_nested(bodies, splits, params=None, top='func', kinds=None):
    """def main(...): <body 0 with `def inner1():` placed before statement splits[0]>, whose body is
    body 1 with `def inner2():` placed before statement splits[1], ...  Returns (source, reads, binds)."""
    import re
    r = pygen.Renderer(False)
    r.lines.extend(pygen.HEADER_PLAIN[top].split('\n'))

    def level(k, ind):
        body = bodies[k]
        if k + 1 < len(bodies):
            j = splits[k]
            r.body(body[:j], ind)
            ps = (params or {}).get(k + 1, [])
            if kinds and kinds[k + 1] == 'cls':
                r.emit(ind, 'class Inner%d:' % (k + 1))
            else:
                r.emit(ind, 'def inner%d(%s):' % (k + 1, ', '.join(pygen.mk('d', d, x) + '=g()' for d, x in ps)))
            level(k + 1, ind + 1)
            r.body(body[j:], ind)
        else:
            r.body(body, ind)
    level(0, 0 if top == 'module' else 1)
    reads, binds, out = {}, {}, []
    for ln, line in enumerate(r.lines, 1):
        while True:
            m = pygen.MARK.search(line)
            if not m:
                break
            col = m.start()
            line = line[:m.start()] + line[m.end():]
            ident = re.match(r'\w+', line[col:]).group()
            site = int(m.group(2))
            ident = r.hnames.get(site, ident)
            (reads if m.group(1) == 'r' else binds)[site] = (ln, col, ident)
        out.append(line)
    return '\n'.join(out) + '\n', reads, binds


def render_nested_instrumented(bodies, splits, params=None, top='func'):
    """the same chain for CPython: every function defines the next one before statement splits[k] of
    its body and calls it as its last statement (bodies are already cut at the call point)"""
    r = pygen.Renderer(True)

    def level(k, ind):
        body = bodies[k]
        ps = (params or {}).get(k, [])
        if not (k == 0 and top == 'module'):
            r.emit(ind - 1, 'def %s(%s):' % ('main' if k == 0 else 'inner%d' % k, ', '.join('%s=%s' % (x, r.tagged([(d, x)], [])) for d, x in ps)))
        if k + 1 < len(bodies):
            j = splits[k]
            r.body(body[:j], ind)
            level(k + 1, ind + 1)
            r.body(body[j:], ind)
            r.emit(ind, 'inner%d()' % (k + 1))
        else:
            r.body(body, ind)
            r.emit(ind, 'pass')
    if top == 'module':
        level(0, 0)         # the module body itself is level 0: its bindings are globals
    else:
        level(0, 1)
        r.lines.append('def _go():')
        r.lines.append('    main()')
    return '\n'.join(r.lines) + '\n'


NESTED_PRELUDE = rc.CHECK_PRELUDE + '''
(* (R) for Model/NestedRun.v: CPython's trace of the chain (every function calls the next one as its
   last statement) vs [run_chain], and the instance of theorem C01_chain_run_visible on it *)
Definition check_chain (k : list cmd * list nat * trace) : bool :=
  match k with
  | (bodies, ds, obs) =>
      let l := run_chain 4000 [] bodies renv0 (ds ++ zeros) in
      trace_eqb (chain_trace l) obs && forallb level_visible l
  end.

(* C02 across scopes (Model/NestedRunS.v): on chains whose bodies are all in the fragment [okx], CPython's
   trace vs [run_chain_s] and the instance of theorem C02_chain_sound: every read event of every level
   is among the alternatives of [seen_nested] *)
Definition chain_okx (k : list cmd * list nat * trace) : bool :=
  match k with (bodies, _, _) => forallb okx bodies end.
Definition check_chain_sound (k : list cmd * list nat * trace) : bool :=
  match k with
  | (bodies, ds, obs) =>
      negb (forallb okx bodies) ||
      (let l := run_chain_s 4000 [] bodies renv0 (ds ++ zeros) in
       trace_eqb (chain_trace l) obs && forallb level_sound l)
  end.
(* (I) for Model/NestedUsed.v: the binding sites lint reports unused (W01) over a chain of functions *)
Definition check_unused_chain (k : list cmd * list N) : bool :=
  match k with (bodies, unused) => set_eq_N (unused_chain bodies) unused end.
(* (I) for Model/Nested.v: supp's alternatives at every read of the body [ci] nested in [outers],
   and the E02 sites among its reads *)
Definition check_nested (k : list lvl * lvl * list (N * list alt) * list N) : bool :=
  match k with
  | (outers, l, obs, e02s) =>
      forallb (fun ra => set_eq_alt (seen_k outers l (fst ra)) (snd ra)) obs &&
      set_eq_N (filter (fun r => e02_k outers l r) (map fst (reads (snd l)))) e02s
  end.
'''


def part_d(ctx):
    """chains of nested function scopes: (I) Model/Nested.v vs supp at every level"""
    cov = ctx.coverage
    nchain = ctx.pick(60, 500)
    cap = ctx.pick(12, 60)
    terms, meta = [], []
    rterms, rmeta, rbad = [], [], []
    uterms, umeta = [], []
    tails = 0
    depth_hist = {}
    top_hist = {}
    kind_hist = {}
    for k in range(nchain):
        depth = ctx.rng.choice([2, 2, 3, 3, 4])
        names = ctx.rng.choice([pygen.POOL[:3], pygen.POOL[:4], pygen.POOL])
        frag = ctx.rng.random() < 0.5       # half of the chains from the generator of the C02 extension (fragment okx)
        g = pygen.Gen(ctx.rng, allow_return=True, exits=True, max_stmts=6, names=names, loop_exits_only=frag, full_raise=False)
        bodies, ranges, params = [], [], {}
        top = ctx.rng.choice(['func', 'func', 'module'])    # the outermost body: a function or the module itself
        kinds = ['fun'] + [ctx.rng.choice(['fun', 'fun', 'cls']) for _ in range(depth - 1)]
        if ctx.rng.random() < 0.5:
            kinds = ['fun'] * depth          # half of the chains: functions only (those also run under CPython)
        for lvl_ in range(depth):
            g.allow_return = not (lvl_ == 0 and top == 'module') and kinds[lvl_] == 'fun'
            lo = g.site
            if lvl_ > 0 and kinds[lvl_] == 'fun':
                # parameters (with defaults) of the nested function: bound at entry, before the body
                pn = ctx.rng.sample(names, ctx.rng.choice([0, 0, 1, 2]))
                params[lvl_] = [(g.new(), x) for x in pn]
            g.budget = g.max_stmts
            g.loop_depth = 0
            body_ = g.program(lo=2, hi=4, prologue=ctx.rng.choice([0.2, 0.5]))
            if lvl_ < depth - 1 and ctx.rng.random() < 0.35:
                # directed tail (seeded C01-r9-1): a statement that opens an 'assign-targets' flow
                # (`x, g.s[x], y = ...` / `x = g.s[x] = ...`) followed only by plain bindings - the flow the
                # scope exports to the nested levels must be the one behind them
                if ctx.rng.random() < 0.5:
                    b1, b2 = g.bind(), g.bind()
                    if b2[1] == b1[1]:
                        b2 = (b2[0], [n_ for n_ in names if n_ != b1[1]][0])
                    body_.append(('assign', g.reads(0, 1), [b1, b2], 'tuplesub', [(g.new(), b1[1])]))
                else:
                    b1 = g.bind()
                    body_.append(('assign', g.reads(0, 1), [b1], 'chainsub', [(g.new(), b1[1])]))
                for _ in range(ctx.rng.randint(1, 2)):
                    body_.append(('assign', g.reads(0, 1), [g.bind()], 'plain'))
                tails += 1
            bodies.append(body_)
            ranges.append((lo, g.site))
        splits = [ctx.rng.randrange(0, len(b)) for b in bodies]
        try:
            src, reads, binds = render_nested(bodies, splits, params, top, kinds)
            obs = rc.observe_supp(ctx, src, reads, binds)
        except Exception as e:
            ctx.violation('supp raised %s: %s on a generated chain of nested functions' % (type(e).__name__, e),
                          {'kind': 'crash-D', 'bodies': bodies, 'splits': splits})
            continue
        depth_hist[depth] = depth_hist.get(depth, 0) + 1
        top_hist[top] = top_hist.get(top, 0) + 1
        if obs['unknown_alt']:
            ctx.violation('supp lists a definition that is no binding site of the program: %r' % (obs['unknown_alt'][:2],),
                          {'kind': 'direct-D', 'source': src})
            continue
        passign = {i: [('assign', [], [(d_, x_)], 'plain') for d_, x_ in params.get(i, [])] for i in range(depth)}
        mcoq = lambda i, b: pygen.body_coq(passign[i] + b)      # model body: parameters are bindings at the head
        kcoq = lambda i, b: '(%s, %s)' % ('KCls' if kinds[i] == 'cls' else 'KFun', mcoq(i, b))
        for lvl in range(depth):
            lo, hi = ranges[lvl]
            items = []
            for site in sorted(obs['seen']):
                if not (lo < site <= hi):
                    continue
                v = obs['seen'][site]
                if v == 'E42':
                    v = []
                items.append('(%d, [%s])' % (site, '; '.join(rc.alt_term(a) for a in v)))
            e02s = sorted(s_ for s_ in (obs['e02'] | obs['e42']) if lo < s_ <= hi)
            free = any(lo < s_ <= hi and any(a is not None and not (lo < a <= hi) for a in (obs['seen'][s_] if obs['seen'][s_] != 'E42' else []))
                       for s_ in obs['seen'])
            ctx.count(('D', src, lvl), nontrivial=free)
            terms.append('([%s], %s, [%s], [%s])' % ('; '.join(kcoq(i, b) for i, b in enumerate(bodies[:lvl])), kcoq(lvl, bodies[lvl]),
                                                    '; '.join(items), '; '.join(str(x) for x in e02s)))
            meta.append((src, lvl, bodies, splits, params, top, kinds, reads, sorted(obs['e02'] | obs['e42'])))
        kind_hist[tuple(kinds)] = kind_hist.get(tuple(kinds), 0) + 1
        if top == 'func' and 'cls' not in kinds:
            uterms.append('([%s], [%s])' % ('; '.join(mcoq(i, b) for i, b in enumerate(bodies)), '; '.join(str(x) for x in sorted(obs['unused']))))
            umeta.append((src, sorted(obs['unused'])))
        if 'cls' in kinds:
            continue        # a class body runs where it stands, not when called: (I) only
        # (R): cut every body at a call point behind the nested def, run under CPython
        cuts = [ctx.rng.randint(splits[i], len(bodies[i])) for i in range(depth)]
        tbodies = [bodies[i][:cuts[i]] for i in range(depth)]
        tsplits = [min(splits[i], len(tbodies[i])) for i in range(depth)]
        code = render_nested_instrumented(tbodies, tsplits, params, top)
        try:
            runs, _ex = rc.enumerate_decisions(rc.Oracle(code, top, cont=True), cap)
        except SyntaxError as e:
            ctx.violation('the instrumented chain does not compile: %s' % e, {'kind': 'harness-D', 'code': code}, found_input=False)
            continue
        for eff, log, err in runs:
            if err:
                rbad.append((code, 'instrumented chain raised %s' % err, eff))
                continue
            inner_ok = sum(1 for r_, v in log if v is not None and r_ > ranges[0][1])
            ctx.count(('Dr', code, tuple(eff)), nontrivial=inner_ok > 0)
            rterms.append('([%s], [%s], [%s])' % ('; '.join(mcoq(i, b) for i, b in enumerate(tbodies)), '; '.join('%d%%nat' % d for d in eff),
                                                 '; '.join('(%d, %s)' % (r_, rc.alt_term(v)) for r_, v in log)))
            rmeta.append((code, eff, log))
        if k < 1:
            ctx.sample({'part': 'D', 'source': src, 'supp_alternatives': {str(a): b for a, b in obs['seen'].items()},
                        'instrumented': code, 'decisions': runs[-1][0], 'trace': runs[-1][1][:12]})
    for code, what, eff in rbad[:3]:
        ctx.violation(what, {'kind': 'harness-D', 'code': code, 'decisions': eff}, found_input=False)
    bad = guarded_cases(ctx, rc.IMPORTS + ['Model.Nested', 'Model.NestedRun', 'Model.NestedCls', 'Model.NestedRunS', 'Model.NestedUsed'], NESTED_PRELUDE, 'check_nested', terms, 150, 'list lvl * lvl * list (N * list alt) * list N', 'D')
    bad_r = guarded_cases(ctx, rc.IMPORTS + ['Model.Nested', 'Model.NestedRun', 'Model.NestedCls', 'Model.NestedRunS', 'Model.NestedUsed'], NESTED_PRELUDE, 'check_chain', rterms, 300, 'list cmd * list nat * trace', 'D')
    outside = guarded_cases(ctx, rc.IMPORTS + ['Model.Nested', 'Model.NestedRun', 'Model.NestedCls', 'Model.NestedRunS', 'Model.NestedUsed'], NESTED_PRELUDE, 'chain_okx', rterms, 300, 'list cmd * list nat * trace', 'D')
    bad_s = guarded_cases(ctx, rc.IMPORTS + ['Model.Nested', 'Model.NestedRun', 'Model.NestedCls', 'Model.NestedRunS', 'Model.NestedUsed'], NESTED_PRELUDE, 'check_chain_sound', rterms, 300, 'list cmd * list nat * trace', 'D')
    bad_u = guarded_cases(ctx, rc.IMPORTS + ['Model.Nested', 'Model.NestedRun', 'Model.NestedCls', 'Model.NestedRunS', 'Model.NestedUsed'], NESTED_PRELUDE, 'check_unused_chain', uterms, 150, 'list cmd * list N', 'D')
    cov['D_unused_chains_compared'] = len(uterms)
    cov['D_unused_disagreements'] = len(bad_u)
    if bad_u:
        src, un = umeta[bad_u[0]]
        ctx.violation('(I) correspondence Model/NestedUsed.v vs lint (unused bindings over a chain of nested functions) no longer checks on %d chains' % len(bad_u),
                      {'kind': 'correspondence-nested-unused', 'theorem': 'C01_chain_no_false_unused (model tie)', 'source': src, 'lint_unused_sites': un}, found_input=False)
    cov['D_executions_in_fragment_okx'] = len(rterms) - len(outside)
    cov['D_sound_disagreements'] = len(bad_s)
    if bad_s:
        code, eff, log = rmeta[bad_s[0]]
        ctx.violation('(R) correspondence Model/NestedRunS.v vs CPython (or the instance of C01_chain_sound) no longer checks on %d executions of chains in the fragment okx' % len(bad_s),
                      {'kind': 'correspondence-ref-nested-sound', 'theorem': 'run_chain_s semantics / C01_chain_sound', 'code': code, 'decisions': eff, 'trace': log}, found_input=False)
    cov['D_executions'] = len(rterms)
    cov['D_ref_disagreements'] = len(bad_r)
    if bad_r:
        code, eff, log = rmeta[bad_r[0]]
        ctx.violation('(R) correspondence Model/NestedRun.v vs CPython (or the instance of C01_chain_run_visible) no longer checks on %d executions of chains of nested functions' % len(bad_r),
                      {'kind': 'correspondence-ref-nested', 'theorem': 'run_chain semantics / C01_chain_run_visible', 'code': code, 'decisions': eff, 'trace': log}, found_input=False)
    cov['D_chains'] = nchain
    cov['D_directed_assign_target_tails'] = tails
    cov['D_outermost'] = dict(top_hist)
    cov['D_chains_with_class_levels'] = sum(v for k_, v in kind_hist.items() if 'cls' in k_)
    cov['D_chain_depths'] = {str(a): b for a, b in sorted(depth_hist.items())}
    cov['D_levels_compared'] = len(terms)
    cov['D_disagreements'] = len(bad)
    if bad:
        # search for a concrete failing input: a read of a disagreeing chain that lint reports undefined
        # although it succeeds when the chain (every level calling the next as its last statement) runs
        found = None
        seen_src = set()
        for bi in bad:
            src, lvl, bodies, splits, params, top, kinds, reads, e02s = meta[bi]
            if src in seen_src or 'cls' in kinds or not e02s:
                continue
            seen_src.add(src)
            if len(seen_src) > 6:
                break
            try:
                code = render_nested_instrumented(bodies, [min(sp, len(b)) for sp, b in zip(splits, bodies)], params, top)
                runs, _ex = rc.enumerate_decisions(rc.Oracle(code, top, cont=True), 150)
            except Exception:
                continue
            for eff, log, err in runs:
                hit = [r_ for r_, v in log if v is not None and r_ in e02s]
                if hit and not err:
                    found = (src, reads.get(hit[0]), eff, code)
                    break
            if found:
                break
        if found:
            src, pos, eff, code = found
            ctx.violation('lint reports a read undefined that succeeds at run time in a chain of nested functions (line %s col %s, name %s)' % tuple(pos or ('?', '?', '?')),
                          {'kind': 'direct-D', 'source': src, 'position': list(pos or ()), 'decisions': eff, 'instrumented': code})
        else:
            src, lvl, bodies, splits = meta[bad[0]][:4]
            ctx.violation('(I) correspondence Model/Nested.v vs supp no longer checks on %d scope levels of generated chains of nested functions' % len(bad),
                          {'kind': 'correspondence-nested', 'theorem': 'C01_nested_visible (model tie)', 'source': src, 'level': lvl,
                           'bodies': bodies, 'splits': splits}, found_input=False)


def known_findings(ctx):
    """re-run the committed inputs of the open findings; print KNOWN-FINDING only if they still fail"""
    from supp.project import Project
    from supp.linter import lint
    import subprocess
    for f in ctx.open_findings():
        if f['id'] not in KNOWN:
            continue
        src, pkg, what = KNOWN[f['id']]
        d = os.path.join(ctx.scratch, 'kf_' + f['id'])
        os.makedirs(os.path.join(d, 'pkg'), exist_ok=True)
        open(os.path.join(d, 'pkg', 'sub.py'), 'w').write('x = 1\n')
        fn = os.path.join(d, 'pkg', '__init__.py') if pkg else os.path.join(d, 'm.py')
        open(fn, 'w').write(src)
        # CPython: the program runs without NameError
        code = 'import sys; sys.path.insert(0, %r); import %s' % (d, 'pkg' if pkg else 'm')
        rc = subprocess.run([sys.executable, '-c', code], capture_output=True, text=True)
        runs_ok = rc.returncode == 0
        res = lint(Project([d]), src, fn)
        e02 = [r for r in res if r[0] in ('E02', 'E42')]
        if runs_ok and e02:
            ctx.known_finding(f['id'], what)


def run(ctx):
    proof_ok = ctx.coq_props()
    ctx.coverage['rule'] = ('A: generated single-scope bodies with break/continue/raise/return anywhere, decisions enumerated with <=2 trips per loop up to a cap; '
                            'B: generated modules with nested scopes executed under CPython with random decision lists; C: real files with a static must-succeed oracle. '
                            'non-trivial = an execution with at least one successful read (A), > 3 successful reads (B), > 10 oracle reads (C)')
    part_a(ctx)
    part_b(ctx)
    part_c(ctx)
    part_d(ctx)
    known_findings(ctx)
    if not proof_ok:
        ctx.violation('proof obligations of Props/C01.v not discharged: %s' % ctx.notes,
                      {'kind': 'proof', 'theorem': 'Props/C01.v', 'build_error': ctx.coverage.get('build_error')}, found_input=False)


def replay(ctx, obj):
    from supp.project import Project
    from supp.linter import lint
    r = obj['replay']
    if r.get('kind') in ('direct-B', 'direct-B-assist'):
        d = os.path.join(ctx.scratch, 'sgproj')
        os.makedirs(d, exist_ok=True)
        open(os.path.join(d, 'genlib.py'), 'w').write(scopegen.LIB_SRC)
        open(os.path.join(d, 'genhelp.py'), 'w').write(scopegen.GENHELP_SRC)
        res = lint(Project([d]), r['source'], os.path.join(d, 'replay.py'))
        hit = [x[:4] for x in res if [x[2], x[3]] == r['position'] and x[0] in ('E02', 'E42')]
        print(r['source'])
        print('lint at', r['position'], ':', hit)
        return 1 if hit or r['kind'] == 'direct-B-assist' else 0
    if r.get('kind') == 'direct-D' and r.get('position'):
        proj, d = rc.project(ctx)
        res = lint(proj, r['source'], os.path.join(d, 'gen_case.py'))
        hit = [x[:4] for x in res if [x[2], x[3]] == r['position'][:2] and x[0] in ('E02', 'E42')]
        print(r['source'])
        print('lint at', r['position'], ':', hit, '(the read succeeds under CPython with decisions %s)' % r.get('decisions'))
        return 1 if hit else 0
    if r.get('kind', '').startswith('direct-C'):
        res = lint(Project(['/nonexistent']), open(r['file']).read(), r['file'])
        hit = [x[:4] for x in res if [x[2], x[3]] == r['position']]
        print(hit)
        return 1 if hit else 0
    from props import c02
    return c02.replay(ctx, obj)
